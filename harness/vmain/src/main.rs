//! vmain: property drivers, worker pool, CLI.
//!
//!   vmain check <ID> quick|thorough
//!   vmain replay <ID> <file>
//!   vmain --worker <ID>            (internal)

mod bind;
mod corpus;
mod pool;
mod props;

use std::io::{BufRead, Write};
use std::panic::{AssertUnwindSafe, catch_unwind};

use serde_json::{Value, json};

fn worker_main(prop: &str) -> i32 {
    bind::install_panic_hook();
    let scratch = vcore::verif_root()
        .join("target")
        .join("scratch")
        .join(format!("w{}", std::process::id()));
    let _ = std::fs::create_dir_all(&scratch);
    if std::env::set_current_dir(&scratch).is_err() {
        eprintln!("MACHINERY: worker cannot enter scratch directory {}", scratch.display());
        return 2;
    }
    let stdin = std::io::stdin();
    let stdout = std::io::stdout();
    let mut out = stdout.lock();
    for line in stdin.lock().lines() {
        let Ok(line) = line else { break };
        if line.is_empty() {
            continue;
        }
        let case: Value = match serde_json::from_str(&line) {
            Ok(v) => v,
            Err(e) => json!({"machinery": format!("bad case json: {}", e)}),
        };
        let resp = match catch_unwind(AssertUnwindSafe(|| props::worker(prop, &case))) {
            Ok(v) => v,
            Err(_) => {
                let (file, msg) = bind::take_panic();
                json!({"machinery": format!("worker-side driver code panicked at {}: {}", file, msg)})
            }
        };
        let mut s = serde_json::to_string(&resp).unwrap();
        s.push('\n');
        if out.write_all(s.as_bytes()).is_err() || out.flush().is_err() {
            break;
        }
    }
    let _ = std::env::set_current_dir("/");
    let _ = std::fs::remove_dir_all(&scratch);
    0
}

fn main() {
    let args: Vec<String> = std::env::args().collect();
    let code = match args.get(1).map(|s| s.as_str()) {
        Some("--worker") => worker_main(args.get(2).map(|s| s.as_str()).unwrap_or("")),
        Some("check") => {
            let prop = args.get(2).cloned().unwrap_or_default();
            let tier = args
                .get(3)
                .cloned()
                .or_else(|| std::env::var("VERIF_TIER").ok())
                .unwrap_or_else(|| "quick".to_string());
            if tier != "quick" && tier != "thorough" {
                eprintln!("MACHINERY: unknown tier {}", tier);
                std::process::exit(2);
            }
            props::drive(&prop, &tier)
        }
        Some("run") => {
            // vmain run <file.bas> [stdin text]: run one text through the pipeline (triage helper)
            bind::install_panic_hook();
            let text = std::fs::read_to_string(args.get(2).map(|s| s.as_str()).unwrap_or("")).unwrap_or_default();
            let mut opts = bind::RunOpts::default();
            opts.check_types = true;
            opts.stdin = args.get(3).map(|s| s.replace("\\n", "\n").into_bytes()).unwrap_or_default();
            let out = bind::run_pipeline(&text, &opts);
            println!("stdout: {:?}", out.stdout_str());
            if !out.lpt1.is_empty() {
                println!("lpt1: {:?}", out.lpt1_str());
            }
            println!("end: {:?}", out.end);
            if let Some(m) = &out.mon {
                println!("instructions: {} type_violation: {:?} max_depths: {:?}", m.instructions, m.type_violation, m.max_depths);
            }
            0
        }
        Some("tree") => {
            // vmain tree <file.bas>: the parse tree's Debug rendering (triage helper)
            bind::install_panic_hook();
            let text = std::fs::read_to_string(args.get(2).map(|s| s.as_str()).unwrap_or("")).unwrap_or_default();
            match bind::try_parse(&text) {
                Ok(Ok(p)) => println!("{:?}", p),
                other => println!("no tree: {:?}", other.map(|r| r.map(|_| ()))),
            }
            0
        }
        Some("replay") => {
            let prop = args.get(2).cloned().unwrap_or_default();
            let file = args.get(3).cloned().unwrap_or_default();
            props::replay(&prop, &file)
        }
        _ => {
            eprintln!("usage: vmain check <ID> quick|thorough | vmain replay <ID> <file>");
            2
        }
    };
    std::process::exit(code);
}
