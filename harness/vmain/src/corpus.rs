//! Harvests program texts from the repository's own sources: every string literal in a
//! `*.rs` file under /repo that contains a BASIC keyword, plus every fixture file.
//! The harvest is redone from /repo's working tree on every run.

use std::collections::BTreeSet;
use std::path::{Path, PathBuf};

pub fn repo_root() -> PathBuf {
    PathBuf::from(std::env::var("VERIF_REPO").unwrap_or_else(|_| "/repo".to_string()))
}

fn walk(dir: &Path, out: &mut Vec<PathBuf>) {
    let Ok(rd) = std::fs::read_dir(dir) else { return };
    let mut entries: Vec<_> = rd.flatten().map(|e| e.path()).collect();
    entries.sort();
    for p in entries {
        let name = p.file_name().map(|s| s.to_string_lossy().to_string()).unwrap_or_default();
        if p.is_dir() {
            if name == "target" || name.starts_with('.') {
                continue;
            }
            walk(&p, out);
        } else if name.ends_with(".rs") || name.to_ascii_uppercase().ends_with(".BAS") {
            out.push(p);
        }
    }
}

/// Extracts the string literals of a Rust source file (plain, escaped and raw strings).
pub fn rust_string_literals(src: &str) -> Vec<String> {
    let c: Vec<char> = src.chars().collect();
    let n = c.len();
    let mut out = vec![];
    let mut i = 0;
    while i < n {
        // line comments
        if c[i] == '/' && i + 1 < n && c[i + 1] == '/' {
            while i < n && c[i] != '\n' {
                i += 1;
            }
            continue;
        }
        // block comments
        if c[i] == '/' && i + 1 < n && c[i + 1] == '*' {
            i += 2;
            while i + 1 < n && !(c[i] == '*' && c[i + 1] == '/') {
                i += 1;
            }
            i += 2;
            continue;
        }
        // char literals and lifetimes
        if c[i] == '\'' {
            if i + 2 < n && c[i + 1] == '\\' {
                // escaped char literal
                i += 2;
                while i < n && c[i] != '\'' {
                    i += 1;
                }
                i += 1;
                continue;
            }
            if i + 2 < n && c[i + 2] == '\'' {
                i += 3;
                continue;
            }
            i += 1;
            continue;
        }
        // raw strings
        if c[i] == 'r' && i + 1 < n && (c[i + 1] == '"' || c[i + 1] == '#') && (i == 0 || !(c[i - 1].is_alphanumeric() || c[i - 1] == '_')) {
            let mut j = i + 1;
            let mut hashes = 0;
            while j < n && c[j] == '#' {
                hashes += 1;
                j += 1;
            }
            if j < n && c[j] == '"' {
                j += 1;
                let start = j;
                let mut found = None;
                while j < n {
                    if c[j] == '"' {
                        let mut k = 0;
                        while k < hashes && j + 1 + k < n && c[j + 1 + k] == '#' {
                            k += 1;
                        }
                        if k == hashes {
                            found = Some(j);
                            break;
                        }
                    }
                    j += 1;
                }
                if let Some(end) = found {
                    out.push(c[start..end].iter().collect());
                    i = end + 1 + hashes;
                    continue;
                }
            }
        }
        if c[i] == '"' {
            let mut s = String::new();
            i += 1;
            while i < n && c[i] != '"' {
                if c[i] == '\\' && i + 1 < n {
                    i += 1;
                    match c[i] {
                        'n' => s.push('\n'),
                        'r' => s.push('\r'),
                        't' => s.push('\t'),
                        '0' => s.push('\0'),
                        '\\' => s.push('\\'),
                        '"' => s.push('"'),
                        '\'' => s.push('\''),
                        'u' => {
                            // \u{XXXX}
                            let mut j = i + 1;
                            if j < n && c[j] == '{' {
                                j += 1;
                                let mut v = 0u32;
                                while j < n && c[j] != '}' {
                                    v = v * 16 + c[j].to_digit(16).unwrap_or(0);
                                    j += 1;
                                }
                                if let Some(ch) = char::from_u32(v) {
                                    s.push(ch);
                                }
                                i = j;
                            }
                        }
                        'x' => {
                            if i + 2 < n {
                                let v = c[i + 1].to_digit(16).unwrap_or(0) * 16 + c[i + 2].to_digit(16).unwrap_or(0);
                                if let Some(ch) = char::from_u32(v) {
                                    s.push(ch);
                                }
                                i += 2;
                            }
                        }
                        '\n' => {
                            // line continuation: skip leading whitespace of the next line
                            while i + 1 < n && c[i + 1].is_whitespace() {
                                i += 1;
                            }
                        }
                        other => s.push(other),
                    }
                } else {
                    s.push(c[i]);
                }
                i += 1;
            }
            i += 1;
            out.push(s);
            continue;
        }
        i += 1;
    }
    out
}

const KEYWORDS: &[&str] = &[
    "PRINT", "DIM", "FOR", "NEXT", "WHILE", "WEND", "IF", "THEN", "SUB", "FUNCTION", "INPUT", "CONST",
    "SELECT", "CASE", "DO", "LOOP", "GOTO", "GOSUB", "DECLARE", "DATA", "READ", "OPEN", "CLOSE", "TYPE",
    "DEFINT", "ON ERROR", "LET", "END", "REM",
];

fn looks_like_basic(s: &str) -> bool {
    if s.len() < 3 || s.len() > 20_000 {
        return false;
    }
    let up = s.to_ascii_uppercase();
    KEYWORDS.iter().any(|k| {
        up.match_indices(k).any(|(i, _)| {
            let before = up[..i].chars().last();
            let after = up[i + k.len()..].chars().next();
            !before.map(|c| c.is_ascii_alphanumeric()).unwrap_or(false)
                && !after.map(|c| c.is_ascii_alphanumeric()).unwrap_or(false)
        })
    })
}

/// De-indents a text the way the test authors wrote it inside raw strings: the common
/// leading indentation stays (the parser accepts leading blanks), nothing is altered.
pub struct Harvest {
    /// (origin, text), de-duplicated, in a deterministic order
    pub texts: Vec<(String, String)>,
    pub files_scanned: usize,
}

pub fn harvest() -> Harvest {
    let root = repo_root();
    let mut files = vec![];
    // only the repository's own source directories (a scratch worktree may hold other files, e.g. the
    // demonstration programs of a seeded change, which must not leak into the corpus)
    for d in ["fixtures", "rusty_basic", "rusty_bit_vec", "rusty_common", "rusty_linter", "rusty_parser", "rusty_pc", "rusty_variant"] {
        walk(&root.join(d), &mut files);
    }
    let mut seen: BTreeSet<String> = BTreeSet::new();
    let mut texts = vec![];
    for f in &files {
        let Ok(bytes) = std::fs::read(f) else { continue };
        let content = String::from_utf8_lossy(&bytes).to_string();
        let rel = f.strip_prefix(&root).unwrap_or(f).display().to_string();
        if rel.to_ascii_uppercase().ends_with(".BAS") {
            if seen.insert(content.clone()) {
                texts.push((rel, content));
            }
            continue;
        }
        for (k, lit) in rust_string_literals(&content).into_iter().enumerate() {
            if looks_like_basic(&lit) && seen.insert(lit.clone()) {
                texts.push((format!("{}#{}", rel, k), lit));
            }
        }
    }
    Harvest {
        texts,
        files_scanned: files.len(),
    }
}
