//! C03 — calls: by-reference arguments, fresh locals, results, STATIC and SHARED state.
//! Argument shapes are enumerated completely (E1); call histories of STATIC and ordinary
//! subprograms are explored as a full tree up to a depth (E2), every history replayed on
//! the implementation and compared with the reference model; a VM monitor checks the
//! context states and memory blocks at the end of each history.

use serde_json::{Value, json};
use vcore::gen03::{EVENT_NAMES, arg_programs, history_at, history_count, history_program};
use vcore::gprint::print_default;
use vcore::{End, Evidence};

use super::Run;
use super::c01::{differential_opts, differential_opts_layout};
use crate::bind::{RunOpts, Stage, run_pipeline};
use crate::pool::Pool;

pub fn worker(case: &Value) -> Value {
    if case["axis"].as_str() == Some("text") {
        let o = run_pipeline(case["text"].as_str().unwrap_or(""), &RunOpts::default());
        return json!({"n": 1, "bad": [], "observed": {"stdout": o.stdout_str(), "end": format!("{:?}", o.end)}});
    }
    let kind = case["k"].as_str().unwrap_or("");
    let lo = case["lo"].as_u64().unwrap();
    let hi = case["hi"].as_u64().unwrap();
    let mut bads = vec![];
    let mut n = 0u64;
    let mut nontrivial = 0u64;
    let mut states = 0u64;
    let mut hist: std::collections::BTreeMap<String, u64> = Default::default();
    let mut sample = Value::Null;
    let mut push_bad = |bads: &mut Vec<Value>, sig: String, msg: String, text: String| {
        if bads.len() < 25 {
            bads.push(json!({"sig": sig, "summary": format!("{} — program: {:?}", msg, super::truncate_text(&text, 700)), "text": text, "case": {"axis": "text", "text": text}}));
        }
    };
    match kind {
        "args" => {
            let all = arg_programs();
            for c in all.iter().skip(lo as usize).take((hi - lo) as usize) {
                n += 1;
                nontrivial += 1;
                if c.expect_reject {
                    let text = print_default(&c.prog).text;
                    let o = run_pipeline(&text, &RunOpts { stage: Stage::Lint, ..RunOpts::default() });
                    let ok = matches!(&o.end, End::LintError { kind, .. } if kind == "ArgumentTypeMismatch");
                    *hist.entry(if ok { "rejected-as-expected".into() } else { "not-rejected".to_string() }).or_insert(0) += 1;
                    if !ok {
                        push_bad(&mut bads, format!("C03|args|by-ref-other-type-not-rejected|{}", c.label), format!("a variable of another numeric type for a by-reference parameter must be rejected, got {:?}", o.end), text);
                    }
                    continue;
                }
                let opts = RunOpts { budget: 400_000, ..RunOpts::default() };
                let (class, _, bad, _) = differential_opts(&c.prog, b"", "args", &opts);
                // the same program with LET before assignments and CALL Name(arguments) for SUB calls
                if !c.expect_reject {
                    let layout = vcore::gprint::Layout { let_and_call: true, ..Default::default() };
                    let (class2, _, bad2, _) = differential_opts_layout(&c.prog, b"", "args-call", &opts, &layout);
                    n += 1;
                    nontrivial += 1;
                    *hist.entry(format!("CALL form: {}", class2)).or_insert(0) += 1;
                    if let Some((sig, msg, text)) = bad2 {
                        push_bad(&mut bads, format!("C03|{}|{}", sig, c.label), format!("{} — {} (CALL form)", msg, c.label), text);
                    }
                }
                *hist.entry(class).or_insert(0) += 1;
                if sample.is_null() {
                    sample = json!({"kind": "args", "label": c.label, "text": print_default(&c.prog).text});
                }
                if let Some((sig, msg, text)) = bad {
                    push_bad(&mut bads, format!("C03|{}|{}", sig, c.label), format!("{} — {}", msg, c.label), text);
                }
            }
        }
        "hist" => {
            let depth = case["depth"].as_u64().unwrap() as usize;
            let in_sub = case["sub"].as_bool().unwrap_or(false);
            for idx in lo..hi {
                let events = history_at(idx, depth);
                let prog = history_program(&events, in_sub);
                let opts = RunOpts { budget: 400_000, record_statement_depths: true, trace_cap: 4000, ..RunOpts::default() };
                let (class, _, bad, o) = differential_opts(&prog, b"", "hist", &opts);
                n += 1;
                nontrivial += 1;
                states += events.len() as u64;
                *hist.entry(class.clone()).or_insert(0) += 1;
                let label: Vec<&str> = events.iter().map(|e| EVENT_NAMES[*e]).collect();
                if sample.is_null() {
                    sample = json!({"kind": "history", "events": label, "text": print_default(&prog).text});
                }
                if let Some((sig, msg, text)) = bad {
                    push_bad(&mut bads, format!("C03|{}|{}{:?}", sig, if in_sub { "in-sub " } else { "" }, events), format!("{} — history {:?}", msg, label), text);
                    continue;
                }
                // monitor: at module level exactly one context state; memory blocks = 1 + STATIC subprograms called
                if class.starts_with("agree")
                    && let Some(m) = &o.mon
                {
                    let statics = (events.iter().any(|e| matches!(*e, 0 | 1 | 6 | 7)) as usize) + (events.iter().any(|e| *e == 3) as usize) + (events.iter().any(|e| matches!(*e, 6 | 7)) as usize);
                    for r in &m.trace {
                        // [pc, value, register, var_path, by_ref, states, top_is_arg, blocks, ret, gosub, stacktrace, fn_pending]
                        if r[8] == 0 && r[10] == 0 && r[6] == 0 && r[5] != 1 {
                            push_bad(&mut bads, "C03|monitor|context-states-at-module-level".into(), format!("at instruction {} (module level) there are {} context states", r[0], r[5]), print_default(&prog).text);
                            break;
                        }
                    }
                    if !in_sub
                        && let Some(last) = m.trace.last()
                        && last[8] == 0
                        && last[7] != 1 + statics
                    {
                        push_bad(&mut bads, "C03|monitor|memory-blocks".into(), format!("after history {:?} there are {} memory blocks, expected 1 + {} STATIC subprograms", label, last[7], statics), print_default(&prog).text);
                    }
                }
            }
        }
        "judged" => {
            // a built-in called with a variable and, in a later argument, a FUNCTION that changes that variable through its
            // by-reference parameter: the FUNCTION's final value is what the caller sees afterwards (the values are chosen
            // so that the built-in's result does not depend on which value of the variable it reads)
            for (text, want) in judged_programs() {
                n += 1;
                nontrivial += 1;
                let o = run_pipeline(&text, &RunOpts::default());
                if matches!(o.end, End::Normal) && o.stdout_str() == want {
                    *hist.entry("judged: as expected".into()).or_insert(0) += 1;
                } else {
                    // what the known defect does, and nothing else: the built-in's result is right, the variable is back to "abc"
                    let undone = matches!(o.end, End::Normal) && o.stdout_str() == want.replace("zbcd", "abc");
                    let sig = if undone { "C03|judged|built-in FUNCTION call: the change a FUNCTION in a later argument made to the variable is undone" } else { "C03|judged|built-in call with a FUNCTION in a later argument: wrong output" };
                    push_bad(&mut bads, sig.into(), format!("expected {:?} and a normal end, got {:?} and {}", want, o.stdout_str(), o.end.class()), text);
                }
            }
        }
        other => return json!({"machinery": format!("unknown C03 case kind {}", other)}),
    }
    json!({"n": n, "nontrivial": nontrivial, "hist": hist, "bad": bads, "sample": sample, "states": states})
}

fn judged_programs() -> Vec<(String, String)> {
    let chg = "FUNCTION Chg$ (S$)\n  S$ = \"z\" + MID$(S$, 2) + \"d\"\n  Chg$ = \"b\"\nEND FUNCTION\nFUNCTION Two% (S$)\n  S$ = \"z\" + MID$(S$, 2) + \"d\"\n  Two% = 2\nEND FUNCTION\n";
    let head = "DECLARE FUNCTION Chg$ (S$)\nDECLARE FUNCTION Two% (S$)\n";
    let mut v = vec![];
    for (stmt, out) in [
        ("P% = INSTR(A$, Chg$(A$))\nPRINT P%; A$", " 2 zbcd\r\n"),
        ("PRINT MID$(A$, Two%(A$), 1); A$", "bzbcd\r\n"),
        ("X$ = LEFT$(A$, 0) + Chg$(A$)\nPRINT X$; A$", "bzbcd\r\n"),
        ("PRINT LEN(A$) * 0 + Two%(A$); A$", " 2 zbcd\r\n"),
        ("PRINT INSTR(Two%(A$), A$, \"b\"); A$", " 2 zbcd\r\n"),
        ("DIM R(1 TO 2) AS STRING\nR(1) = \"abc\"\nI% = 1\nPRINT MID$(R(I%), Two%(R(I%)), 1); R(1)", "bzbcd\r\n"),
    ] {
        v.push((format!("{}A$ = \"abc\"\n{}\nEND\n{}", head, stmt, chg), out.to_string()));
    }
    v
}

pub fn drive(tier: &str) -> i32 {
    let quick = tier == "quick";
    let mut run = Run::new("C03", tier);
    run.crash_is_violation = true;
    let mut pool = Pool::new("C03");
    pool.timeout_ms = 60_000;
    let mut cases = vec![];
    let total = arg_programs().len() as u64;
    let mut lo = 0;
    while lo < total {
        cases.push(json!({"k": "args", "lo": lo, "hi": (lo + 25).min(total)}));
        lo += 25;
    }
    cases.push(json!({"k": "judged", "lo": 0, "hi": 0}));
    let depth = if quick { 4 } else { 5 };
    let histories = history_count(depth);
    for in_sub in [false, true] {
        if in_sub && !quick {
            // the in-sub variant is explored one level less deep
        }
        let d = if in_sub { depth - 1 } else { depth };
        let total = history_count(d);
        let mut lo = 0;
        while lo < total {
            cases.push(json!({"k": "hist", "depth": d, "sub": in_sub, "lo": lo, "hi": (lo + 40).min(total)}));
            lo += 40;
        }
    }
    let total_cases = cases.len();
    let cap = run.wall_cap_s;
    let t0 = run.reporter.start;
    let mut transitions = 0u64;
    let it = cases.into_iter().take_while(|_| t0.elapsed().as_secs_f64() < cap);
    run.run_pool(&pool, it, |_, _, _, v| {
        transitions += v["states"].as_u64().unwrap_or(0);
    });
    if (run.cases as usize) < total_cases {
        run.capped = true;
    }
    // history independence: the call programs after each disturbing prefix (vcore::disturb)
    let mut dtexts: Vec<String> = arg_programs().iter().filter(|c| !c.expect_reject).map(|c| print_default(&c.prog).text).collect();
    let hd = if quick { 2 } else { 3 };
    for idx in 0..history_count(hd) {
        let ev = history_at(idx, hd);
        if !ev.is_empty() {
            dtexts.push(print_default(&history_program(&ev, false)).text);
        }
    }
    let dgroup = super::disturbw::run_group(&mut run, &pool, &dtexts, if quick { 5 } else { 1 }, false);
    let mut ev = Evidence::new("model_checking");
    ev.set("groups", json!([dgroup]));
    ev.assume(super::disturbw::ASSUMPTION);
    ev.set("rule", "E1 argument shapes: parameter types {%, &, !, #, $, record, array} x argument shapes {variable, array element, record field, STRING*3 variable, literal, literal of another numeric type, arithmetic, parenthesised variable, variable of another numeric type (must be rejected), user function call, nested call with its own by-reference argument} x callee actions {leave, assign, assign twice, pass on by reference} x {SUB, FUNCTION}; the same variable passed twice; array elements by reference whose subscripts the callee changes, have side effects or contain FUNCTION calls (the element is fixed when the call is made); every accepted one also written with LET and CALL Name(arguments); recursion depths 0..3 with a local per activation; size ladders: subprograms with 1..16 parameters of rotating types (every by-reference / by-value mix up to 4 parameters, all / none / alternating / all-but-one / only-first / only-last beyond), called twice; call chains of 2..33 subprograms (every third STATIC) passing a parameter on by reference; recursion to depth 8..120 with a local and a by-reference accumulator; 4..40 locals shadowing module-level variables of the same names. E2 call histories: the full tree of event sequences up to the depth over {call STATIC S, call O (which calls S), call P, Show F(1) with STATIC FUNCTION F as an argument expression, recursive R(2), assign DIM SHARED G, call STATIC Tally (which calls S), Deep 2 (a recursive ordinary SUB with a local per activation that calls S at the bottom and Tally on the way back)}, at module level and inside an ordinary SUB; every history is compiled to a program, run on the implementation and on the reference model (static locals of S, Tally and F, SHARED values); the VM monitor checks one context state at module level and 1 + (STATIC subprograms called) memory blocks at the end. History independence: the argument-shape programs and the call histories of small depth run after each disturbing prefix (a run-time error trapped while by-reference values wait to be copied back, in the middle of an argument list, ...; see the group) must print and end as they do alone.");
    ev.set("exhaustive", !run.capped);
    ev.set("states", histories);
    ev.set("transitions", transitions);
    ev.set("traces_validated_against_impl", run.evaluations);
    ev.set("history_depth_full_tree", depth as u64);
    ev.set("argument_shape_programs", total);
    ev.set("distinct_nontrivial", run.nontrivial);
    ev.assume("R19: a by-reference argument whose subscript depends on another by-reference argument of the same call is not generated");
    run.finish(ev)
}
