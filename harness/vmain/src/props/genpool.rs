//! Program texts produced by the per-property generators (C01 control forests, C03 argument shapes
//! and call histories, C04 array / record / fixed-string programs, C05 jump layouts, loop escapes,
//! faults and handler histories), for the checks whose quantifier is "all accepted programs"
//! (C08 crash-freedom, C15 code shape and stack balance). Deterministic, smallest first.

use vcore::gprint::print_default;

pub fn generated_groups(quick: bool) -> Vec<(String, Vec<String>)> {
    let mut groups: Vec<(String, Vec<String>)> = vec![];
    // C01 axis A
    {
        let mut v = vec![];
        let n = if quick { 2 } else { 3 };
        for k in 1..=n {
            let fs = vcore::gen01::forests(k);
            let step = if k == 3 { 7 } else { 1 };
            for f in fs.iter().step_by(step) {
                for last in [false, true] {
                    v.push(print_default(&vcore::gen01::control_program(f, last)).text);
                    v.push(print_default(&vcore::gen01::control_program_in_sub(f, last)).text);
                }
            }
        }
        groups.push((format!("generated control programs (forests of <= {} constructs over 15 kinds, module level and in a SUB)", n), v));
    }
    // C03
    {
        let mut v = vec![];
        for c in vcore::gen03::arg_programs() {
            v.push(print_default(&c.prog).text);
        }
        let depth = if quick { 3 } else { 4 };
        for idx in 0..vcore::gen03::history_count(depth) {
            let ev = vcore::gen03::history_at(idx, depth);
            if ev.is_empty() {
                continue;
            }
            for in_sub in [false, true] {
                v.push(print_default(&vcore::gen03::history_program(&ev, in_sub)).text);
            }
        }
        groups.push((format!("generated call programs (argument shapes; call histories of depth <= {})", depth), v));
    }
    // C04
    {
        use vcore::gen04::*;
        let mut v = vec![];
        let dims = if quick { 2 } else { 3 };
        for s in shapes(dims) {
            if quick && s.dims.len() == 2 && !s.explicit {
                continue;
            }
            for e in ELEMS {
                v.push(print_default(&fill_program(&s, e)).text);
            }
            if s.explicit && s.dims.len() <= 2 {
                for p in probe_programs(&s) {
                    v.push(print_default(&p).text);
                }
            }
        }
        for s in shapes(1).into_iter().filter(|s| s.explicit) {
            for e in ELEMS {
                for p in isolation_programs(&s, e) {
                    v.push(print_default(&p).text);
                }
            }
        }
        for (p, _) in fixed_string_programs() {
            v.push(print_default(&p).text);
        }
        v.push(print_default(&typed_index_program()).text);
        v.push(print_default(&implicit_index_program()).text);
        for (p, _) in redim_programs().into_iter().chain(redim_in_sub_programs()).chain(bypassed_dim_programs()) {
            v.push(print_default(&p).text);
        }
        groups.push((format!("generated array / record / fixed-string programs (<= {} dimensions)", dims), v));
    }
    // C05
    {
        use vcore::gen05::*;
        let mut v = vec![];
        for (order, acts, entry) in jump_layouts(quick) {
            for in_sub in [false, true] {
                v.push(print_default(&jump_program(&order, &acts, entry, in_sub)).text);
            }
        }
        for (kinds, target, gosub) in escape_cases() {
            v.push(print_default(&escape_program(&kinds, target, gosub)).text);
        }
        for (f, c, p, h, ch) in fault_cases() {
            if let Some(prog) = fault_program(f, c, p, h, ch) {
                v.push(print_default(&prog).text);
            }
        }
        for dir in 0..SCOPE_DIRS.len() {
            for jump in 0..SCOPE_JUMPS.len() {
                v.push(print_default(&cross_scope_program(dir, jump).0).text);
            }
        }
        for kind in 0..INTO_KINDS.len() {
            for (in_sub, twice) in [(false, false), (true, false), (false, true), (true, true)] {
                v.push(print_default(&jump_into_program(kind, in_sub, twice)).text);
            }
        }
        let depth = if quick { 3 } else { 5 };
        for idx in 0..handler_history_count(depth) {
            let ev = handler_history_at(idx, depth);
            if !ev.is_empty() {
                v.push(print_default(&handler_history_program(&ev)).text);
            }
        }
        groups.push((format!("generated jump layouts, loop escapes, jumps into blocks and across scopes, fault x container x handler programs, handler histories of depth <= {}", depth), v));
    }
    // history independence material: call programs after each disturbing prefix (vcore::disturb) — for C15 these are
    // programs in which a trapped error interrupts a call at an awkward moment and more calls follow
    {
        let mut v = vec![];
        for p in vcore::disturb::PREFIXES {
            v.push(vcore::disturb::prefix_alone(p));
        }
        let args = vcore::gen03::arg_programs();
        let step = if quick { 23 } else { 5 };
        for c in args.iter().filter(|c| !c.expect_reject).step_by(step) {
            let text = print_default(&c.prog).text;
            for p in vcore::disturb::PREFIXES {
                if let Some(t) = vcore::disturb::combine(p, &text) {
                    v.push(t);
                }
            }
        }
        groups.push((format!("disturbing prefixes (a run-time error trapped while by-reference values wait, in the middle of an argument list, in a PRINT item, ...) alone and followed by every {}-th call program", step), v));
    }
    groups
}
