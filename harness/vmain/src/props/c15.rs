//! C15 — generated code is well-formed: every branch lands where intended, stacks balance.
//!
//! For every accepted program: (1) static well-formedness of the instruction list,
//! (2) explicit-state reachability over abstract states (pc, depth vector, GOSUB
//! stack) per procedure — no underflow, a unique depth vector at every pc, balance
//! at every procedure exit —, (3) the same with error edges into the active handler
//! (C15-E), and (4) conformance: the program is executed on the real VM and every
//! statement-start depth record must be a state of the abstract graph.

use std::collections::{BTreeMap, HashMap, HashSet, VecDeque};

use rusty_basic::instruction_generator::{AddressOrLabel, Instruction, InstructionGeneratorResult};
use serde_json::{Value, json};
use vcore::{End, Evidence};

use super::{Run, run_text_group, truncate_text};
use crate::bind::{RunOpts, front_end, run_generated};
use crate::corpus::harvest;
use crate::pool::Pool;

#[derive(Clone, Debug, PartialEq, Eq, Hash, PartialOrd, Ord)]
struct Depth {
    v: i32,
    r: i32,
    /// variable paths being built: true = the path has an array index (so using it can fail)
    p: Vec<bool>,
    q: i32,
    /// context states pushed since procedure entry: true = collecting arguments
    s: Vec<bool>,
    f: bool,
    /// pending GOSUB return addresses (bounded)
    g: Vec<usize>,
    /// inside an error handler entered through an error edge (C15-E only)
    h: Option<usize>,
    /// the active error handling mode: 0 = none, 1 = resume next, 2 + address = handler
    mode: usize,
    /// depths (value, var-path, by-ref, states) when the current statement started: a handled
    /// error restores them (C15-E only)
    entry: (i32, usize, i32, usize),
}

impl Depth {
    fn zero() -> Self {
        Depth {
            v: 0,
            r: 0,
            p: vec![],
            q: 0,
            s: vec![],
            f: false,
            g: vec![],
            h: None,
            mode: 0,
            entry: (0, 0, 0, 0),
        }
    }

    fn short(&self) -> String {
        format!(
            "value={} registers={} var_path={} by_ref={} states={:?} fn_result={} gosub={}",
            self.v,
            self.r,
            self.p.len(),
            self.q,
            self.s.iter().map(|a| if *a { 'A' } else { 'N' }).collect::<String>(),
            self.f,
            self.g.len()
        )
    }

    /// What the VM does when an error is handled: back to the depths of the statement's start.
    fn unwound(&self) -> Depth {
        let mut e = self.clone();
        e.v = e.v.min(self.entry.0);
        e.p.truncate(self.entry.1);
        e.q = e.q.min(self.entry.2);
        e.s.truncate(self.entry.3);
        e.f = false;
        e
    }

    /// The part compared for path independence (the GOSUB stack and handler flag are control state).
    fn stacks(&self) -> (i32, i32, i32, i32, Vec<bool>, bool) {
        (self.v, self.r, self.p.len() as i32, self.q, self.s.clone(), self.f)
    }
}

struct Proc {
    name: String,
    start: usize,
    end: usize, // exclusive
}

fn is_proc_label(i: &Instruction) -> Option<String> {
    if let Instruction::Label(l) = i {
        let s = l.to_string();
        if s.starts_with(":sub:") || s.starts_with(":fun:") {
            return Some(s);
        }
    }
    None
}

/// Can this instruction raise a run-time error in this abstract state?
/// (The linter rules out type errors; a variable path without an index cannot fail.)
fn fallible(i: &Instruction, d: &Depth) -> bool {
    match i {
        Instruction::CopyAToVarPath | Instruction::CopyVarPathToA => d.p.last() == Some(&true),
        Instruction::AllocateArrayIntoA(_)
        | Instruction::Return(_)
        | Instruction::Resume
        | Instruction::ResumeNext
        | Instruction::ResumeLabel(_)
        | Instruction::BuiltInSub(_)
        | Instruction::BuiltInFunction(_)
        | Instruction::Cast(_)
        | Instruction::Plus
        | Instruction::Minus
        | Instruction::Multiply
        | Instruction::Divide
        | Instruction::Modulo
        | Instruction::And
        | Instruction::Or
        | Instruction::NegateA
        | Instruction::NotA
        | Instruction::Throw(_)
        | Instruction::PrintComma
        | Instruction::PrintValueFromA
        | Instruction::PrintEnd => true,
        _ => false,
    }
}

pub struct Analysis {
    pub bads: Vec<(String, String)>,
    pub states: u64,
    pub transitions: u64,
    /// reachable (pc -> stacks) of the plain analysis, for conformance
    reach: HashMap<usize, HashSet<(i32, i32, i32, i32, Vec<bool>, bool)>>,
    procs: Vec<Proc>,
}

fn addr(a: &AddressOrLabel) -> Option<usize> {
    match a {
        AddressOrLabel::Resolved(x) => Some(*x),
        AddressOrLabel::Unresolved(_) => None,
    }
}

const GOSUB_BOUND: usize = 3;
const MAX_STATES_PER_PROC: usize = 200_000;

pub fn analyse(igr: &InstructionGeneratorResult, with_error_edges: bool) -> Analysis {
    let ins: Vec<&Instruction> = igr.instructions.iter().map(|p| &p.element).collect();
    let n = ins.len();
    let mut bads: Vec<(String, String)> = vec![];
    let mut bad = |sig: &str, msg: String| {
        if bads.len() < 20 && !bads.iter().any(|(s, _)| s == sig) {
            bads.push((sig.to_string(), msg));
        }
    };
    // ---- procedures ----
    let mut procs: Vec<Proc> = vec![];
    let mut main_end = n;
    for (i, x) in ins.iter().enumerate() {
        if let Some(name) = is_proc_label(x) {
            if procs.is_empty() {
                main_end = i;
            } else {
                procs.last_mut().unwrap().end = i;
            }
            procs.push(Proc {
                name,
                start: i,
                end: n,
            });
        }
    }
    procs.insert(
        0,
        Proc {
            name: "main".into(),
            start: 0,
            end: main_end,
        },
    );
    let proc_of = |pc: usize| -> usize {
        procs
            .iter()
            .position(|p| pc >= p.start && pc < p.end)
            .unwrap_or(0)
    };
    // ---- static well-formedness ----
    if !with_error_edges {
        let mut labels: HashMap<String, usize> = HashMap::new();
        for (i, x) in ins.iter().enumerate() {
            if let Instruction::Label(l) = x {
                let key = l.to_string().to_ascii_uppercase();
                if let Some(prev) = labels.insert(key.clone(), i) {
                    let generic = if key.starts_with('_') {
                        key.split('_').nth(1).unwrap_or("").to_string()
                    } else {
                        "user-label".to_string()
                    };
                    bad(
                        &format!("C15|static|duplicate-label|{}", generic),
                        format!("label {} is defined at instruction {} and again at {}", l, prev, i),
                    );
                }
            }
        }
        for (i, x) in ins.iter().enumerate() {
            let targets: Vec<(&str, &AddressOrLabel, bool)> = match x {
                Instruction::Jump(a) => vec![("Jump", a, true)],
                Instruction::JumpIfFalse(a) => vec![("JumpIfFalse", a, true)],
                Instruction::GoSub(a) => vec![("GoSub", a, true)],
                Instruction::Return(Some(a)) => vec![("Return", a, true)],
                Instruction::OnErrorGoTo(a) => vec![("OnErrorGoTo", a, false)],
                Instruction::ResumeLabel(a) => vec![("ResumeLabel", a, false)],
                _ => vec![],
            };
            for (what, a, local) in targets {
                match addr(a) {
                    None => bad(
                        &format!("C15|static|unresolved|{}", what),
                        format!("{} at instruction {} has an unresolved target {:?}", what, i, a),
                    ),
                    Some(t) if t >= n => bad(
                        &format!("C15|static|target-outside-list|{}", what),
                        format!("{} at instruction {} targets {} but the list has {} instructions", what, i, t, n),
                    ),
                    Some(t) => {
                        let is_call = matches!(x, Instruction::Jump(_))
                            && i > 0
                            && matches!(ins[i - 1], Instruction::PushRet(_))
                            && is_proc_label(ins[t]).is_some();
                        if local && !is_call && proc_of(t) != proc_of(i) {
                            bad(
                                &format!("C15|static|branch-leaves-procedure|{}", what),
                                format!(
                                    "{} at instruction {} (in {}) targets {} (in {})",
                                    what,
                                    i,
                                    procs[proc_of(i)].name,
                                    t,
                                    procs[proc_of(t)].name
                                ),
                            );
                        }
                    }
                }
            }
            if let Instruction::PushRet(a) = x
                && *a >= n
            {
                bad("C15|static|target-outside-list|PushRet", format!("PushRet({}) at {} outside the list", a, i));
            }
        }
        // main ends in Halt, procedures in PopRet
        if main_end == 0 || !matches!(ins[main_end - 1], Instruction::Halt) {
            bad("C15|static|main-does-not-end-in-halt", format!("instruction {} is not Halt", main_end.saturating_sub(1)));
        }
        for p in procs.iter().skip(1) {
            if !matches!(ins[p.end - 1], Instruction::PopRet) {
                bad("C15|static|procedure-does-not-end-in-return", format!("{} ends at {} without PopRet", p.name, p.end - 1));
            }
        }
        for w in igr.statement_addresses.windows(2) {
            if w[0] > w[1] {
                bad("C15|static|statement-addresses-not-ascending", format!("{} followed by {}", w[0], w[1]));
            }
        }
        if let Some(last) = igr.statement_addresses.last()
            && *last > n
        {
            bad("C15|static|statement-address-outside-list", format!("{} > {}", last, n));
        }
    }
    let stmt_starts: HashSet<usize> = igr.statement_addresses.iter().copied().collect();
    let sorted_stmts: Vec<usize> = {
        let mut v = igr.statement_addresses.clone();
        v.sort();
        v.dedup();
        v
    };
    let stmt_of = |pc: usize| -> usize {
        match sorted_stmts.binary_search(&pc) {
            Ok(i) => sorted_stmts[i],
            Err(0) => 0,
            Err(i) => sorted_stmts[i - 1],
        }
    };
    let next_stmt = |pc: usize| -> usize {
        match sorted_stmts.binary_search(&pc) {
            Ok(i) => sorted_stmts.get(i + 1).copied().unwrap_or(pc + 1),
            Err(i) => sorted_stmts.get(i).copied().unwrap_or(pc + 1),
        }
    };
    // instructions of block statements' own code (their range contains a label or a conditional jump)
    let mut block_header = vec![false; n + 1];
    {
        let mut bounds = sorted_stmts.clone();
        bounds.push(n);
        for w in bounds.windows(2) {
            let (a, b) = (w[0], w[1].min(n));
            if ins[a..b].iter().any(|x| matches!(x, Instruction::Label(_) | Instruction::JumpIfFalse(_))) {
                for k in a..b {
                    block_header[k] = true;
                }
            }
        }
    }
    let mut skipped_header_edges = 0u64;
    let handlers: Vec<usize> = ins
        .iter()
        .filter_map(|x| match x {
            Instruction::OnErrorGoTo(a) => addr(a),
            _ => None,
        })
        .collect();
    let has_resume_next_mode = ins.iter().any(|x| matches!(x, Instruction::OnErrorResumeNext));

    // ---- reachability per procedure ----
    let mut total_states = 0u64;
    let mut total_transitions = 0u64;
    let mut reach: HashMap<usize, HashSet<(i32, i32, i32, i32, Vec<bool>, bool)>> = HashMap::new();
    let tag = if with_error_edges { "E" } else { "flow" };
    for (pi, p) in procs.iter().enumerate() {
        let mut seen: HashSet<(usize, Depth)> = HashSet::new();
        let mut first_at: HashMap<usize, Depth> = HashMap::new();
        let mut queue: VecDeque<(usize, Depth)> = VecDeque::new();
        let mut initial_modes: Vec<usize> = vec![0];
        if with_error_edges && pi > 0 {
            if has_resume_next_mode {
                initial_modes.push(1);
            }
            for h in &handlers {
                initial_modes.push(2 + h);
            }
        }
        for m in initial_modes {
            let mut z = Depth::zero();
            z.mode = m;
            seen.insert((p.start, z.clone()));
            queue.push_back((p.start, z));
        }
        while let Some((pc, d)) = queue.pop_front() {
            let mut d = d;
            if with_error_edges && stmt_starts.contains(&pc) {
                d.entry = (d.v, d.p.len(), d.q, d.s.len());
            }
            total_states += 1;
            if seen.len() > MAX_STATES_PER_PROC {
                bad(&format!("C15|{}|state-space-not-finite", tag), format!("more than {} abstract states in {}: some stack grows along a cycle", MAX_STATES_PER_PROC, p.name));
                break;
            }
            if pc >= n {
                continue;
            }
            // handler code entered through an error edge may legitimately belong to main
            let in_handler = d.h.is_some();
            if !in_handler && (pc < p.start || pc >= p.end) {
                // left the procedure (reported by the static check), stop here
                continue;
            }
            reach.entry(pc).or_default().insert(d.stacks());
            // path independence
            match first_at.get(&pc) {
                None => {
                    first_at.insert(pc, d.clone());
                }
                Some(first) => {
                    if first.stacks() != d.stacks() && first.h.is_some() == d.h.is_some() {
                        let what = diff_kind(first, &d);
                        let at = if stmt_starts.contains(&pc) { "statement-start" } else { "mid-statement" };
                        let sig = if with_error_edges {
                            format!("C15|E|stack-not-unwound-after-handled-error|{}", what)
                        } else {
                            format!("C15|{}|depth-not-unique|{}|{}|{}", tag, what, at, instr_name(ins[pc]))
                        };
                        bad(
                            &sig,
                            format!(
                                "in {} instruction {} ({:?}) is reached with [{}] and with [{}]",
                                p.name,
                                pc,
                                ins[pc],
                                first.short(),
                                d.short()
                            ),
                        );
                        // do not explore the second vector further: one report per join is enough
                        continue;
                    }
                }
            }
            let mut succ: Vec<(usize, Depth)> = vec![];
            let x = ins[pc];
            let mut nd = d.clone();
            let mut underflow: Option<&str> = None;
            let mut fall = true;
            match x {
                Instruction::VarPathName(_) => nd.p.push(false),
                Instruction::VarPathIndex => match nd.p.last_mut() {
                    Some(last) => *last = true,
                    None => underflow = Some("var_path"),
                },
                Instruction::VarPathProperty(_) | Instruction::CopyVarPathToA => {
                    if nd.p.is_empty() {
                        underflow = Some("var_path");
                    }
                }
                Instruction::CopyAToVarPath | Instruction::PopVarPath => {
                    if nd.p.pop().is_none() {
                        underflow = Some("var_path");
                    }
                }
                Instruction::OnErrorGoTo(a) => nd.mode = 2 + addr(a).unwrap_or(0),
                Instruction::OnErrorResumeNext => nd.mode = 1,
                Instruction::OnErrorGoToZero => nd.mode = 0,
                Instruction::PushAToValueStack => nd.v += 1,
                Instruction::PopValueStackIntoA => {
                    nd.v -= 1;
                    if nd.v < 0 {
                        underflow = Some("value_stack");
                    }
                }
                Instruction::PushRegisters => nd.r += 1,
                Instruction::PopRegisters => {
                    nd.r -= 1;
                    if nd.r < 0 {
                        underflow = Some("register_stack");
                    }
                }
                Instruction::BeginCollectArguments => nd.s.push(true),
                Instruction::PushNamed(_) | Instruction::PushUnnamedByVal => {
                    if nd.s.last() != Some(&true) {
                        underflow = Some("argument-state");
                    }
                }
                Instruction::PushUnnamedByRef => {
                    if nd.p.pop().is_none() {
                        underflow = Some("var_path");
                    }
                    if nd.s.last() != Some(&true) {
                        underflow = Some("argument-state");
                    }
                }
                Instruction::PushStack | Instruction::PushStaticStack(_) => {
                    if nd.s.last() == Some(&true) {
                        *nd.s.last_mut().unwrap() = false;
                    } else {
                        underflow = Some("argument-state");
                    }
                }
                Instruction::PopStack => {
                    if nd.s.last() == Some(&false) {
                        nd.s.pop();
                    } else {
                        underflow = Some("context-state");
                    }
                }
                Instruction::AllocateArrayIntoA(_) => {
                    if nd.s.last() == Some(&true) {
                        nd.s.pop();
                    } else {
                        underflow = Some("argument-state");
                    }
                }
                Instruction::EnqueueToReturnStack(_) => nd.q += 1,
                Instruction::DequeueFromReturnStack => {
                    nd.q -= 1;
                    if nd.q < 0 {
                        underflow = Some("by_ref_queue");
                    }
                }
                Instruction::StashFunctionReturnValue(_) => nd.f = true,
                Instruction::UnStashFunctionReturnValue => {
                    if !nd.f {
                        underflow = Some("function-result");
                    }
                    nd.f = false;
                }
                Instruction::PushRet(_) => {}
                Instruction::PopRet => {
                    if pi == 0 && d.h.is_none() {
                        bad(&format!("C15|{}|return-in-main", tag), format!("PopRet at {} is reachable in the main module", pc));
                    }
                    check_exit(&d, p, pc, tag, "PopRet", &mut bad);
                    fall = false;
                }
                Instruction::Halt => {
                    if pi == 0 {
                        // END inside nested blocks legitimately leaves register frames behind;
                        // only the final Halt of the module is a balance point
                        // (a program may also legitimately end inside its error handler)
                        if pc == p.end - 1 && d.h.is_none() {
                            check_exit(&d, p, pc, tag, "Halt", &mut bad);
                        }
                    }
                    fall = false;
                }
                Instruction::Jump(a) => {
                    if let Some(t) = addr(a) {
                        let ret = match (pc.checked_sub(1).map(|k| ins[k]), is_proc_label(ins[t.min(n - 1)])) {
                            (Some(Instruction::PushRet(r)), Some(_)) => Some(*r),
                            _ => None,
                        };
                        match ret {
                            // call: continue at the return address with unchanged stacks
                            // (the callee is analysed on its own and must be balanced)
                            Some(r) => succ.push((r, nd.clone())),
                            None => succ.push((t, nd.clone())),
                        }
                    }
                    fall = false;
                }
                Instruction::JumpIfFalse(a) => {
                    if let Some(t) = addr(a) {
                        succ.push((t, nd.clone()));
                    }
                }
                Instruction::GoSub(a) => {
                    if let Some(t) = addr(a) {
                        let mut g = nd.clone();
                        if g.g.len() < GOSUB_BOUND {
                            g.g.push(pc);
                            succ.push((t, g));
                        }
                    }
                    fall = false;
                }
                Instruction::Return(opt) => {
                    let mut g = nd.clone();
                    if let Some(ret) = g.g.pop() {
                        match opt {
                            Some(a) => {
                                if let Some(t) = addr(a) {
                                    succ.push((t, g));
                                }
                            }
                            None => succ.push((ret + 1, g)),
                        }
                    }
                    // empty GOSUB stack: ReturnWithoutGoSub ends the program (or goes to a handler)
                    fall = false;
                }
                Instruction::Resume | Instruction::ResumeNext | Instruction::ResumeLabel(_) => {
                    if let Some(origin) = d.h {
                        // leave the handler: pop its state, continue per the RESUME flavour
                        let mut back = nd.clone();
                        back.h = None;
                        if back.s.last() == Some(&false) {
                            back.s.pop();
                        }
                        let target = match x {
                            Instruction::Resume => stmt_of(origin),
                            Instruction::ResumeNext => next_stmt(origin),
                            Instruction::ResumeLabel(a) => addr(a).unwrap_or(pc + 1),
                            _ => unreachable!(),
                        };
                        succ.push((target, back));
                    }
                    // without a pending error: ResumeWithoutError ends the program
                    fall = false;
                }
                Instruction::Throw(_) => {
                    fall = false;
                }
                _ => {}
            }
            if let Some(what) = underflow {
                bad(
                    &format!("C15|{}|underflow|{}|{}", tag, what, instr_name(x)),
                    format!("in {} instruction {} ({:?}) executes with [{}]", p.name, pc, x, d.short()),
                );
                continue;
            }
            if fall {
                succ.push((pc + 1, nd.clone()));
            }
            if with_error_edges && d.h.is_none() && d.mode != 0 && fallible(x, &d) {
                if block_header[pc] {
                    skipped_header_edges += 1;
                } else if d.mode == 1 {
                    // ON ERROR RESUME NEXT: what the statement had pushed is abandoned and the
                    // next statement runs
                    succ.push((next_stmt(pc), d.unwound()));
                } else {
                    // the failing instruction's own effect does not happen; what the statement had
                    // pushed is abandoned and the handler gets a state of its own
                    let mut e = d.unwound();
                    e.s.push(false);
                    e.h = Some(pc);
                    succ.push((d.mode - 2, e));
                }
            }
            for (t, s) in succ {
                total_transitions += 1;
                if seen.insert((t, s.clone())) {
                    queue.push_back((t, s));
                }
            }
        }
    }
    let _ = skipped_header_edges;
    Analysis {
        bads,
        states: total_states,
        transitions: total_transitions,
        reach,
        procs,
    }
}

fn check_exit(d: &Depth, p: &Proc, pc: usize, tag: &str, what: &str, bad: &mut impl FnMut(&str, String)) {
    let z = Depth::zero();
    if d.stacks() != z.stacks() {
        let kind = diff_kind(&z, d);
        bad(
            &format!("C15|{}|unbalanced-at-exit|{}|{}", tag, kind, what),
            format!("{} at instruction {} of {} is reached with [{}]", what, pc, p.name, d.short()),
        );
    }
}

fn diff_kind(a: &Depth, b: &Depth) -> String {
    let mut parts = vec![];
    if a.v != b.v {
        parts.push("value_stack");
    }
    if a.r != b.r {
        parts.push("register_stack");
    }
    if a.p != b.p {
        parts.push("var_path");
    }
    if a.q != b.q {
        parts.push("by_ref_queue");
    }
    if a.s != b.s {
        parts.push("context_states");
    }
    if a.f != b.f {
        parts.push("function_result");
    }
    parts.join("+")
}

fn instr_name(i: &Instruction) -> String {
    let s = format!("{:?}", i);
    s.split(|c: char| !c.is_alphanumeric()).next().unwrap_or("").to_string()
}

/// Dynamic conformance: every instruction the VM executes must happen in one of the
/// abstract states of its pc (depths relative to the entry of the current activation).
fn conform(a: &Analysis, trace: &[[usize; 12]], ins: &[String]) -> Option<String> {
    // stack of bases: one per activation; main's base is the VM's initial state
    let mut bases: Vec<[i64; 5]> = vec![[0, 1, 0, 0, 1]];
    let entries: HashSet<usize> = a.procs.iter().skip(1).map(|p| p.start).collect();
    for r in trace {
        let pc = r[0];
        let abs = [r[1] as i64, r[2] as i64, r[3] as i64, r[4] as i64, r[5] as i64];
        if entries.contains(&pc) {
            bases.push(abs);
        }
        let base = *bases.last().unwrap();
        let rel = (
            (abs[0] - base[0]) as i32,
            (abs[1] - base[1]) as i32,
            (abs[2] - base[2]) as i32,
            (abs[3] - base[3]) as i32,
        );
        let states_rel = abs[4] - base[4];
        match a.reach.get(&pc) {
            None => {
                return Some(format!(
                    "instruction {} ({}) was executed but is unreachable in the abstract graph",
                    pc,
                    ins.get(pc).cloned().unwrap_or_default()
                ));
            }
            Some(set) => {
                let ok = set
                    .iter()
                    .any(|(v, rr, p, q, s, _)| (*v, *rr, *p, *q) == rel && s.len() as i64 == states_rel);
                if !ok {
                    return Some(format!(
                        "at instruction {} ({}) the VM has relative depths value={} registers={} var_path={} by_ref={} states={} which is none of the abstract states {:?}",
                        pc,
                        ins.get(pc).cloned().unwrap_or_default(),
                        rel.0,
                        rel.1,
                        rel.2,
                        rel.3,
                        states_rel,
                        set
                    ));
                }
            }
        }
        if ins.get(pc).map(|s| s == "PopRet").unwrap_or(false) && bases.len() > 1 {
            bases.pop();
        }
        // RESUME label continues in the module-level code: the activations that were running when the
        // error occurred are abandoned without a PopRet
        if ins.get(pc).map(|s| s == "ResumeLabel").unwrap_or(false) {
            bases.truncate(1);
        }
    }
    None
}

pub fn worker(case: &Value) -> Value {
    let texts = case["texts"].as_array().cloned().unwrap_or_default();
    let mut bads = vec![];
    let mut n = 0u64;
    let mut nontrivial = 0u64;
    let mut states = 0u64;
    let mut transitions = 0u64;
    let mut conformed = 0u64;
    let mut hist: BTreeMap<String, u64> = BTreeMap::new();
    for t in &texts {
        let text = t.as_str().unwrap_or("");
        let (igr, types) = match front_end(text) {
            Ok(x) => x,
            Err(end) => {
                *hist.entry(match end {
                    End::ParseError { .. } => "rejected-by-parser".to_string(),
                    End::LintError { .. } => "rejected-by-linter".to_string(),
                    _ => "front-end-panic".to_string(),
                })
                .or_insert(0) += 1;
                continue;
            }
        };
        n += 1;
        *hist.entry("analysed".into()).or_insert(0) += 1;
        if igr.instructions.len() > 12 {
            nontrivial += 1;
        }
        let plain = analyse(&igr, false);
        states += plain.states;
        transitions += plain.transitions;
        let mut all: Vec<(String, String)> = plain.bads.clone();
        let uses_handlers = text.to_ascii_uppercase().contains("ON ERROR");
        let mut with_edges = None;
        if uses_handlers {
            let e = analyse(&igr, true);
            states += e.states;
            transitions += e.transitions;
            for b in &e.bads {
                if !all.iter().any(|(s, _)| s.replace("|E|", "|flow|") == b.0.replace("|E|", "|flow|")) {
                    all.push(b.clone());
                }
            }
            with_edges = Some(e);
        }
        // conformance run (programs without handlers: the abstract graph has no error edges)
        if !text.to_ascii_uppercase().contains("INKEY") {
            let opts = RunOpts {
                stdin: b"1\n2\n3\n".to_vec(),
                budget: 200_000,
                record_all_depths: true,
                trace_cap: 20_000,
                collect_files: true,
                ..RunOpts::default()
            };
            let names: Vec<String> = igr.instructions.iter().map(|p| instr_name(&p.element)).collect();
            let out = run_generated(igr, types, &opts);
            // a VM panic about one of its stacks (an underflow, an index into an emptied stack, no context state left) is
            // the failure this property is about; any other internal failure is left to C08
            if let End::Panic { file, msg, .. } = &out.end {
                let m = msg.to_ascii_lowercase();
                if file.contains("interpreter") && ["underflow", "stack", "pop", "empty", "index", "removal", "states", "registers"].iter().any(|w| m.contains(w)) && all.is_empty() {
                    all.push((format!("C15|conformance|vm-stack-panic|{}", vcore::outcome::strip_digits(&truncate_text(msg, 60))), format!("the VM panicked in {}: {}", file, truncate_text(msg, 200))));
                }
            }
            if let Some(m) = &out.mon
                && !matches!(out.end, End::Panic { .. })
            {
                conformed += 1;
                *hist.entry("conformance-run".into()).or_insert(0) += 1;
                if uses_handlers {
                    *hist.entry("conformance-run-with-handlers".into()).or_insert(0) += 1;
                }
                if let Some(msg) = conform(with_edges.as_ref().unwrap_or(&plain), &m.trace, &names)
                    && all.is_empty()
                {
                    all.push(("C15|conformance|vm-state-not-in-abstract-graph".to_string(), msg));
                }
            }
        }
        for (sig, msg) in all {
            if bads.len() < 30 {
                bads.push(json!({
                    "sig": sig,
                    "summary": format!("{} — program: {:?}", msg, truncate_text(text, 240)),
                    "text": text,
                    "case": {"texts": [text]},
                }));
            }
        }
    }
    json!({"n": n, "nontrivial": nontrivial, "bad": bads, "hist": hist, "states": states, "transitions": transitions, "conformed": conformed})
}

pub fn drive(tier: &str) -> i32 {
    let quick = tier == "quick";
    let mut run = Run::new("C15", tier);
    run.crash_is_violation = false;
    let mut pool = Pool::new("C15");
    pool.timeout_ms = 30_000;
    let h = harvest();
    let mut groups: Vec<(String, Vec<String>)> = vec![];
    groups.push((
        "harvested texts".into(),
        h.texts.iter().map(|(_, t)| t.clone()).collect(),
    ));
    groups.push((
        "block skeletons".into(),
        vcore::slots::block_skeletons(if quick { 1 } else { 2 })
            .into_iter()
            .map(|b| format!("X = 0\n{}PRINT \"end\"\n", b))
            .collect(),
    ));
    groups.push((
        "block skeletons inside SUB and FUNCTION bodies".into(),
        vcore::slots::block_skeletons(if quick { 0 } else { 1 })
            .into_iter()
            .map(|b| format!("P 1\nPRINT F(2)\nSUB P (X)\n{}END SUB\nFUNCTION F (X)\n{}F = X\nEND FUNCTION\n", b, b))
            .collect(),
    ));
    groups.push((
        "several block statements on one source line (sequential and nested)".into(),
        vcore::slots::one_line_programs(),
    ));
    {
        // the same block programs with statements beyond column 255 (and 65 535): every other line indented by 256
        // blanks, and the blank after every statement colon widened to 300 blanks
        let mut far = vec![];
        let mut base: Vec<String> = vcore::slots::block_skeletons(1).into_iter().map(|b| format!("X = 0\n{}PRINT \"end\"\n", b)).collect();
        base.extend(vcore::slots::one_line_programs());
        for t in &base {
            for parity in 0..2 {
                let shifted: String = t.split_inclusive('\n').enumerate().map(|(i, l)| if i % 2 == parity && !l.trim().is_empty() { format!("{}{}", " ".repeat(256), l) } else { l.to_string() }).collect();
                far.push(shifted);
            }
            if t.contains(": ") {
                far.push(t.replace(": ", &format!(":{}", " ".repeat(300))));
            }
            if !quick {
                let shifted: String = t.split_inclusive('\n').enumerate().map(|(i, l)| if i % 2 == 1 && !l.trim().is_empty() { format!("{}{}", " ".repeat(65536), l) } else { l.to_string() }).collect();
                far.push(shifted);
            }
        }
        groups.push(("block programs with statements beyond column 255 (every other line indented by 256 blanks, 300 blanks after statement colons)".into(), far));
    }
    {
        // two blocks of the same kind whose positions coincide under a lossy encoding of (row, column): the digits written
        // one after the other, the sum, the product, row and column swapped (thorough: every pair of the lattice)
        let rows: [u32; 9] = [1, 2, 11, 12, 21, 101, 111, 112, 121];
        let cols: [u32; 9] = [1, 2, 3, 11, 12, 13, 21, 23, 111];
        let block = |kind: usize, v: &str| -> Vec<String> {
            match kind {
                0 => vec![format!("FOR {} = 1 TO 2", v), "T% = T% + 1".into(), "NEXT".into()],
                1 => vec![format!("WHILE {} < 2", v), format!("{} = {} + 1", v, v), "WEND".into()],
                2 => vec!["DO".into(), format!("{} = {} + 1", v, v), format!("LOOP UNTIL {} >= 2", v)],
                3 => vec![format!("IF {} = 0 THEN", v), "T% = T% + 1".into(), "ELSE".into(), "T% = T% + 100".into(), "END IF".into()],
                _ => vec![format!("SELECT CASE {}", v), "CASE 0".into(), "T% = T% + 1".into(), "CASE ELSE".into(), "T% = T% + 100".into(), "END SELECT".into()],
            }
        };
        let mut texts = vec![];
        for &r1 in &rows {
            for &c1 in &cols {
                for &r2 in &rows {
                    for &c2 in &cols {
                        if r2 < r1 + 7 {
                            continue;
                        }
                        let alias = format!("{}{}", r1, c1) == format!("{}{}", r2, c2) || r1 + c1 == r2 + c2 || r1 * c1 == r2 * c2 || (r1 == c2 && c1 == r2) || (r1 ^ c1) == (r2 ^ c2) || (r1 % 10 == r2 % 10 && c1 == c2) || (r1 == r2 % 100 && c1 == c2);
                        if quick && !alias {
                            continue;
                        }
                        for kind in 0..5 {
                            let mut lines: Vec<String> = vec![];
                            while (lines.len() as u32) < r1 - 1 {
                                lines.push("'".into());
                            }
                            let mut b1 = block(kind, "A%");
                            b1[0] = format!("{}{}", " ".repeat(c1 as usize - 1), b1[0]);
                            lines.extend(b1);
                            while (lines.len() as u32) < r2 - 1 {
                                lines.push("'".into());
                            }
                            let mut b2 = block(kind, "B%");
                            b2[0] = format!("{}{}", " ".repeat(c2 as usize - 1), b2[0]);
                            lines.extend(b2);
                            lines.push("PRINT T%; A%; B%".into());
                            texts.push(lines.join("\n") + "\n");
                        }
                    }
                }
            }
        }
        groups.push(("two blocks of the same kind (FOR, WHILE, DO, IF, SELECT CASE) at positions that coincide under a lossy encoding of row and column (digits concatenated, sum, product, swapped, xor, low digits)".into(), texts));
    }
    groups.push((
        "statement soups".into(),
        vcore::slots::statement_soups(if quick { 2 } else { 3 }, 30),
    ));
    groups.push((
        "statement templates x operand menu".into(),
        vcore::slots::instantiate(if quick { 1 } else { 2 })
            .into_iter()
            .map(|(_, s)| vcore::slots::program(&s))
            .collect(),
    ));
    groups.push((
        "statement templates inside 8 containers (SUB / FUNCTION / STATIC SUB bodies, single-line IF, IF in FOR, CASE, ELSE in WHILE, SUB with shared declarations)".into(),
        vcore::slots::instantiate_in_containers(if quick { &[] } else { &[0] }),
    ));
    groups.extend(super::genpool::generated_groups(quick));
    let mut seen: HashSet<u64> = HashSet::new();
    let mut reports = vec![];
    let mut samples = vec![];
    let mut states = 0u64;
    let mut transitions = 0u64;
    let mut conformed = 0u64;
    for (name, texts) in groups {
        let unique: Vec<String> = texts.into_iter().filter(|t| seen.insert(vcore::fnv1a(t))).collect();
        if let Some(first) = unique.first() {
            samples.push(json!({"group": name, "first": truncate_text(first, 160), "last": truncate_text(unique.last().unwrap(), 160)}));
        }
        // run_text_group folds the conventional fields; the C15-specific counters come through `extra`
        let before = (states, transitions, conformed);
        let _ = before;
        let report = {
            let total = unique.len();
            let make = |c: &[String]| json!({"texts": c});
            let cases: Vec<Value> = unique.chunks(20).map(make).collect();
            run.run_pool(&pool, cases.into_iter(), |_, _, _, v| {
                states += v["states"].as_u64().unwrap_or(0);
                transitions += v["transitions"].as_u64().unwrap_or(0);
                conformed += v["conformed"].as_u64().unwrap_or(0);
            });
            json!({"group": name, "generated": total})
        };
        reports.push(report);
        let _ = run_text_group;
    }
    if run.hist.get("analysed").copied().unwrap_or(0) == 0 {
        run.machinery.push("non-vacuity: no accepted program was analysed".into());
    }
    let mut ev = Evidence::new("model_checking");
    ev.set("rule", "for every accepted program of the groups: static well-formedness of the instruction list (targets resolved and inside the list, labels defined once, branches inside their procedure, Halt / PopRet at the ends, ascending statement addresses); breadth-first reachability over abstract states (pc, value/register/var-path/by-ref depths, context-state kinds, pending function result, GOSUB stack bounded to 3) per procedure, calls summarised as balanced, checking no underflow, a unique depth vector at every pc and zero depths at every procedure exit; for programs with ON ERROR the same with an error edge from every fallible instruction into every handler and into the next statement (C15-E); conformance: programs without handlers are executed on the real VM and every statement-start depth record must be one of the abstract states of its pc. Non-trivial = more than 12 instructions.");
    ev.set("exhaustive", !run.capped);
    ev.set("states", states);
    ev.set("transitions", transitions);
    ev.set("traces_validated_against_impl", conformed);
    ev.set("programs_analysed", run.hist.get("analysed").copied().unwrap_or(0));
    ev.set("groups", json!(reports));
    ev.set("samples", json!(samples));
    ev.set("distinct_nontrivial", run.nontrivial);
    ev.assume("stack effects of the instructions are those of DESIGN.md appendix A.1 (read from the VM's handlers)");
    ev.assume("a called procedure is summarised as balanced; each procedure is analysed separately from its entry");
    ev.assume("END inside nested blocks is allowed to leave register frames behind (the program stops)");
    run.finish(ev)
}
