//! C19 — bit-level primitives agree with two's complement and IEEE-754.
//!
//! Function level: qb_and / qb_or on all 65536 x lattice pairs, i32_to_bytes /
//! bytes_to_i32 on all values and all byte pairs, f64_to_bytes / bytes_to_f64 on
//! every biased exponent 0..=2046 x mantissa lattice x sign.
//! Program level: AND / OR / NOT through PRINT, PEEK / POKE of an INTEGER
//! variable, MKD$ / CVD byte by byte.
//! Oracle: the machine operations on i16 / f64.

use std::collections::BTreeSet;

use serde_json::{Value, json};
use vcore::{End, Evidence};

use super::Run;
use crate::bind::{RunOpts, run_pipeline};
use crate::pool::Pool;

pub fn lattice16() -> Vec<i32> {
    let mut s: BTreeSet<i16> = BTreeSet::new();
    for v in [
        0i32, -1, 1, 2, 3, 127, 128, 255, 256, 257, -256, -255, -128, -2, 32767, 32766, -32768,
        -32767, 0x5555, 0x3333, 0x0F0F, 0x00FF, 0x0FF0, 0x1234, 0x7FFE,
    ] {
        s.insert(v as i16);
        s.insert(!(v as i16));
    }
    for k in 0..16 {
        let one_hot = (1u16 << k) as i16;
        s.insert(one_hot);
        s.insert(!one_hot);
    }
    s.into_iter().map(|x| x as i32).collect()
}

/// 52-bit mantissa patterns.
pub fn mantissas() -> Vec<u64> {
    let full: u64 = (1u64 << 52) - 1;
    let mut s: BTreeSet<u64> = BTreeSet::new();
    for m in [
        0u64,
        1,
        2,
        3,
        full,
        full - 1,
        0x5555555555555 & full,
        0xAAAAAAAAAAAAA & full,
        0x8000000000000,
        0x8000000000001,
        0x7FFFFFFFFFFFF,
        0xFFFFFFFF00000 & full,
        0x00000FFFFFFFF,
        0x123456789ABCD & full,
        0xFEDCBA9876543 & full,
        0x0000000000100,
        0x999999999999A & full,
    ] {
        s.insert(m);
    }
    for k in [0, 1, 7, 8, 15, 16, 23, 24, 28, 29, 31, 32, 33, 40, 47, 48, 50, 51] {
        s.insert(1u64 << k);
        s.insert(full & !(1u64 << k));
    }
    s.into_iter().collect()
}

fn bad(sig: &str, summary: String, detail: Value) -> Value {
    json!({"sig": format!("C19|{}", sig), "summary": summary, "detail": detail})
}

fn fmt_num(v: i64) -> String {
    if v < 0 {
        format!("{} ", v)
    } else {
        format!(" {} ", v)
    }
}

pub fn worker(case: &Value) -> Value {
    let kind = case["k"].as_str().unwrap_or("");
    let mut bads: Vec<Value> = vec![];
    let mut n: u64 = 0;
    let mut nontrivial: u64 = 0;
    match kind {
        "andor" => {
            let a0 = case["a0"].as_i64().unwrap() as i32;
            let a1 = case["a1"].as_i64().unwrap() as i32;
            let lat = lattice16();
            for a in a0..a1 {
                for &b in &lat {
                    let want_and = ((a as i16) & (b as i16)) as i32;
                    let want_or = ((a as i16) | (b as i16)) as i32;
                    let got_and = rusty_variant::qb_and(a, b);
                    let got_or = rusty_variant::qb_or(a, b);
                    n += 2;
                    if want_and != 0 && want_and != a && want_and != b {
                        nontrivial += 1;
                    }
                    if want_or != -1 && want_or != a && want_or != b {
                        nontrivial += 1;
                    }
                    if got_and != want_and && bads.len() < 5 {
                        bads.push(bad(
                            "qb_and",
                            format!("qb_and({}, {}) = {} but 16-bit AND is {}", a, b, got_and, want_and),
                            json!({"a": a, "b": b}),
                        ));
                    }
                    if got_or != want_or && bads.len() < 5 {
                        bads.push(bad(
                            "qb_or",
                            format!("qb_or({}, {}) = {} but 16-bit OR is {}", a, b, got_or, want_or),
                            json!({"a": a, "b": b}),
                        ));
                    }
                }
            }
        }
        "bytes" => {
            let a0 = case["a0"].as_i64().unwrap() as i32;
            let a1 = case["a1"].as_i64().unwrap() as i32;
            for a in a0..a1 {
                let want = (a as i16).to_le_bytes();
                let got = rusty_variant::i32_to_bytes(a);
                n += 2;
                if a != 0 && a != -1 {
                    nontrivial += 2;
                }
                if got != want && bads.len() < 5 {
                    bads.push(bad(
                        "i32_to_bytes",
                        format!("i32_to_bytes({}) = {:?}, two's complement low byte first is {:?}", a, got, want),
                        json!({"a": a}),
                    ));
                }
                let back = rusty_variant::bytes_to_i32(want);
                if back != a && bads.len() < 5 {
                    bads.push(bad(
                        "bytes_to_i32",
                        format!("bytes_to_i32({:?}) = {} but the word is {}", want, back, a),
                        json!({"a": a}),
                    ));
                }
                let round = rusty_variant::bytes_to_i32(got);
                if round != a && bads.len() < 5 {
                    bads.push(bad(
                        "bytes_roundtrip",
                        format!("bytes_to_i32(i32_to_bytes({})) = {}", a, round),
                        json!({"a": a}),
                    ));
                }
            }
        }
        "f64" => {
            let e0 = case["e0"].as_u64().unwrap();
            let e1 = case["e1"].as_u64().unwrap();
            for e in e0..e1 {
                for &m in &mantissas() {
                    for sign in [0u64, 1] {
                        if e == 0 && m == 0 && sign == 1 {
                            // negative zero: equal to zero as a value, the property speaks of values
                            continue;
                        }
                        let bits = (sign << 63) | (e << 52) | m;
                        let x = f64::from_bits(bits);
                        debug_assert!(x.is_finite());
                        n += 2;
                        if m != 0 {
                            nontrivial += 2;
                        }
                        let want = x.to_le_bytes();
                        let got = std::panic::catch_unwind(|| rusty_variant::f64_to_bytes(x));
                        match got {
                            Ok(got) => {
                                if got != want && bads.len() < 5 {
                                    let class = classify(e, x);
                                    bads.push(bad(
                                        &format!("f64_to_bytes|{}", class),
                                        format!(
                                            "f64_to_bytes({:e}) [bits {:016x}] = {:02x?}, IEEE-754 little endian is {:02x?}",
                                            x, bits, got, want
                                        ),
                                        json!({"bits": format!("{:016x}", bits)}),
                                    ));
                                }
                            }
                            Err(_) => {
                                let (file, msg) = crate::bind::take_panic();
                                if bads.len() < 5 {
                                    bads.push(bad(
                                        &format!("f64_to_bytes|panic|{}", classify(e, x)),
                                        format!("f64_to_bytes({:e}) panicked at {}: {}", x, file, msg),
                                        json!({"bits": format!("{:016x}", bits)}),
                                    ));
                                }
                            }
                        }
                        let back = std::panic::catch_unwind(|| rusty_variant::bytes_to_f64(&want));
                        match back {
                            Ok(back) => {
                                if back.to_bits() != x.to_bits() && bads.len() < 5 {
                                    bads.push(bad(
                                        &format!("bytes_to_f64|{}", classify(e, x)),
                                        format!(
                                            "bytes_to_f64({:02x?}) = {:e} but the encoded value is {:e}",
                                            want, back, x
                                        ),
                                        json!({"bits": format!("{:016x}", bits)}),
                                    ));
                                }
                            }
                            Err(_) => {
                                let (file, msg) = crate::bind::take_panic();
                                if bads.len() < 5 {
                                    bads.push(bad(
                                        &format!("bytes_to_f64|panic|{}", classify(e, x)),
                                        format!("bytes_to_f64 of {:e} panicked at {}: {}", x, file, msg),
                                        json!({"bits": format!("{:016x}", bits)}),
                                    ));
                                }
                            }
                        }
                    }
                }
            }
        }
        "prog" => {
            // a batched BASIC program with its expected stdout
            let text = case["text"].as_str().unwrap();
            let expect = case["expect"].as_str().unwrap();
            let what = case["what"].as_str().unwrap_or("program");
            let mut opts = RunOpts::default();
            let want_file = case.get("file").and_then(|f| f.as_array()).cloned();
            opts.collect_files = want_file.is_some();
            let out = run_pipeline(text, &opts);
            n = case["n"].as_u64().unwrap_or(1);
            if let Some(f) = &want_file {
                let name = f[0].as_str().unwrap();
                let want = f[1].as_str().unwrap();
                let got_file = out.files.get(name).cloned().unwrap_or_default();
                if out.end == End::Normal && got_file != want {
                    let gb = vcore::unlatin1(&got_file);
                    let wb = vcore::unlatin1(want);
                    let mut first = String::new();
                    for k in 0..(wb.len() / 8) {
                        if gb.get(k * 8..k * 8 + 8) != Some(&wb[k * 8..k * 8 + 8]) {
                            let label = case["labels"][k].as_str().unwrap_or("");
                            first = format!(
                                "record {} [{}]: file holds {:02x?}, IEEE-754 little endian is {:02x?}",
                                k + 1,
                                label,
                                gb.get(k * 8..k * 8 + 8),
                                &wb[k * 8..k * 8 + 8]
                            );
                            break;
                        }
                    }
                    bads.push(bad(
                        &format!("{}|file-bytes", what),
                        format!("{}: {}", what, first),
                        json!({"text": text}),
                    ));
                }
            }
            nontrivial = n;
            let got = out.stdout_str();
            if out.end != End::Normal || got != expect {
                // find the first differing line for the summary
                let gl: Vec<&str> = got.split("\r\n").collect();
                let el: Vec<&str> = expect.split("\r\n").collect();
                let mut first = String::new();
                for i in 0..el.len().max(gl.len()) {
                    if gl.get(i) != el.get(i) {
                        let labels = case["labels"].as_array();
                        let label = labels
                            .and_then(|l| l.get(i))
                            .and_then(|v| v.as_str())
                            .unwrap_or("");
                        first = format!(
                            "line {} [{}]: expected {:?}, got {:?}",
                            i + 1,
                            label,
                            el.get(i),
                            gl.get(i)
                        );
                        break;
                    }
                }
                bads.push(bad(
                    &format!("{}|{}", what, if out.end == End::Normal { "output".to_string() } else { out.end.class() }),
                    format!("{}: end={:?}; {}", what, out.end, first),
                    json!({"text": text, "expected": expect, "actual": got}),
                ));
            }
        }
        _ => return json!({"machinery": format!("unknown C19 case kind {}", kind)}),
    }
    json!({"n": n, "nontrivial": nontrivial, "bad": bads})
}

fn classify(e: u64, x: f64) -> &'static str {
    if e == 0 {
        "subnormal"
    } else if x.abs() >= 9223372036854775808.0 {
        "magnitude>=2^63"
    } else if x.abs() < 1.0 {
        "normal<1"
    } else {
        "normal"
    }
}

fn prog_cases(tier: &str) -> Vec<Value> {
    let mut cases = vec![];
    let lat = lattice16();
    // AND / OR through PRINT, on the lattice squared, 400 statements per program
    let mut lines: Vec<String> = vec![];
    let mut expect: Vec<String> = vec![];
    let mut labels: Vec<String> = vec![];
    let flush = |what: &str,
                     lines: &mut Vec<String>,
                     expect: &mut Vec<String>,
                     labels: &mut Vec<String>,
                     cases: &mut Vec<Value>| {
        if lines.is_empty() {
            return;
        }
        let text = lines.join("\n") + "\n";
        let exp = expect.join("\r\n") + "\r\n";
        cases.push(json!({"k": "prog", "what": what, "text": text, "expect": exp, "labels": labels, "n": lines.len()}));
        lines.clear();
        expect.clear();
        labels.clear();
    };
    let lit = |v: i32| -> String {
        // -32768 cannot be written as an INTEGER literal; (-32767 - 1) is one
        if v == -32768 {
            "(-32767 - 1)".to_string()
        } else if v < 0 {
            format!("({})", v)
        } else {
            v.to_string()
        }
    };
    let step = if tier == "quick" { 3 } else { 1 };
    for (i, &a) in lat.iter().enumerate() {
        for (j, &b) in lat.iter().enumerate() {
            if (i + j) % step != 0 {
                continue;
            }
            lines.push(format!("PRINT {} AND {}; {} OR {}", lit(a), lit(b), lit(a), lit(b)));
            let and = ((a as i16) & (b as i16)) as i64;
            let or = ((a as i16) | (b as i16)) as i64;
            expect.push(format!("{}{}", fmt_num(and), fmt_num(or)));
            labels.push(format!("{} AND/OR {}", a, b));
            if lines.len() >= 400 {
                flush("print-and-or", &mut lines, &mut expect, &mut labels, &mut cases);
            }
        }
    }
    flush("print-and-or", &mut lines, &mut expect, &mut labels, &mut cases);
    // NOT on all 65536 values (thorough) or the lattice (quick), via a variable
    let not_values: Vec<i32> = if tier == "quick" {
        lat.clone()
    } else {
        (-32768..=32767).collect()
    };
    for &a in &not_values {
        lines.push(format!("A% = {}: PRINT NOT A%; NOT {}", lit(a), lit(a)));
        let r = !(a as i16) as i64;
        expect.push(format!("{}{}", fmt_num(r), fmt_num(r)));
        labels.push(format!("NOT {}", a));
        if lines.len() >= 400 {
            flush("print-not", &mut lines, &mut expect, &mut labels, &mut cases);
        }
    }
    flush("print-not", &mut lines, &mut expect, &mut labels, &mut cases);
    // PEEK / POKE of both bytes of an INTEGER variable
    let pokes: Vec<i32> = if tier == "quick" {
        vec![0, 1, 127, 128, 255]
    } else {
        (0..256).collect()
    };
    for &a in &lat {
        lines.push(format!(
            "A% = {}: PRINT PEEK(VARPTR(A%)); PEEK(VARPTR(A%) + 1)",
            lit(a)
        ));
        let b = (a as i16).to_le_bytes();
        expect.push(format!("{}{}", fmt_num(b[0] as i64), fmt_num(b[1] as i64)));
        labels.push(format!("PEEK both bytes of {}", a));
        for &p in &pokes {
            // poke the low byte, read the word; restore; poke the high byte, read the word
            lines.push(format!(
                "A% = {a}: POKE VARPTR(A%), {p}: PRINT A%;: A% = {a}: POKE VARPTR(A%) + 1, {p}: PRINT A%",
                a = lit(a),
                p = p
            ));
            let lo = i16::from_le_bytes([p as u8, b[1]]) as i64;
            let hi = i16::from_le_bytes([b[0], p as u8]) as i64;
            expect.push(format!("{}{}", fmt_num(lo), fmt_num(hi)));
            labels.push(format!("POKE {} into low / high byte of {}", p, a));
            if lines.len() >= 300 {
                flush("peek-poke", &mut lines, &mut expect, &mut labels, &mut cases);
            }
        }
    }
    flush("peek-poke", &mut lines, &mut expect, &mut labels, &mut cases);
    // the value POKEd is the variable itself (or depends on it): the byte written stays written
    {
        let mut l: Vec<String> = vec![];
        let mut e: Vec<String> = vec![];
        for &a in &[3i32, 200, 18, 1] {
            l.push(format!("W% = {a}: POKE VARPTR(W%) + 1, W%: PRINT W%", a = a));
            e.push(fmt_num(i16::from_le_bytes([a as u8, a as u8]) as i64));
            l.push(format!("W% = {a}: POKE VARPTR(W%), W% + 1: PRINT W%", a = a));
            e.push(fmt_num(i16::from_le_bytes([(a + 1) as u8, 0]) as i64));
            l.push(format!("W% = {a}: V% = 4: POKE VARPTR(V%) + W% - W%, W%: PRINT V%; W%", a = a));
            e.push(format!("{}{}", fmt_num(a as i64), fmt_num(a as i64)));
        }
        cases.push(json!({"k": "prog", "what": "peek-poke-neighbours", "text": l.join("\n") + "\n", "expect": e.join("\r\n") + "\r\n", "labels": ["POKE with the variable itself as the value"], "n": l.len()}));
    }
    // two INTEGER variables side by side behind a string: after the string has grown or shrunk by 1 .. 4 bytes one of
    // them stands where the other one stood when it was last read; each PEEK must still read the variable it names
    for &a in &[4660, -2, 255, 256] {
        let other: i32 = (a as i16 ^ 0x5555) as i32;
        let pk = |v: i32| {
            let b = (v as i16).to_le_bytes();
            format!("{}{}", fmt_num(b[0] as i64), fmt_num(b[1] as i64))
        };
        for in_sub in [false, true] {
            for k in 1..=4usize {
                let mut l: Vec<String> = vec![];
                let mut e: Vec<String> = vec![];
                if in_sub {
                    for o in ["DECLARE SUB Work ()", "Work", "END", "SUB Work"] {
                        l.push(o.to_string());
                    }
                }
                l.push("T$ = \"abcd\"".to_string());
                l.push(format!("WA% = {}: WB% = {}: WC% = 7", lit(a), lit(other)));
                let both = "PRINT PEEK(VARPTR(WB%)); PEEK(VARPTR(WB%) + 1); PEEK(VARPTR(WA%)); PEEK(VARPTR(WA%) + 1)";
                l.push(both.to_string());
                e.push(format!("{}{}", pk(other), pk(a)));
                for step in [format!("T$ = T$ + \"{}\"", "z".repeat(k)), "T$ = \"ab\"".to_string(), format!("T$ = \"{}\"", "y".repeat(2 + k)), "T$ = \"\"".to_string()] {
                    l.push(step);
                    l.push("PRINT PEEK(VARPTR(WA%)); PEEK(VARPTR(WA%) + 1); PEEK(VARPTR(WB%)); PEEK(VARPTR(WB%) + 1); PEEK(VARPTR(WC%))".to_string());
                    e.push(format!("{}{}{}", pk(a), pk(other), fmt_num(7)));
                }
                // a copy byte by byte after another change of size
                l.push("T$ = \"abcdef\"".to_string());
                l.push("POKE VARPTR(WC%), PEEK(VARPTR(WA%)): POKE VARPTR(WC%) + 1, PEEK(VARPTR(WA%) + 1): PRINT WC%; WA%; WB%".to_string());
                e.push(format!("{}{}{}", fmt_num(a as i64), fmt_num(a as i64), fmt_num(other as i64)));
                if in_sub {
                    l.push("END SUB".to_string());
                }
                cases.push(json!({"k": "prog", "what": "peek-poke-neighbours", "text": l.join("\n") + "\n", "expect": e.join("\r\n") + "\r\n", "labels": [format!("two variables, value {} grown by {}{}", a, k, if in_sub { " in a SUB" } else { "" })], "n": l.len()}));
            }
        }
    }
    // PEEK / POKE of an INTEGER variable whose neighbours change size between the accesses: a string that grows
    // and shrinks, a dynamic array that is REDIMmed, at module level and inside a SUB (the address of the variable
    // may move, the two bytes read and written through VARPTR must still be the variable's)
    for &a in &[4660, -2, -32768, 255, 256, 1] {
        let b = (a as i16).to_le_bytes();
        let peek = format!("{}{}", fmt_num(b[0] as i64), fmt_num(b[1] as i64));
        for layout in 0..6 {
            let mut l: Vec<String> = vec![];
            let mut e: Vec<String> = vec![];
            let (open, close): (Vec<&str>, Vec<&str>) = match layout {
                0 | 1 | 2 => (vec![], vec![]),
                _ => (vec!["DECLARE SUB Work ()", "G$ = \"xy\"", "Work", "END", "SUB Work"], vec!["END SUB"]),
            };
            for o in &open {
                l.push(o.to_string());
            }
            // the neighbour and its three sizes
            let (n0, n1, n2): (&str, &str, &str) = match layout % 3 {
                0 => ("T$ = \"ab\"", "T$ = T$ + \"cdefgh\"", "T$ = \"\""),
                1 => ("REDIM D%(2)", "REDIM D%(9)", "REDIM D%(0)"),
                _ => ("T$ = \"ab\": REDIM D&(1)", "REDIM D&(5): T$ = \"a\"", "T$ = STRING$(40, \"z\")"),
            };
            l.push(n0.to_string());
            l.push(format!("W% = {}", lit(a)));
            l.push("Z$ = \"tail\"".to_string());
            for n in [None, Some(n1), Some(n2)] {
                if let Some(n) = n {
                    l.push(n.to_string());
                }
                l.push("PRINT PEEK(VARPTR(W%)); PEEK(VARPTR(W%) + 1)".to_string());
                e.push(peek.clone());
            }
            l.push("POKE VARPTR(W%), 254: POKE VARPTR(W%) + 1, 255: PRINT W%; Z$".to_string());
            e.push(format!("{}tail", fmt_num(-2)));
            l.push(n1.to_string());
            l.push(format!("POKE VARPTR(W%), {}: POKE VARPTR(W%) + 1, {}: PRINT W%; Z$", b[0], b[1]));
            e.push(format!("{}tail", fmt_num(a as i64)));
            for c in &close {
                l.push(c.to_string());
            }
            cases.push(json!({"k": "prog", "what": "peek-poke-neighbours", "text": l.join("\n") + "\n", "expect": e.join("\r\n") + "\r\n", "labels": [format!("value {} layout {}", a, layout)], "n": l.len()}));
        }
    }
    // PEEK / POKE of an INTEGER variable of a STATIC subprogram on its first four activations, while the module's
    // variables change size between the calls (a string grows and shrinks, a dynamic array is REDIMmed) and the first
    // call comes from the module or from inside another SUB that has returned since: the two bytes are the variable's
    // on every activation, and a POKE changes that variable and no neighbour
    for &a in &[4660, -2, 255] {
        for first_from_sub in [false, true] {
            for change in 0..4 {
                let mut l: Vec<String> = vec!["DECLARE SUB Keeper ()".into(), "DECLARE SUB Outer ()".into(), "T$ = \"ab\"".into(), "REDIM D%(2)".into(), "M% = 1".into()];
                let (c1, c2): (&str, &str) = match change {
                    0 => ("T$ = T$ + \"cdefgh\"", "T$ = \"\""),
                    1 => ("REDIM D%(9)", "REDIM D%(0)"),
                    2 => ("T$ = \"a\": REDIM D%(5)", "T$ = STRING$(40, \"z\")"),
                    _ => ("M% = 2", "M% = 3"),
                };
                l.push(if first_from_sub { "Outer".into() } else { "Keeper".into() });
                l.push(c1.into());
                l.push("Keeper".into());
                l.push(c2.into());
                l.push("Keeper".into());
                l.push("Keeper".into());
                l.push("PRINT M%; LEN(T$); UBOUND(D%)".into());
                l.push("END".into());
                l.extend(["SUB Outer".to_string(), "L$ = \"local\"".into(), "K% = 9".into(), "Keeper".into(), "END SUB".into()]);
                l.extend(["SUB Keeper STATIC".to_string(), "N% = N% + 1".into(), "IF N% = 1 THEN".into(), format!("W% = {}", lit(a)), "Z% = 77".into(), "Y$ = \"static\"".into(), "END IF".into()]);
                l.push("PRINT N%; PEEK(VARPTR(W%)); PEEK(VARPTR(W%) + 1)".into());
                l.push("POKE VARPTR(W%), N%".into());
                l.push("PRINT W%; Z%; Y$".into());
                l.push("END SUB".into());
                let mut e: Vec<String> = vec![];
                let mut w = a as i16;
                for n in 1..=4i64 {
                    let b = w.to_le_bytes();
                    e.push(format!("{}{}{}", fmt_num(n), fmt_num(b[0] as i64), fmt_num(b[1] as i64)));
                    w = i16::from_le_bytes([n as u8, b[1]]);
                    e.push(format!("{}{}static", fmt_num(w as i64), fmt_num(77)));
                }
                let (m, tl, ub) = match change { 0 => (1, 0, 2), 1 => (1, 2, 0), 2 => (1, 40, 5), _ => (3, 2, 2) };
                e.push(format!("{}{}{}", fmt_num(m), fmt_num(tl), fmt_num(ub)));
                cases.push(json!({"k": "prog", "what": "peek-poke-static", "text": l.join("\n") + "\n", "expect": e.join("\r\n") + "\r\n", "labels": [format!("value {} first call from {} change {}", a, if first_from_sub { "a SUB" } else { "the module" }, change)], "n": l.len()}));
            }
        }
    }
    // AND / OR / NOT standing directly as a condition: true is whatever is not zero, and the operation is the bitwise one
    // (two non-zero words without a common bit are false under AND); every operand is evaluated
    {
        let hots: Vec<i32> = (0..16).map(|i| ((1u16 << i) as i16) as i32).collect();
        let mut pairs: Vec<(i32, i32)> = vec![];
        for &a in &hots {
            for &b in &hots {
                pairs.push((a, b));
            }
        }
        for (i, &a) in lat.iter().enumerate() {
            for (j, &b) in lat.iter().enumerate() {
                if (i + 2 * j) % (if tier == "quick" { 7 } else { 1 }) == 0 {
                    pairs.push((a, b));
                }
            }
        }
        let tf = |v: i64| if v != 0 { "T" } else { "F" };
        let mut count = 0;
        let mut head = |lines: &mut Vec<String>| {
            lines.push("DECLARE FUNCTION Side% (V%)".into());
            lines.push("DIM SHARED Calls%".into());
        };
        let tail = ["FUNCTION Side% (V%)", "Calls% = Calls% + 1", "Side% = V%", "END FUNCTION"];
        head(&mut lines);
        for (a, b) in pairs {
            let and = ((a as i16) & (b as i16)) as i64;
            let or = ((a as i16) | (b as i16)) as i64;
            let not = !(a as i16) as i64;
            lines.push(format!("A% = {}: B% = {}: Calls% = 0", lit(a), lit(b)));
            lines.push("IF A% AND B% THEN PRINT \"T\"; ELSE PRINT \"F\";".into());
            lines.push("IF A% OR B% THEN PRINT \"T\"; ELSE PRINT \"F\";".into());
            lines.push("IF NOT A% THEN PRINT \"T\"; ELSE PRINT \"F\";".into());
            lines.push("IF 0 THEN".into());
            lines.push("ELSEIF A% AND B% THEN".into());
            lines.push("PRINT \"T\";".into());
            lines.push("ELSE".into());
            lines.push("PRINT \"F\";".into());
            lines.push("END IF".into());
            lines.push("N% = 0: C% = B%".into());
            lines.push("WHILE A% AND C%".into());
            lines.push("N% = N% + 1: C% = 0".into());
            lines.push("WEND".into());
            lines.push("DO UNTIL A% OR C%".into());
            lines.push("N% = N% + 10: C% = 1".into());
            lines.push("LOOP".into());
            lines.push("IF Side%(A%) AND Side%(B%) THEN PRINT \"T\"; ELSE PRINT \"F\";".into());
            lines.push("IF Side%(A%) OR Side%(B%) THEN PRINT \"T\"; ELSE PRINT \"F\";".into());
            lines.push("PRINT N%; Calls%".into());
            // WHILE runs once if a AND b is not zero (then C% = 0); DO UNTIL a OR c runs once if a OR c is zero
            let c_after = if and != 0 { 0 } else { b };
            let n = (if and != 0 { 1 } else { 0 }) + (if ((a as i16) | (c_after as i16)) == 0 { 10 } else { 0 });
            expect.push(format!("{}{}{}{}{}{}{}{}", tf(and), tf(or), tf(not), tf(and), tf(and), tf(or), fmt_num(n), fmt_num(4)));
            labels.push(format!("{} AND / OR {} as a condition", a, b));
            count += 1;
            if count % 60 == 0 {
                for t in tail {
                    lines.push(t.into());
                }
                // one expected line per pair, many program lines per pair: flush by hand
                let text = lines.join("\n") + "\n";
                let exp = expect.join("\r\n") + "\r\n";
                cases.push(json!({"k": "prog", "what": "conditions", "text": text, "expect": exp, "labels": labels, "n": expect.len()}));
                lines.clear();
                expect.clear();
                labels.clear();
                head(&mut lines);
            }
        }
        if !expect.is_empty() {
            for t in tail {
                lines.push(t.into());
            }
            let text = lines.join("\n") + "\n";
            let exp = expect.join("\r\n") + "\r\n";
            cases.push(json!({"k": "prog", "what": "conditions", "text": text, "expect": exp, "labels": labels, "n": expect.len()}));
        }
        lines.clear();
        expect.clear();
        labels.clear();
    }
    // MKD$ / CVD: byte-by-byte comparison through CHR$, for values written as d.d# literals
    // and for power-of-two ladders computed at run time (down into the subnormals, up to 2^1023).
    let mut doubles: Vec<(String, f64)> = vec![];
    for s in [
        "0.0#", "1.0#", "2.0#", "0.5#", "0.25#", "1.5#", "3.75#", "10.0#", "100.125#", "65536.0#",
        "1048576.5#", "0.0625#", "123456789.0#", "0.1#", "0.3#", "2.718281828459045#", "1000000.0#",
        "32767.0#", "4294967296.0#", "9007199254740993.0#",
    ] {
        let v: f64 = s.trim_end_matches('#').parse().unwrap();
        doubles.push((s.to_string(), v));
        if v != 0.0 {
            doubles.push((format!("(-{})", s), -v));
        }
    }
    // Each value is stored through MKD$ -> LSET -> PUT into a RANDOM file (whose bytes are
    // compared with the IEEE-754 encoding) and read back through GET -> CVD (compared by exact
    // subtraction). MID$/CHR$ are not used: strings with bytes >= 128 are outside restriction R8.
    struct MkdProg {
        lines: Vec<String>,
        expect: Vec<String>,
        labels: Vec<String>,
        file: Vec<u8>,
    }
    impl MkdProg {
        fn new() -> Self {
            Self {
                lines: vec![
                    "OPEN \"r.dat\" FOR RANDOM AS #1 LEN = 8".to_string(),
                    "FIELD #1, 8 AS F$".to_string(),
                ],
                expect: vec![],
                labels: vec![],
                file: vec![],
            }
        }
        fn check(&mut self, prefix: &str, expr: &str, x: f64) {
            let k = self.expect.len() + 1;
            self.lines.push(format!(
                "{}X# = {}: LSET F$ = MKD$(X#): PUT #1, {}: F$ = \"\": GET #1, {}: PRINT LEN(MKD$(X#)); CVD(F$) - X#",
                prefix, expr, k, k
            ));
            self.expect.push(format!("{}{}", fmt_num(8), fmt_num(0)));
            self.labels.push(format!("MKD$/CVD of {} = {:e}", expr, x));
            self.file.extend_from_slice(&x.to_le_bytes());
        }
        fn finish(mut self, what: &str) -> Value {
            self.lines.push("CLOSE".to_string());
            json!({
                "k": "prog",
                "what": what,
                "text": self.lines.join("\n") + "\n",
                "expect": self.expect.join("\r\n") + "\r\n",
                "labels": self.labels,
                "file": ["r.dat", vcore::latin1(&self.file)],
                "n": self.expect.len()
            })
        }
    }
    let mut p = MkdProg::new();
    for (s, v) in &doubles {
        p.check("", s, *v);
    }
    cases.push(p.finish("mkd-cvd-literals"));
    // ladders: Y# = 1, repeatedly halved / doubled at run time; checked at selected rungs
    let rungs_down: Vec<i32> = if tier == "quick" {
        vec![1, 2, 10, 100, 1000, 1021, 1022, 1023, 1024, 1050, 1073, 1074]
    } else {
        (1..=1074).collect()
    };
    let rungs_up: Vec<i32> = if tier == "quick" {
        vec![1, 10, 52, 53, 62, 63, 64, 100, 1000, 1022, 1023]
    } else {
        (1..=1023).collect()
    };
    for (dir, rungs) in [(-1, &rungs_down), (1, &rungs_up)] {
        for chunk in rungs.chunks(40) {
            let mut p = MkdProg::new();
            for &r in chunk {
                let factor = if dir < 0 { ".5#" } else { "2.0#" };
                let prefix = format!("Y# = 1.0#: FOR I% = 1 TO {}: Y# = Y# * {}: NEXT: ", r, factor);
                let mut x = 1.0f64;
                for _ in 0..r {
                    x *= if dir < 0 { 0.5 } else { 2.0 };
                }
                p.check(&prefix, "Y#", x);
                // one and a half times it as a second mantissa (exact unless at the smallest subnormals)
                if !(dir < 0 && r >= 1073) {
                    let y = x * 1.5;
                    if y.is_finite() {
                        p.check("", "Y# * 1.5#", y);
                    }
                }
            }
            cases.push(p.finish(if dir < 0 { "mkd-cvd-ladder-down" } else { "mkd-cvd-ladder-up" }));
        }
    }
    cases
}

pub fn drive(tier: &str) -> i32 {
    let mut run = Run::new("C19", tier);
    run.crash_is_violation = true;
    let pool = Pool::new("C19");
    let mut cases: Vec<Value> = vec![];
    // function level — identical in both tiers (it is cheap): all 65536 x lattice
    let mut a = -32768;
    while a < 32768 {
        cases.push(json!({"k": "andor", "a0": a, "a1": a + 1024}));
        cases.push(json!({"k": "bytes", "a0": a, "a1": a + 1024}));
        a += 1024;
    }
    let mut e = 0u64;
    while e < 2047 {
        cases.push(json!({"k": "f64", "e0": e, "e1": (e + 32).min(2047)}));
        e += 32;
    }
    let function_level_cases = cases.len();
    let progs = prog_cases(tier);
    let program_cases = progs.len();
    let samples: Vec<Value> = vec![
        json!({"function_level": "qb_and(a, b), qb_or(a, b) for a in -32768..32767, b in lattice16", "lattice16": lattice16()}),
        json!({"function_level": "f64_to_bytes / bytes_to_f64 on sign x biased exponent 0..=2046 x mantissa lattice", "mantissa_lattice_hex": mantissas().iter().map(|m| format!("{:013x}", m)).collect::<Vec<_>>()}),
        progs.first().map(|p| json!({"program": p["text"].as_str().unwrap().lines().take(3).collect::<Vec<_>>(), "expect_first": p["expect"].as_str().unwrap().split("\r\n").next()})).unwrap_or(Value::Null),
        progs.last().map(|p| json!({"program": p["text"].as_str().unwrap().lines().take(2).collect::<Vec<_>>(), "expect_first": p["expect"].as_str().unwrap().split("\r\n").next()})).unwrap_or(Value::Null),
    ];
    cases.extend(progs);
    run.run_pool(&pool, cases.into_iter(), |_, _, _, _| {});
    let mut ev = Evidence::new("exploration");
    ev.set("rule", "function level: every (a, b) with a in all 65536 INTEGER values and b in a 79-value lattice (boundaries, one-hots, complements, alternating patterns) for qb_and/qb_or; all 65536 values for i32_to_bytes/bytes_to_i32 (which also covers all 65536 byte pairs); every double sign x biased exponent 0..=2046 x mantissa lattice for f64_to_bytes/bytes_to_f64 (subnormals and magnitudes >= 2^63 included, NaN/inf excluded). Program level: AND/OR/NOT via PRINT, PEEK/POKE of both bytes via VARPTR, MKD$ bytes compared one by one via CHR$ and CVD via exact subtraction, on literals and on run-time power-of-two ladders. Enumeration has no repeats; non-trivial = result differs from both operands and from 0/-1 (and/or), value not 0/-1 (bytes), mantissa non-zero (doubles), every program-level statement. peek-poke-neighbours: PEEK and POKE of both bytes of an INTEGER variable (6 values) whose neighbours change size between the accesses — a string that grows and shrinks, a dynamic array that is REDIMmed, both — at module level and inside a SUB (6 layouts): the bytes are the variable's before and after every change; two INTEGER variables side by side behind a string that grows and shrinks by 1 .. 4 bytes (one then stands where the other stood when it was last read), at module level and in a SUB: each PEEK reads the variable it names.");
    ev.set("exhaustive", true);
    ev.set("function_level_chunks", function_level_cases as u64);
    ev.set("program_level_programs", program_cases as u64);
    ev.set("lattice16_size", lattice16().len() as u64);
    ev.set("mantissa_lattice_size", mantissas().len() as u64);
    ev.set("samples", Value::Array(samples));
    ev.assume("oracle: Rust's i16 bit operations and f64::to_le_bytes/from_bits are two's complement and IEEE-754 binary64");
    ev.assume("negative zero is excluded (the property speaks of values, -0 = 0)");
    ev.assume("program level compares MKD$ bytes exactly; CVD is compared by exact subtraction (the implementation's '=' has a 1e-5 tolerance and is not used as an oracle)");
    run.finish(ev)
}
