//! C13 — names resolve by the documented bare / qualified / extended rules in every scope.
//! Programs over one base name (and, for DEFtype, over all 26 first letters) are generated with
//! every combination of declaration and spelling; a small model of the documented rules predicts
//! the checker's verdict and which spellings are the same variable.

use std::collections::BTreeMap;

use serde_json::{Value, json};
use vcore::Evidence;
use vcore::outcome::End;

use super::{Run, truncate_text};
use crate::bind::{RunOpts, run_pipeline};
use crate::pool::Pool;

#[derive(Clone, Copy, PartialEq, Eq, Debug, PartialOrd, Ord)]
enum Q {
    Int,
    Lng,
    Sng,
    Dbl,
    Str,
}

const QS: [Q; 5] = [Q::Int, Q::Lng, Q::Sng, Q::Dbl, Q::Str];

impl Q {
    fn sfx(self) -> &'static str {
        match self {
            Q::Int => "%",
            Q::Lng => "&",
            Q::Sng => "!",
            Q::Dbl => "#",
            Q::Str => "$",
        }
    }
    fn type_name(self) -> &'static str {
        match self {
            Q::Int => "INTEGER",
            Q::Lng => "LONG",
            Q::Sng => "SINGLE",
            Q::Dbl => "DOUBLE",
            Q::Str => "STRING",
        }
    }
    fn def_kw(self) -> &'static str {
        match self {
            Q::Int => "DEFINT",
            Q::Lng => "DEFLNG",
            Q::Sng => "DEFSNG",
            Q::Dbl => "DEFDBL",
            Q::Str => "DEFSTR",
        }
    }
}

/// literal and printed form of the n-th value of a type
fn lit(q: Q, n: u32) -> (String, String) {
    if q == Q::Str { (format!("\"s{}\"", n), format!("s{}", n)) } else { (format!("{}", n), format!(" {} ", n)) }
}

fn unset(q: Q) -> String {
    if q == Q::Str { String::new() } else { " 0 ".to_string() }
}

/// A spelling: None = bare, Some(q) = with suffix.
type Sp = Option<Q>;
const SPELLINGS: [Sp; 6] = [None, Some(Q::Int), Some(Q::Lng), Some(Q::Sng), Some(Q::Dbl), Some(Q::Str)];

fn spell(base: &str, s: Sp, case: usize) -> String {
    let b = match case % 3 {
        0 => base.to_string(),
        1 => base.to_ascii_uppercase(),
        _ => base.to_ascii_lowercase(),
    };
    format!("{}{}", b, s.map(|q| q.sfx()).unwrap_or(""))
}

struct Expect {
    text: String,
    /// Ok(stdout) or Err(row of the statement that must be rejected)
    want: Result<String, u32>,
    label: String,
    sigkey: String,
}

// ---------------------------------------------------------------------------
// family D: DEFtype x first letters
// ---------------------------------------------------------------------------

#[derive(Clone, Debug)]
struct DefStmt {
    q: Q,
    ranges: Vec<(u8, u8)>,
    case: usize,
}

fn def_text(d: &DefStmt) -> String {
    let kw = d.q.def_kw();
    let kw = if d.case % 2 == 1 { kw.to_ascii_lowercase() } else { kw.to_string() };
    let rs: Vec<String> = d
        .ranges
        .iter()
        .map(|(a, b)| {
            let (ca, cb) = match d.case {
                0 => (*a as char, *b as char),
                1 => ((*a as char).to_ascii_lowercase(), (*b as char).to_ascii_lowercase()),
                2 => ((*a as char).to_ascii_lowercase(), *b as char),
                _ => (*a as char, (*b as char).to_ascii_lowercase()),
            };
            if a == b { format!("{}", ca) } else { format!("{}-{}", ca, cb) }
        })
        .collect();
    format!("{} {}", kw, rs.join(", "))
}

fn def_program(stmts: &[DefStmt]) -> Expect {
    let mut table = [Q::Sng; 26];
    let mut text = String::new();
    for d in stmts {
        text.push_str(&def_text(d));
        text.push('\n');
        for (a, b) in &d.ranges {
            for l in *a..=*b {
                table[(l - b'A') as usize] = d.q;
            }
        }
    }
    let mut out = String::new();
    for l in b'A'..=b'Z' {
        let name = format!("{}q", l as char);
        for (k, q) in QS.iter().enumerate() {
            text.push_str(&format!("{}{} = {}\n", name, q.sfx(), lit(*q, k as u32 + 1).0));
        }
        // the bare name, in another letter case
        text.push_str(&format!("PRINT {}\n", if l % 2 == 0 { name.to_ascii_uppercase() } else { name.to_ascii_lowercase() }));
        let q = table[(l - b'A') as usize];
        let k = QS.iter().position(|x| *x == q).unwrap() as u32 + 1;
        out.push_str(&lit(q, k).1);
        out.push_str("\r\n");
    }
    Expect {
        text,
        want: Ok(out),
        label: stmts.iter().map(def_text).collect::<Vec<_>>().join(" : "),
        sigkey: format!("{} statement(s)", stmts.len()),
    }
}

fn def_configs(quick: bool) -> Vec<Vec<DefStmt>> {
    let mut out = vec![];
    let ends: Vec<u8> = if quick { vec![b'A', b'B', b'M', b'Y', b'Z'] } else { (b'A'..=b'Z').collect() };
    let mut ranges: Vec<(u8, u8)> = (b'A'..=b'Z').map(|l| (l, l)).collect();
    for a in &ends {
        for b in &ends {
            if a < b {
                ranges.push((*a, *b));
            }
        }
    }
    for q in QS {
        for r in &ranges {
            out.push(vec![DefStmt { q, ranges: vec![*r], case: 0 }]);
        }
    }
    // letter case of keyword and range ends
    for q in QS {
        for case in 1..4 {
            for r in [(b'A', b'Z'), (b'C', b'F'), (b'N', b'N')] {
                out.push(vec![DefStmt { q, ranges: vec![r], case }]);
            }
        }
    }
    // several ranges in one statement, and a later statement overriding an earlier one
    let some: [(u8, u8); 5] = [(b'A', b'Z'), (b'A', b'C'), (b'C', b'F'), (b'F', b'F'), (b'X', b'Z')];
    for q in QS {
        for r1 in some {
            for r2 in some {
                out.push(vec![DefStmt { q, ranges: vec![r1, r2], case: 0 }]);
                for q2 in QS {
                    if quick && (q2 != Q::Int && q2 != Q::Str) {
                        continue;
                    }
                    out.push(vec![DefStmt { q, ranges: vec![r1], case: 0 }, DefStmt { q: q2, ranges: vec![r2], case: 0 }]);
                }
            }
        }
    }
    out
}

// ---------------------------------------------------------------------------
// family G: one base name at module level
// ---------------------------------------------------------------------------

#[derive(Clone, Copy, Debug, PartialEq)]
enum Decl {
    None,
    Extended(Q),
    Compact(Sp),
}

fn decls() -> Vec<Decl> {
    let mut v = vec![Decl::None];
    for q in QS {
        v.push(Decl::Extended(q));
    }
    for s in SPELLINGS {
        v.push(Decl::Compact(s));
    }
    v
}

/// Model of the variables of one scope for one base name.
#[derive(Clone, Debug)]
struct Scope {
    default: Q,
    extended: Option<Q>,
    vars: BTreeMap<Q, String>,
}

impl Scope {
    fn new(default: Q) -> Scope {
        Scope { default, extended: None, vars: BTreeMap::new() }
    }

    /// The variable a spelling denotes, or None if the spelling is illegal.
    fn resolve(&self, s: Sp) -> Option<Q> {
        match self.extended {
            Some(t) => match s {
                None => Some(t),
                Some(q) if q == t => Some(t),
                Some(_) => None,
            },
            None => Some(s.unwrap_or(self.default)),
        }
    }

    fn get(&self, q: Q) -> String {
        self.vars.get(&q).cloned().unwrap_or_else(|| unset(q))
    }
}

fn global_program(def: Option<Q>, decl: Decl, uses: &[Sp]) -> Expect {
    let base = "Nam";
    let mut text = String::new();
    let mut row = 0u32;
    if let Some(q) = def {
        text.push_str(&format!("{} N\n", q.def_kw()));
        row += 1;
    }
    let mut sc = Scope::new(def.unwrap_or(Q::Sng));
    match decl {
        Decl::None => {}
        Decl::Extended(t) => {
            text.push_str(&format!("DIM {} AS {}\n", base, t.type_name()));
            row += 1;
            sc.extended = Some(t);
        }
        Decl::Compact(s) => {
            text.push_str(&format!("DIM {}\n", spell(base, s, 0)));
            row += 1;
        }
    }
    let mut want: Result<String, u32> = Ok(String::new());
    let mut used: Vec<Sp> = vec![];
    for (k, s) in uses.iter().enumerate() {
        row += 1;
        match sc.resolve(*s) {
            Some(q) => {
                let (l, p) = lit(q, k as u32 + 1);
                text.push_str(&format!("{} = {}\n", spell(base, *s, k + 1), l));
                sc.vars.insert(q, p);
                used.push(*s);
            }
            None => {
                // any value will do: the statement must be rejected
                let q = s.unwrap();
                text.push_str(&format!("{} = {}\n", spell(base, *s, k + 1), lit(q, 1).0));
                if want.is_ok() {
                    want = Err(row);
                }
            }
        }
    }
    if let Ok(out) = &mut want {
        let mut shown: Vec<Sp> = vec![None];
        for s in used {
            if !shown.contains(&s) {
                shown.push(s);
            }
        }
        for (k, s) in shown.iter().enumerate() {
            if let Some(q) = sc.resolve(*s) {
                text.push_str(&format!("PRINT {}\n", spell(base, *s, k + 2)));
                out.push_str(&sc.get(q));
                out.push_str("\r\n");
            }
        }
    }
    Expect {
        text,
        want,
        label: format!("default {:?}, declaration {:?}, uses {:?}", def, decl, uses),
        sigkey: format!("{}|{}", match decl { Decl::None => "implicit", Decl::Extended(_) => "DIM AS", Decl::Compact(_) => "DIM compact" }, if def.is_some() { "DEFtype" } else { "default" }),
    }
}

// ---------------------------------------------------------------------------
// family S: subprogram scope
// ---------------------------------------------------------------------------

fn sub_program(kind: usize, def: Option<Q>, a: usize, b: usize) -> Option<Expect> {
    let base = "Nam";
    let d = def.unwrap_or(Q::Sng);
    let head = def.map(|q| format!("{} N\n", q.def_kw())).unwrap_or_default();
    let rows0 = if def.is_some() { 1 } else { 0 };
    let res = |s: Sp| s.unwrap_or(d);
    match kind {
        // a global that is not shared: the SUB's variable of the same spelling is a local
        0 => {
            let s = *SPELLINGS.get(a)?;
            if b > 0 {
                return None;
            }
            let q = res(s);
            let text = format!("{}DECLARE SUB P ()\n{} = {}\nP\nPRINT {}\nSUB P\nPRINT {}\n{} = {}\nPRINT {}\nEND SUB\n", head, spell(base, s, 0), lit(q, 5).0, spell(base, s, 1), spell(base, s, 2), spell(base, s, 0), lit(q, 9).0, spell(base, s, 1));
            Some(Expect { text, want: Ok(format!("{}\r\n{}\r\n{}\r\n", unset(q), lit(q, 9).1, lit(q, 5).1)), label: format!("global {:?} not shared, default {:?}", s, def), sigkey: "local hides unshared global".into() })
        }
        // DIM SHARED compact: the SUB sees it; another spelling used first is a different, local variable
        1 => {
            let s = *SPELLINGS.get(a)?;
            let s2 = *SPELLINGS.get(b)?;
            let (q, q2) = (res(s), res(s2));
            let mut body = String::new();
            let mut out = String::new();
            if q2 != q {
                body.push_str(&format!("{} = {}\n", spell(base, s2, 1), lit(q2, 3).0));
            }
            body.push_str(&format!("PRINT {}\n{} = {}\n", spell(base, s, 2), spell(base, s, 0), lit(q, 9).0));
            out.push_str(&format!("{}\r\n", lit(q, 5).1));
            let mut main_tail = format!("PRINT {}\n", spell(base, s, 1));
            out.push_str(&format!("{}\r\n", lit(q, 9).1));
            if q2 != q {
                main_tail.push_str(&format!("PRINT {}\n", spell(base, s2, 2)));
                out.push_str(&format!("{}\r\n", unset(q2)));
            }
            let text = format!("{}DECLARE SUB P ()\nDIM SHARED {}\n{} = {}\nP\n{}SUB P\n{}END SUB\n", head, spell(base, s, 0), spell(base, s, 1), lit(q, 5).0, main_tail, body);
            Some(Expect { text, want: Ok(out), label: format!("DIM SHARED {:?}, other spelling {:?} used first in the SUB, default {:?}", s, s2, def), sigkey: "DIM SHARED compact".into() })
        }
        // DIM SHARED extended: bare and the matching suffix denote it, any other suffix is rejected
        2 => {
            let t = *QS.get(a)?;
            let s = *SPELLINGS.get(b)?;
            let legal = s.map(|q| q == t).unwrap_or(true);
            let text = format!("{}DECLARE SUB P ()\nDIM SHARED {} AS {}\n{} = {}\nP\nPRINT {}\nSUB P\nPRINT {}\n{} = {}\nEND SUB\n", head, base, t.type_name(), base, lit(t, 5).0, base.to_ascii_uppercase(), spell(base, s, 2), spell(base, s, 1), lit(s.unwrap_or(t), 9).0);
            let want = if legal { Ok(format!("{}\r\n{}\r\n", lit(t, 5).1, lit(t, 9).1)) } else { Err(rows0 + 7) };
            Some(Expect { text, want, label: format!("DIM SHARED AS {:?}, spelling {:?} in the SUB, default {:?}", t, s, def), sigkey: "DIM SHARED extended".into() })
        }
        // a global CONST is visible in the SUB and cannot be assigned
        3 => {
            if a > 1 || b > 0 {
                return None;
            }
            let assign = a == 1;
            let text = format!("{}DECLARE SUB P ()\nCONST {} = 7\nP\nSUB P\nPRINT {}\n{}END SUB\n", head, base, base.to_ascii_lowercase(), if assign { format!("{} = 1\n", base) } else { String::new() });
            let want = if assign { Err(rows0 + 6) } else { Ok(" 7 \r\n".to_string()) };
            Some(Expect { text, want, label: format!("global CONST, assignment in the SUB: {}", assign), sigkey: "CONST in SUB".into() })
        }
        // a global that is not shared against a local declared AS type in the SUB: two variables
        5 => {
            let s = *SPELLINGS.get(a)?;
            let t = *QS.get(b)?;
            let q = res(s);
            let text = format!(
                "{}DECLARE SUB P ()\n{} = {}\nP\nPRINT {}\nSUB P\nDIM {} AS {}\n{} = {}\nPRINT {}\nEND SUB\n",
                head, spell(base, s, 0), lit(q, 5).0, spell(base, s, 1), base, t.type_name(), base.to_ascii_lowercase(), lit(t, 9).0, base.to_ascii_uppercase()
            );
            Some(Expect { text, want: Ok(format!("{}\r\n{}\r\n", lit(t, 9).1, lit(q, 5).1)), label: format!("global {:?} not shared, local DIM AS {:?} in the SUB, default {:?}", s, t, def), sigkey: "extended local against an unshared global".into() })
        }
        // the same with a parameter declared AS type (given a value)
        6 => {
            let s = *SPELLINGS.get(a)?;
            let t = *QS.get(b)?;
            let q = res(s);
            let text = format!(
                "{}DECLARE SUB P ({} AS {})\n{} = {}\nP ({})\nPRINT {}\nSUB P ({} AS {})\nPRINT {}\nEND SUB\n",
                head, base, t.type_name(), spell(base, s, 0), lit(q, 5).0, lit(t, 9).0, spell(base, s, 1), base, t.type_name(), base.to_ascii_lowercase()
            );
            Some(Expect { text, want: Ok(format!("{}\r\n{}\r\n", lit(t, 9).1, lit(q, 5).1)), label: format!("global {:?} not shared, parameter AS {:?}, default {:?}", s, t, def), sigkey: "extended parameter against an unshared global".into() })
        }
        // a parameter: the spelling denotes the caller's variable; another spelling is a separate local
        _ => {
            let s = *SPELLINGS.get(a)?;
            let s2 = *SPELLINGS.get(b)?;
            let (q, q2) = (res(s), res(s2));
            let arg = format!("Xv{}", q.sfx());
            let mut body = String::new();
            if q2 != q {
                body.push_str(&format!("{} = {}\n", spell(base, s2, 1), lit(q2, 3).0));
            }
            body.push_str(&format!("PRINT {}\n{} = {}\n", spell(base, s, 2), spell(base, s, 1), lit(q, 9).0));
            let text = format!("{}DECLARE SUB P ({})\n{} = {}\nP {}\nPRINT {}\nSUB P ({})\n{}END SUB\n", head, spell(base, s, 0), arg, lit(q, 5).0, arg, arg, spell(base, s, 0), body);
            Some(Expect { text, want: Ok(format!("{}\r\n{}\r\n", lit(q, 5).1, lit(q, 9).1)), label: format!("parameter {:?}, other spelling {:?} used first, default {:?}", s, s2, def), sigkey: "parameter".into() })
        }
    }
}

// ---------------------------------------------------------------------------
// family F: function names, results and parameters
// ---------------------------------------------------------------------------

fn fn_program(kind: usize, def: Option<Q>, a: usize, b: usize) -> Option<Expect> {
    let d = def.unwrap_or(Q::Sng);
    let head = def.map(|q| format!("{} N\n", q.def_kw())).unwrap_or_default();
    let rows0: u32 = if def.is_some() { 1 } else { 0 };
    let res = |s: Sp| s.unwrap_or(d);
    match kind {
        // a FUNCTION declared with spelling s0 and called with spelling s: the same function iff the types agree
        0 => {
            let s0 = *SPELLINGS.get(a)?;
            let s = *SPELLINGS.get(b)?;
            let (q0, q) = (res(s0), res(s));
            if s.is_none() && q != q0 {
                // a bare call of a function declared with a suffix: the documented rules do not say
                // whether the base name alone identifies the function (the implementation: it does)
                return None;
            }
            let text = format!(
                "{}DECLARE FUNCTION {} ()\nPRINT {}\nFUNCTION {}\n{} = {}\nEND FUNCTION\n",
                head,
                spell("Nam", s0, 0),
                spell("Nam", s, 1),
                spell("Nam", s0, 2),
                spell("Nam", s0, 0),
                lit(q0, 7).0
            );
            let want = if q == q0 { Ok(format!("{}\r\n", lit(q0, 7).1)) } else { Err(rows0 + 2) };
            Some(Expect { text, want, label: format!("FUNCTION declared {:?}, called {:?}, default {:?}", s0, s, def), sigkey: "function name spelling".into() })
        }
        // inside FUNCTION Nam<s0> the result is assigned through spelling s
        1 => {
            let s0 = *SPELLINGS.get(a)?;
            let s = *SPELLINGS.get(b)?;
            let (q0, q) = (res(s0), res(s));
            if q != q0 {
                // another suffix inside the function: whether it is a local or an error is not stated
                return None;
            }
            // assigned twice: the last value counts
            let text = format!(
                "{}DECLARE FUNCTION {} ()\nPRINT {}\nFUNCTION {}\n{} = {}\n{} = {}\nEND FUNCTION\n",
                head,
                spell("Nam", s0, 0),
                spell("Nam", s0, 1),
                spell("Nam", s0, 2),
                spell("Nam", s, 1),
                lit(q0, 5).0,
                spell("Nam", s, 2),
                lit(q0, 8).0
            );
            Some(Expect { text, want: Ok(format!("{}\r\n", lit(q0, 8).1)), label: format!("FUNCTION {:?}, result assigned twice through {:?}, default {:?}", s0, s, def), sigkey: "function result spelling".into() })
        }
        // the same with ANY spelling inside the function (a bare name under another default type, another
        // suffix): what it denotes is not stated by the rules, so only a BASIC-level outcome is demanded
        4 => {
            let s0 = *SPELLINGS.get(a)?;
            let s = *SPELLINGS.get(b)?;
            let (q0, q) = (res(s0), res(s));
            if q == q0 {
                return None;
            }
            let text = format!(
                "{}DECLARE FUNCTION {} ()\nPRINT {}\nFUNCTION {}\n{} = {}\n{} = {}\nEND FUNCTION\n",
                head,
                spell("Nam", s0, 0),
                spell("Nam", s0, 1),
                spell("Nam", s0, 2),
                spell("Nam", s, 1),
                lit(q, 5).0,
                spell("Nam", s, 2),
                lit(q, 8).0,
            );
            Some(Expect { text, want: Ok(String::new()), label: format!("FUNCTION {:?}, spelling {:?} assigned twice inside, default {:?}", s0, s, def), sigkey: "unjudged: other spelling inside a function".into() })
        }
        // a bare or suffixed parameter takes a variable by reference only if the types agree
        2 => {
            let s0 = *SPELLINGS.get(a)?;
            let q0 = res(s0);
            let q = *QS.get(b)?;
            let arg = format!("Xv{}", q.sfx());
            let text = format!("{}DECLARE SUB P ({})\n{} = {}\nP {}\nPRINT {}\nSUB P ({})\n{} = {}\nEND SUB\n", head, spell("Nam", s0, 0), arg, lit(q, 5).0, arg, arg, spell("Nam", s0, 1), spell("Nam", s0, 2), lit(q0, 9).0);
            let want = if q == q0 { Ok(format!("{}\r\n", lit(q, 9).1)) } else { Err(rows0 + 3) };
            Some(Expect { text, want, label: format!("parameter {:?} given a {:?} variable, default {:?}", s0, q, def), sigkey: "parameter type".into() })
        }
        // an extended parameter: bare and the matching suffix denote it, another suffix is rejected
        _ => {
            let t = *QS.get(a)?;
            let s = *SPELLINGS.get(b)?;
            let legal = s.map(|q| q == t).unwrap_or(true);
            let arg = format!("Xv{}", t.sfx());
            let text = format!("{}DECLARE SUB P (Nam AS {})\n{} = {}\nP {}\nPRINT {}\nSUB P (Nam AS {})\n{} = {}\nEND SUB\n", head, t.type_name(), arg, lit(t, 5).0, arg, arg, t.type_name(), spell("Nam", s, 1), lit(s.unwrap_or(t), 9).0);
            let want = if legal { Ok(format!("{}\r\n", lit(t, 9).1)) } else { Err(rows0 + 6) };
            Some(Expect { text, want, label: format!("parameter AS {:?}, spelling {:?} inside, default {:?}", t, s, def), sigkey: "extended parameter".into() })
        }
    }
}

// ---------------------------------------------------------------------------
// family A: an array next to a scalar of the same base name and another type
// ---------------------------------------------------------------------------

// (an array that is never declared is not supported by the implementation at all: not generated)
const ARRAY_DECLS: [&str; 3] = ["DIM", "REDIM", "REDIM twice"];

/// `Nam$` and the array `Nam!()` are different variables whatever declares the array and whichever comes first.
fn array_programs() -> Vec<Expect> {
    let mut out = vec![];
    for def in DEFS {
        let resolve = |s: Sp| s.unwrap_or(def.unwrap_or(Q::Sng));
        for (si, s1) in SPELLINGS.iter().enumerate() {
            for (ai, s2) in SPELLINGS.iter().enumerate() {
                let (q1, q2) = (resolve(*s1), resolve(*s2));
                if q1 == q2 {
                    continue;
                }
                for decl in ARRAY_DECLS {
                    for scalar_first in [true, false] {
                        let scalar = spell("Nam", *s1, si);
                        let array = spell("Nam", *s2, ai + 1);
                        let (l1, p1) = lit(q1, 3);
                        let (l2, p2) = lit(q2, 4);
                        let mut text = String::new();
                        if let Some(d) = def {
                            text.push_str(&format!("{} N\n", d.def_kw()));
                        }
                        let assign_scalar = format!("{} = {}\n", scalar, l1);
                        let declare = match decl {
                            "DIM" => format!("DIM {}(1 TO 2)\n", array),
                            "REDIM" => format!("REDIM {}(1 TO 2)\n", array),
                            "REDIM twice" => format!("REDIM {}(1 TO 2)\nREDIM {}(0 TO 1)\n", array, array),
                            _ => String::new(),
                        };
                        if scalar_first {
                            text.push_str(&assign_scalar);
                            text.push_str(&declare);
                        } else {
                            text.push_str(&declare);
                            text.push_str(&assign_scalar);
                        }
                        text.push_str(&format!("{}(1) = {}\nPRINT {}; \"|\"; {}(1)\n", array, l2, scalar, array));
                        out.push(Expect {
                            text,
                            want: Ok(format!("{}|{}\r\n", p1, p2)),
                            label: format!("scalar {} and array {}() ({}), default {:?}, {}", scalar, array, decl, def, if scalar_first { "scalar first" } else { "array first" }),
                            sigkey: format!("array next to a scalar of another type|{}", decl),
                        });
                    }
                }
            }
        }
    }
    out
}

// ---------------------------------------------------------------------------

fn judge(e: &Expect, g: &str, acc_hist: &mut BTreeMap<String, u64>, bads: &mut Vec<Value>, replay: Value) {
    let o = run_pipeline(&e.text, &RunOpts { budget: 300_000, ..RunOpts::default() });
    let verdict = match (&e.want, &o.end) {
        // configurations the documented rules do not decide: any BASIC-level outcome
        (_, End::Normal | End::LintError { .. } | End::ParseError { .. } | End::RuntimeError { .. }) if e.sigkey.starts_with("unjudged") => Ok("unjudged:basic-level-outcome".to_string()),
        (Ok(out), End::Normal) => {
            if *out == o.stdout_str() { Ok("accepted".to_string()) } else { Err(("output".to_string(), format!("expected {:?}, got {:?}", out, o.stdout_str()))) }
        }
        (Ok(_), other) => Err((format!("not-accepted|{}", other.class()), format!("expected to run, got {}", other.class()))),
        (Err(row), End::LintError { row: r, kind, .. }) => {
            if r == row { Ok(format!("rejected:{}", kind)) } else { Err(("row".to_string(), format!("the illegal spelling is on row {}, the error ({}) says row {}", row, kind, r))) }
        }
        (Err(row), other) => Err(("illegal-spelling-accepted".to_string(), format!("the spelling on row {} must be rejected by the checker, got {} / {:?}", row, other.class(), truncate_text(&o.stdout_str(), 60)))),
    };
    match verdict {
        Ok(k) => *acc_hist.entry(k).or_insert(0) += 1,
        Err((class, msg)) => {
            *acc_hist.entry("differ".into()).or_insert(0) += 1;
            if bads.len() < 40 {
                bads.push(json!({
                    "sig": format!("C13|{}|{}|{}", g, e.sigkey, class),
                    "summary": format!("{} — {} — program {:?}", msg, e.label, truncate_text(&e.text, 400)),
                    "text": e.text,
                    "case": replay,
                }));
            }
        }
    }
}

fn use_sequences(max: usize) -> Vec<Vec<Sp>> {
    let mut out: Vec<Vec<Sp>> = vec![];
    let mut level: Vec<Vec<Sp>> = vec![vec![]];
    for _ in 0..max {
        let mut next = vec![];
        for l in &level {
            for s in SPELLINGS {
                let mut m = l.clone();
                m.push(s);
                next.push(m);
            }
        }
        out.extend(next.iter().cloned());
        level = next;
    }
    out
}

const DEFS: [Option<Q>; 6] = [None, Some(Q::Int), Some(Q::Lng), Some(Q::Sng), Some(Q::Dbl), Some(Q::Str)];

pub fn worker(case: &Value) -> Value {
    let g = case["g"].as_str().unwrap_or("");
    let quick = case["quick"].as_bool().unwrap_or(true);
    let lo = case["lo"].as_u64().unwrap_or(0) as usize;
    let hi = case["hi"].as_u64().unwrap_or(0) as usize;
    let mut hist: BTreeMap<String, u64> = BTreeMap::new();
    let mut bads = vec![];
    let mut n = 0u64;
    let mut sample = Value::Null;
    match g {
        "late" => {
            // a DEFtype statement in the middle of the program: names used before it keep the default they had
            for (q, first_val, first_out, second_val, second_out) in [
                (Q::Int, "1.75", " 1.75 ", "2.25", " 2 "),
                (Q::Lng, "1.75", " 1.75 ", "70000.25", " 70000 "),
                (Q::Dbl, "1.75", " 1.75 ", "2.25", " 2.25 "),
                (Q::Str, "1.75", " 1.75 ", "\"s\"", "s"),
                (Q::Sng, "1.75", " 1.75 ", "2.25", " 2.25 "),
            ] {
                for sub in [false, true] {
                    let body = format!("Nam = {}\nPRINT Nam\n{} N\nNbm = {}\nPRINT Nbm\nPRINT Nam!\n", first_val, q.def_kw(), second_val);
                    let text = if sub {
                        // the same names used only inside a SUB that stands after the DEFtype statement: they have the new default
                        format!("Nam = {}\nPRINT Nam\n{} N\nW\nPRINT Nam!\nSUB W\nNbm = {}\nPRINT Nbm\nEND SUB\n", first_val, q.def_kw(), second_val)
                    } else {
                        body
                    };
                    let out = if sub { format!("{}\r\n{}\r\n{}\r\n", first_out, second_out, first_out) } else { format!("{}\r\n{}\r\n{}\r\n", first_out, second_out, first_out) };
                    let e = Expect { text, want: Ok(out), label: format!("{:?} statement after the first use of a bare name{}", q, if sub { ", second name in a SUB" } else { "" }), sigkey: "DEFtype in the middle of the program".into() };
                    n += 1;
                    if sample.is_null() {
                        sample = json!({"group": g, "label": e.label, "text": e.text});
                    }
                    judge(&e, g, &mut hist, &mut bads, json!({"g": g, "quick": quick, "lo": 0, "hi": 1}));
                }
            }
        }
        "late2" => {
            // the SAME bare name before and after a DEFtype statement: used 1..3 times before it, then it denotes
            // the variable of the new default type; a second statement (DEFSNG) switches it back
            for (q, second_val, second_out) in [(Q::Int, "2.25", " 2 "), (Q::Lng, "70000.25", " 70000 "), (Q::Dbl, "2.25", " 2.25 "), (Q::Str, "\"s\"", "s"), (Q::Sng, "2.25", " 2.25 ")] {
                for uses in 1..=3usize {
                    for in_sub in [false] {
                        let mut body = String::from("Nam = 1.75\n");
                        let mut out = String::new();
                        for _ in 1..uses {
                            body.push_str("PRINT Nam\n");
                            out.push_str(" 1.75 \r\n");
                        }
                        body.push_str(&format!("{} N\nNam = {}\nPRINT Nam\nPRINT Nam!\n", q.def_kw(), second_val));
                        let same = matches!(q, Q::Sng);
                        out.push_str(&format!("{}\r\n{}\r\n", second_out, if same { " 2.25 " } else { " 1.75 " }));
                        body.push_str("DEFSNG N\nPRINT Nam\nNam = 3.5\nPRINT Nam!\n");
                        out.push_str(&format!("{}\r\n 3.5 \r\n", if same { " 2.25 " } else { " 1.75 " }));
                        let text = if in_sub { format!("DECLARE SUB W ()\nW\nSUB W\n{}END SUB\n", body) } else { body };
                        let e = Expect { text, want: Ok(out), label: format!("the same bare name {} time(s) before a {:?} statement and after it{}", uses, q, if in_sub { ", inside a SUB" } else { "" }), sigkey: "the same name before and after a DEFtype statement".into() };
                        n += 1;
                        judge(&e, g, &mut hist, &mut bads, json!({"g": g, "quick": quick, "lo": 0, "hi": 1}));
                    }
                }
            }
        }
        "longnames" => {
            // identifiers of 1 .. 40 characters (the longest legal name) spelled in another letter case at one position
            // (first, middle, 31st .. 34th, last) or everywhere: the same variable / constant / subprogram / label
            let base = "VerylongIdentifierNameWith40Characters12";
            for len in [1usize, 2, 8, 16, 31, 32, 33, 34, 39, 40] {
                let stem: String = base.chars().take(len - 1).collect();
                let flip = |s: &str, at: &[usize]| -> String {
                    s.chars().enumerate().map(|(i, c)| if at.contains(&i) { if c.is_ascii_uppercase() { c.to_ascii_lowercase() } else { c.to_ascii_uppercase() } } else { c }).collect()
                };
                // the respellings: all upper, all lower, one position flipped
                let mut respell: Vec<(String, Box<dyn Fn(&str) -> String>)> = vec![
                    ("upper case".into(), Box::new(|s: &str| s.to_ascii_uppercase())),
                    ("lower case".into(), Box::new(|s: &str| s.to_ascii_lowercase())),
                ];
                let mut seen = vec![];
                for at in [0usize, len / 2, 30, 31, 32, 33, len - 1] {
                    if at < len && !seen.contains(&at) && (at == len - 1 || stem.chars().nth(at).map(|c| c.is_ascii_alphabetic()).unwrap_or(false)) {
                        seen.push(at);
                        respell.push((format!("position {} flipped", at + 1), Box::new(move |s: &str| flip(s, &[at]))));
                    }
                }
                for (how, f) in &respell {
                    let nm = |tag: char| format!("{}{}", stem, tag);
                    let (v, sb, fu, co, gl, la) = (nm('V'), nm('S'), nm('F'), nm('C'), nm('G'), nm('L'));
                    let text = format!(
                        "DECLARE SUB {sb} (X%)\nDECLARE FUNCTION {fu}% (X%)\nCONST {co} = 7\nDIM SHARED {gl} AS INTEGER\n{v} = 21.5\nPRINT {v2}\n{v2}$ = \"s\"\nPRINT {v}$\n{gl2} = 5\n{sb2} 1\nPRINT {fu2}%(2); {co2}\nGOTO {la2}\nPRINT \"skipped\"\n{la}:\nPRINT \"end\"\nSUB {sb} (X%)\nPRINT {gl2} + X%\nEND SUB\nFUNCTION {fu}% (X%)\n{fu2}% = X% * 2\nEND FUNCTION\n",
                        sb = sb, fu = fu, co = co, gl = gl, v = v, la = la,
                        v2 = f(&v), gl2 = f(&gl), sb2 = f(&sb), fu2 = f(&fu), co2 = f(&co), la2 = f(&la)
                    );
                    let e = Expect { text, want: Ok(" 21.5 \r\ns\r\n 6 \r\n 4  7 \r\nend\r\n".to_string()), label: format!("names of {} characters respelled: {}", len, how), sigkey: "names differing only in letter case".into() };
                    n += 1;
                    if sample.is_null() {
                        sample = json!({"group": g, "label": e.label, "text": e.text});
                    }
                    judge(&e, g, &mut hist, &mut bads, json!({"g": g, "quick": quick, "lo": 0, "hi": 1}));
                }
            }
        }
        "arrays" => {
            let all = array_programs();
            for idx in lo..hi.min(all.len()) {
                let e = &all[idx];
                n += 1;
                if sample.is_null() {
                    sample = json!({"group": g, "label": e.label, "text": e.text});
                }
                judge(e, g, &mut hist, &mut bads, json!({"g": g, "quick": quick, "lo": idx, "hi": idx + 1}));
            }
        }
        "deftype" => {
            let configs = def_configs(quick);
            for idx in lo..hi.min(configs.len()) {
                let e = def_program(&configs[idx]);
                n += 1;
                if sample.is_null() {
                    sample = json!({"group": g, "label": e.label, "text": truncate_text(&e.text, 600)});
                }
                judge(&e, g, &mut hist, &mut bads, json!({"g": g, "quick": quick, "lo": idx, "hi": idx + 1}));
            }
        }
        "global" => {
            let seqs = use_sequences(if quick { 2 } else { 3 });
            let ds = decls();
            for idx in lo..hi {
                let u = idx % seqs.len();
                let rest = idx / seqs.len();
                let dc = rest % ds.len();
                let df = rest / ds.len();
                if df >= DEFS.len() {
                    continue;
                }
                let e = global_program(DEFS[df], ds[dc], &seqs[u]);
                n += 1;
                if sample.is_null() {
                    sample = json!({"group": g, "label": e.label, "text": e.text});
                }
                judge(&e, g, &mut hist, &mut bads, json!({"g": g, "quick": quick, "lo": idx, "hi": idx + 1}));
            }
        }
        "fn" | "sub" => {
            for idx in lo..hi {
                let b = idx % 6;
                let a = (idx / 6) % 6;
                let df = (idx / 36) % 6;
                let kind = idx / 216;
                if kind > 6 || (g == "fn" && kind > 4) {
                    continue;
                }
                let e = if g == "fn" { fn_program(kind, DEFS[df], a, b) } else { sub_program(kind, DEFS[df], a, b) };
                if let Some(e) = e {
                    n += 1;
                    if sample.is_null() {
                        sample = json!({"group": g, "label": e.label, "text": e.text});
                    }
                    judge(&e, g, &mut hist, &mut bads, json!({"g": g, "quick": quick, "lo": idx, "hi": idx + 1}));
                }
            }
        }
        _ => {}
    }
    json!({"n": n, "nontrivial": n, "hist": hist, "bad": bads, "sample": sample})
}

pub fn drive(tier: &str) -> i32 {
    let quick = tier == "quick";
    let mut run = Run::new("C13", tier);
    run.crash_is_violation = true;
    let mut pool = Pool::new("C13");
    pool.timeout_ms = 120_000;
    let mut cases = vec![];
    let mut plan = vec![];
    let totals = [
        ("deftype", def_configs(quick).len()),
        ("global", DEFS.len() * decls().len() * use_sequences(if quick { 2 } else { 3 }).len()),
        ("sub", 7 * 216),
        ("fn", 5 * 216),
        ("late", 1),
        ("late2", 1),
        ("longnames", 1),
        ("arrays", array_programs().len()),
    ];
    for (g, t) in totals {
        let chunk = if g == "deftype" { 20 } else { 150 };
        let mut lo = 0;
        while lo < t {
            cases.push(json!({"g": g, "quick": quick, "lo": lo, "hi": (lo + chunk).min(t)}));
            lo += chunk;
        }
        plan.push(json!({"group": g, "programs": t}));
    }
    let total_cases = cases.len();
    let cap = run.wall_cap_s;
    let t0 = run.reporter.start;
    let it = cases.into_iter().take_while(|_| t0.elapsed().as_secs_f64() < cap);
    run.run_pool(&pool, it, |_, _, _, _| {});
    if (run.cases as usize) < total_cases {
        run.capped = true;
    }
    let mut ev = Evidence::new("exploration");
    ev.set("rule", "deftype: every DEFINT / DEFLNG / DEFSNG / DEFDBL / DEFSTR statement over every single letter and every range with ends in {A, B, M, Y, Z} (thorough: all 325 ranges), lower / mixed case of keyword and range ends, two ranges in one statement and a later statement overriding an earlier one; each program assigns the five suffixed variables of a name starting with each of the 26 letters and prints the bare name (in another letter case): the model's 26-entry default table predicts which one it is. late: a DEFtype statement after the first use of a bare name (the name keeps its earlier default, names first used afterwards have the new one, also inside a SUB that follows). late2: the same bare name used 1..3 times before a DEFtype statement and again after it (it then denotes the variable of the new default type; a following DEFSNG switches back). longnames: identifiers of 1 .. 40 characters (variable, string variable, DIM SHARED variable, CONST, SUB, FUNCTION, label) spelled in another letter case at the first, middle, 31st .. 34th or last position or everywhere. arrays: a scalar and an array of the same base name and different types (each of the 6 spellings for both, under every default type, the array DIMmed / REDIMmed / REDIMmed twice, either one first) are different variables. global: default type of the first letter (none or one of 5 DEFtype statements) x declaration (none, DIM name AS each of 5 types, DIM with each of the 6 spellings) x every sequence of 1..2 (thorough 3) assignments through the 6 spellings (bare and five suffixes) in rotating letter case: the model predicts the first spelling the checker must reject (after DIM AS type only the bare name and the matching suffix are legal) or, if none, the value each spelling prints. sub: an unshared global against a local of the same spelling, against a local declared AS each type and against a parameter declared AS each type; DIM SHARED with each spelling while another spelling is used first in the SUB; DIM SHARED AS type against each spelling; a global CONST read and assigned in a SUB; a parameter in each spelling with another spelling used first — each under every default type. fn: a FUNCTION declared with each spelling and called with each spelling (the same function iff the types agree), its result assigned twice through each spelling of the same type (the last value counts) and through every other spelling (not decided by the rules: any BASIC-level outcome, no internal failure), a parameter in each spelling given a variable of each type by reference, a parameter declared AS each type used through each spelling inside — each under every default type.");
    ev.set("exhaustive", !run.capped);
    ev.set("plan", json!(plan));
    ev.set("distinct_nontrivial", run.nontrivial);
    ev.assume("only configurations whose outcome follows from the rules stated in the property and the README are generated: DIM after a use, CONST next to variables of the same base name, SUB / FUNCTION names equal to variable names are left to C08's crash-freedom oracle");
    run.finish(ev)
}
