//! C04 — arrays, records and fixed-length strings change only where they are written.

use serde_json::{Value, json};
use vcore::Evidence;
use vcore::gast::Prog;
use vcore::gen04::{ELEMS, big_programs, bypassed_dim_programs, fill_program, fixed_string_programs, implicit_index_program, isolation_programs, redim_in_sub_programs, redim_programs, probe_programs, shapes, typed_index_program};
use vcore::gprint::print_default;

use super::Run;
use super::c01::differential;
use crate::bind::{RunOpts, run_pipeline};
use crate::pool::Pool;

fn programs(kind: &str, dims: usize) -> Vec<(Prog, String, String)> {
    let mut out = vec![];
    match kind {
        "fill" => {
            for s in shapes(dims).into_iter().filter(|s| s.dims.len() == dims) {
                for e in ELEMS {
                    out.push((fill_program(&s, e), String::new(), format!("fill {:?} {:?}", s.dims, e)));
                }
            }
        }
        "fill3" => {
            // quick tier: the 27 three-dimensional extents with the lower bounds (-2, 0, 1)
            for s in shapes(3).into_iter().filter(|s| s.dims.len() == 3 && s.explicit && s.dims.iter().map(|d| d.0).collect::<Vec<_>>() == vec![-2, 0, 1]) {
                for e in [ELEMS[0], ELEMS[4]] {
                    out.push((fill_program(&s, e), String::new(), format!("fill {:?} {:?}", s.dims, e)));
                }
            }
        }
        "probe" => {
            for s in shapes(dims).into_iter().filter(|s| s.dims.len() == dims && s.explicit) {
                for (i, p) in probe_programs(&s).into_iter().enumerate() {
                    out.push((p, String::new(), format!("probe {:?} #{}", s.dims, i)));
                }
            }
        }
        "iso" => {
            for s in shapes(dims).into_iter().filter(|s| s.dims.len() == dims && s.explicit) {
                for e in ELEMS {
                    for (i, p) in isolation_programs(&s, e).into_iter().enumerate() {
                        out.push((p, String::new(), format!("isolation {:?} {:?} #{}", s.dims, e, i)));
                    }
                }
            }
        }
        "redim" => {
            for (p, label) in redim_programs() {
                out.push((p, String::new(), label));
            }
            for (p, label) in redim_in_sub_programs() {
                out.push((p, String::new(), label));
            }
        }
        "big" => {
            for (p, label) in big_programs() {
                out.push((p, String::new(), label));
            }
        }
        "bypass" => {
            for (p, label) in bypassed_dim_programs() {
                out.push((p, String::new(), label));
            }
            for (p, label) in vcore::gen04::late_dim_programs() {
                out.push((p, String::new(), label));
            }
        }
        "fix" => {
            for (i, (p, stdin)) in fixed_string_programs().into_iter().enumerate() {
                out.push((p, stdin, format!("fixed string #{}", i)));
            }
            for c in vcore::gen03::multi_element_programs() {
                out.push((c.prog, String::new(), c.label));
            }
            // stores through by-reference array elements in nested calls change those elements and nothing else
            for c in vcore::gen03::forwarding_programs().into_iter().filter(|c| c.label.contains("element")) {
                out.push((c.prog, String::new(), c.label));
            }
            out.push((typed_index_program(), String::new(), "typed subscripts".into()));
            out.push((implicit_index_program(), String::new(), "subscripts that are variables first used there".into()));
        }
        _ => {}
    }
    out
}

pub fn worker(case: &Value) -> Value {
    if case["axis"].as_str() == Some("text") {
        let opts = RunOpts { stdin: case["stdin"].as_str().unwrap_or("").as_bytes().to_vec(), ..RunOpts::default() };
        let o = run_pipeline(case["text"].as_str().unwrap_or(""), &opts);
        return json!({"n": 1, "bad": [], "observed": {"stdout": o.stdout_str(), "end": format!("{:?}", o.end)}});
    }
    let kind = case["k"].as_str().unwrap_or("");
    let dims = case["dims"].as_u64().unwrap_or(1) as usize;
    let lo = case["lo"].as_u64().unwrap() as usize;
    let hi = case["hi"].as_u64().unwrap() as usize;
    let all = programs(kind, dims);
    let mut bads = vec![];
    let mut n = 0u64;
    let mut nontrivial = 0u64;
    let mut hist: std::collections::BTreeMap<String, u64> = Default::default();
    let mut sample = Value::Null;
    for (prog, stdin, label) in all.iter().skip(lo).take(hi - lo) {
        let (class, nt, bad) = differential(prog, stdin.as_bytes(), kind);
        n += 1;
        *hist.entry(class).or_insert(0) += 1;
        if nt || kind == "probe" {
            nontrivial += 1;
        }
        if sample.is_null() {
            sample = json!({"kind": kind, "label": label, "text": print_default(prog).text});
        }
        if let Some((sig, msg, text)) = bad
            && bads.len() < 25
        {
            bads.push(json!({
                "sig": format!("C04|{}|{}", sig, label),
                "summary": format!("{} — {} — program: {:?}", msg, label, super::truncate_text(&text, 500)),
                "text": text,
                "stdin": stdin,
                "case": {"axis": "text", "text": text, "stdin": stdin},
            }));
        }
    }
    json!({"n": n, "nontrivial": nontrivial, "hist": hist, "bad": bads, "sample": sample})
}

pub fn drive(tier: &str) -> i32 {
    let quick = tier == "quick";
    let mut run = Run::new("C04", tier);
    run.crash_is_violation = true;
    let mut pool = Pool::new("C04");
    pool.timeout_ms = 60_000;
    let mut cases = vec![];
    let mut plan = vec![];
    let max_dims = if quick { 2 } else { 3 };
    for kind in ["fix", "redim", "bypass", "big", "fill", "probe", "iso"] {
        for dims in 1..=max_dims {
            if (kind == "fix" || kind == "redim" || kind == "bypass" || kind == "big") && dims > 1 {
                continue;
            }
            if kind == "iso" && dims > 2 {
                continue;
            }
            let total = programs(kind, dims).len();
            let chunk = if kind == "big" { 4 } else { 20 };
            let mut lo = 0;
            while lo < total {
                cases.push(json!({"k": kind, "dims": dims, "lo": lo, "hi": (lo + chunk).min(total)}));
                lo += chunk;
            }
            plan.push(json!({"kind": kind, "dimensions": dims, "programs": total}));
        }
    }
    if quick {
        let total = programs("fill3", 3).len();
        let mut lo = 0;
        while lo < total {
            cases.push(json!({"k": "fill3", "dims": 3, "lo": lo, "hi": (lo + 10).min(total)}));
            lo += 10;
        }
        plan.push(json!({"kind": "fill (3 dimensions, lower bounds -2/0/1, all 27 extents, INTEGER and STRING elements)", "dimensions": 3, "programs": total}));
    }
    let total_cases = cases.len();
    let cap = run.wall_cap_s;
    let t0 = run.reporter.start;
    let it = cases.into_iter().take_while(|_| t0.elapsed().as_secs_f64() < cap);
    run.run_pool(&pool, it, |_, _, _, _| {});
    if (run.cases as usize) < total_cases {
        run.capped = true;
    }
    // history independence: the fixed-string / by-reference, isolation and fill programs after each disturbing prefix
    let mut dtexts: Vec<String> = vec![];
    for (kind, dims) in [("fix", 1), ("iso", 1), ("fill", 1), ("fill", 2), ("redim", 1)] {
        for (prog, _, _) in programs(kind, dims) {
            dtexts.push(vcore::gprint::print_default(&prog).text);
        }
    }
    let dgroup = super::disturbw::run_group(&mut run, &pool, &dtexts, if quick { 6 } else { 1 }, false);
    let mut ev = Evidence::new("exploration");
    ev.set("groups", json!([dgroup]));
    ev.assume(super::disturbw::ASSUMPTION);
    ev.set("rule", "array shapes: every combination of 1..2 (thorough: 3) dimensions with lower bound in {-2, 0, 1} and extent in {1, 2, 3}, with explicit 'lo TO hi' and (for lower bound 0) without; element types INTEGER, LONG, SINGLE, DOUBLE, STRING, STRING*3 and a record with an INTEGER, a STRING*2 and a nested record. fill: distinct value into every cell in row-major then reverse order, full read-back, LBOUND/UBOUND of every dimension. probe: for every face of the box one index just outside with the others at a corner, read and write (Subscript out of range at the right row), corners inside the box accepted. iso: for boxes of <= 6 cells every ordered pair of writes with a full dump after each. fix: STRING*1 and STRING*3 as variable, record field and array element, assigned strings of length 0..5 directly, through a by-reference $ parameter, by READ, by LINE INPUT and by concatenation, checked with LEN and bracketed PRINT; several array elements, fields of record elements and matrix elements with variable subscripts passed by reference in one call (each write-back lands in its own element);  subscripts of types & ! #; subscripts that are variables first used in the subscript, in plain, record, nested-record and fixed-string element paths. redim: dynamic arrays REDIMmed from one layout to another (shifted lower bound, changed extent of the first or of a later dimension, transposed, the same), every cell written before and after, the first access after the REDIM with the subscripts used last before it, a cell of the old layout that is gone (Subscript out of range); REDIM inside a SUB of an array the module SHARED (the module and the other subprograms see the new bounds and cells) and of a name that is not shared (a local array). big: 18 shapes far beyond that box (vectors of 10 .. 257 cells, lower bounds -128 and 1000, matrices up to 16 x 16 and 2 x 130 / 130 x 2, cubes, 4, 5 and 6 dimensions) — literal fill / read-back for boxes of <= 300 cells, a fill by nested FOR loops with variable subscripts checked cell by cell in the opposite loop order (row-major position recomputed from the subscripts), a probe at every face. bypass: a DIM that control flow goes past without executing it (GOTO over it; in an IF / CASE branch not taken; in a WHILE / FOR body never entered; baseline: executed), in the main module and in a SUB called twice: static arrays (1 and 2 dimensions, elements INTEGER, STRING, records, STRING*3) and records exist and behave as declared, arrays with a computed bound and REDIMmed arrays do not exist yet (Subscript out of range), and the AS types of scalars declared next to them apply; also a DIM SHARED that stands after the first call of a SUB which writes / reads the variable, and a DIM statement whose first variable fails under ON ERROR RESUME NEXT before the record / static array next to it. Each program is judged by the reference semantics; non-trivial = every statement executed (probes: always). History independence: the fix / iso / fill / redim programs run after each disturbing prefix (a run-time error trapped while by-reference values wait to be copied back, in the middle of an argument list, ...; see the group) must print and end as they do alone.");
    ev.set("exhaustive", !run.capped);
    ev.set("plan", json!(plan));
    ev.assume("the content of a fixed-length string before its first assignment is not read");
    run.finish(ev)
}
