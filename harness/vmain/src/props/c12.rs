//! C12 — the static checker is sound for types and its verdicts are stable.
//! (a) every typed expression of a bounded space in every syntactic position: accepted programs
//! are executed and must not raise Type mismatch; ill-kinded ones must be rejected in the
//! statement that holds them; (b) ill-formed calls of user-defined and built-in functions at every
//! position; (c) consistent renaming of user identifiers keeps the verdict; (d) single ill-forming
//! edits of accepted corpus programs are rejected in the edited statement.

use std::collections::{BTreeMap, BTreeSet};

use serde_json::{Value, json};
use vcore::Evidence;
use vcore::btok::{Tok, TokKind, join, split_lines, tokenize};
use vcore::outcome::End;

use super::{Run, truncate_text};
use crate::bind::{RunOpts, run_pipeline};
use crate::corpus::{harvest, repo_root};
use crate::pool::Pool;

#[derive(Clone, Copy, PartialEq, Debug)]
enum Kind {
    Num,
    Str,
    Bad,
}

const PRELUDE: &str = "TYPE Rec\nCode AS STRING * 4\nN AS INTEGER\nEND TYPE\nDECLARE FUNCTION FI% (K%)\nDECLARE FUNCTION FS$ (S$)\nDECLARE SUB PI (K%)\nDECLARE SUB PS (S$)\nDECLARE SUB PI2 (A%, K%)\nDIM FX AS STRING * 4\nDIM R AS Rec\nDIM AI%(3)\nDIM AS$(3)\nDIM AF(3) AS STRING * 4\nDIM AR(3) AS Rec\nI% = 1\nL& = 2\nS! = 1.5\nD# = 2.5\nT$ = \"ab\"\nFX = \"wxyz\"\nR.Code = \"abcd\"\nR.N = 3\nAI%(1) = 1\nAS$(1) = \"x\"\nAF(1) = \"q\"\n";
const EPILOGUE: &str = "PRINT \"done\"\nEND\nFUNCTION FI% (K%)\nFI% = K% + 1\nEND FUNCTION\nFUNCTION FS$ (S$)\nFS$ = S$ + \"!\"\nEND FUNCTION\nSUB PI (K%)\nPRINT K%\nEND SUB\nSUB PS (S$)\nPRINT S$\nEND SUB\nSUB PI2 (A%, K%)\nPRINT A%; K%\nEND SUB\n";

const OPERANDS: [(&str, Kind); 20] = [
    ("1", Kind::Num),
    ("\"s\"", Kind::Str),
    ("I%", Kind::Num),
    ("R", Kind::Bad),
    // functions that are not defined evaluate to 0 / an empty string
    ("NOF(1)", Kind::Num),
    ("NOF$(1)", Kind::Str),
    ("T$", Kind::Str),
    ("FX", Kind::Str),
    ("R.Code", Kind::Str),
    ("D#", Kind::Num),
    ("AF(1)", Kind::Str),
    ("FI%(1)", Kind::Num),
    ("FS$(\"a\")", Kind::Str),
    ("L&", Kind::Num),
    ("S!", Kind::Num),
    ("R.N", Kind::Num),
    ("AI%(1)", Kind::Num),
    ("AS$(1)", Kind::Str),
    ("LEN(T$)", Kind::Num),
    ("CHR$(65)", Kind::Str),
];

const BINOPS: [&str; 13] = ["+", "-", "*", "/", "MOD", "AND", "OR", "<", "<=", "=", ">=", ">", "<>"];

fn bin_kind(op: &str, a: Kind, b: Kind) -> Kind {
    match (a, b) {
        (Kind::Num, Kind::Num) => Kind::Num,
        (Kind::Str, Kind::Str) => match op {
            "+" => Kind::Str,
            "<" | "<=" | "=" | ">=" | ">" | "<>" => Kind::Num,
            _ => Kind::Bad,
        },
        _ => Kind::Bad,
    }
}

/// (name, lines with @ for the expression, index of the line that holds @, kind the position needs: None = any)
const CONTEXTS: [(&str, &str, usize, Option<Kind>); 66] = [
    ("assignment to DOUBLE", "X# = @", 0, Some(Kind::Num)),
    ("assignment to STRING", "X$ = @", 0, Some(Kind::Str)),
    ("PRINT list", "PRINT 1; @; 2", 0, None),
    ("parentheses", "PRINT (@)", 0, None),
    ("IF condition", "IF @ THEN PRINT \"t\"", 0, Some(Kind::Num)),
    ("WHILE condition", "WHILE (@) AND 0\nWEND", 0, Some(Kind::Num)),
    ("SELECT subject", "SELECT CASE @\nCASE ELSE\nEND SELECT", 0, None),
    ("CASE of a numeric SELECT", "SELECT CASE 1\nCASE @\nEND SELECT", 1, Some(Kind::Num)),
    ("CASE of a string SELECT", "SELECT CASE \"a\"\nCASE \"b\" TO \"c\", @\nEND SELECT", 1, Some(Kind::Str)),
    ("FOR limit", "FOR Q% = 1 TO (@) AND 1\nNEXT", 0, Some(Kind::Num)),
    ("array subscript", "AI%((@) AND 1) = 7", 0, Some(Kind::Num)),
    ("by-value argument of a SUB (INTEGER)", "PI (@)", 0, Some(Kind::Num)),
    ("by-value argument of a SUB (STRING)", "PS (@)", 0, Some(Kind::Str)),
    ("argument of a FUNCTION (INTEGER) in a subscript", "PRINT AI%(FI%((@) AND 1) - 1)", 0, Some(Kind::Num)),
    ("argument of a FUNCTION (STRING)", "PRINT FS$(@)", 0, Some(Kind::Str)),
    ("argument of a built-in", "PRINT LEN((@) + \"\")", 0, Some(Kind::Str)),
    ("array subscript (bare)", "PRINT AS$(@)", 0, Some(Kind::Num)),
    ("array bound", "DIM ZY(0 TO @)", 0, Some(Kind::Num)),
    ("FOR start", "FOR Q# = @ TO 0\nNEXT", 0, Some(Kind::Num)),
    ("FOR step", "FOR Q# = 1 TO 0 STEP @\nNEXT", 0, Some(Kind::Num)),
    ("DO UNTIL condition", "DO\nLOOP UNTIL (@) OR 1", 1, Some(Kind::Num)),
    ("subscript of an array of records (read)", "PRINT AR(@).N", 0, Some(Kind::Num)),
    ("subscript of an array of records (assignment target)", "AR(@).N = 7", 0, Some(Kind::Num)),
    ("ELSEIF condition", "IF 0 THEN\nELSEIF @ THEN\nPRINT \"t\"\nEND IF", 1, Some(Kind::Num)),
    ("single-line IF condition with ELSE", "IF @ THEN PRINT \"t\" ELSE PRINT \"f\"", 0, Some(Kind::Num)),
    ("CASE IS", "SELECT CASE 1\nCASE IS > @\nEND SELECT", 1, Some(Kind::Num)),
    ("CASE range, low end", "SELECT CASE 1\nCASE @ TO 9\nEND SELECT", 1, Some(Kind::Num)),
    ("CASE range, high end", "SELECT CASE 1\nCASE 0 TO @\nEND SELECT", 1, Some(Kind::Num)),
    ("PRINT USING value", "PRINT USING \"###\"; @", 0, None),
    ("PRINT USING format", "PRINT USING @; 1", 0, Some(Kind::Str)),
    ("LPRINT list", "LPRINT @", 0, None),
    ("array lower bound", "DIM ZX(@ TO 9)", 0, Some(Kind::Num)),
    ("REDIM bound", "REDIM ZR(@)", 0, Some(Kind::Num)),
    ("second subscript", "DIM Z2(3, 3)\nZ2(1, (@) AND 1) = 1", 1, Some(Kind::Num)),
    ("nested subscript", "PRINT AI%(AI%((@) AND 1))", 0, Some(Kind::Num)),
    ("READ target subscript", "DATA 5\nREAD AI%((@) AND 1)", 1, Some(Kind::Num)),
    ("INPUT target subscript", "INPUT AI%((@) AND 1)", 0, Some(Kind::Num)),
    ("record field target (INTEGER)", "R.N = @", 0, Some(Kind::Num)),
    ("record field target (STRING * 4)", "R.Code = @", 0, Some(Kind::Str)),
    ("fixed-length string target", "FX = @", 0, Some(Kind::Str)),
    ("INTEGER target", "I% = (@) AND 1", 0, Some(Kind::Num)),
    ("field of an array-of-records element target", "AR(1).N = @", 0, Some(Kind::Num)),
    ("string array element target", "AS$(2) = @", 0, Some(Kind::Str)),
    ("GET record number", "OPEN \"r.dat\" FOR RANDOM AS #1 LEN = 4\nFIELD #1, 4 AS RF$\nGET #1, ((@) AND 1) + 1\nCLOSE", 2, Some(Kind::Num)),
    ("PUT record number", "OPEN \"r.dat\" FOR RANDOM AS #1 LEN = 4\nFIELD #1, 4 AS RF$\nPUT #1, ((@) AND 1) + 1\nCLOSE", 2, Some(Kind::Num)),
    ("FIELD width", "OPEN \"r.dat\" FOR RANDOM AS #1 LEN = 4\nFIELD #1, ((@) AND 3) + 1 AS RF$\nCLOSE", 1, Some(Kind::Num)),
    ("LSET value", "OPEN \"r.dat\" FOR RANDOM AS #1 LEN = 4\nFIELD #1, 4 AS RF$\nLSET RF$ = @\nCLOSE", 2, Some(Kind::Str)),
    ("OPEN file name", "OPEN @ FOR OUTPUT AS #1\nCLOSE", 0, Some(Kind::Str)),
    ("OPEN record length", "OPEN \"r.dat\" FOR RANDOM AS #1 LEN = ((@) AND 7) + 1\nCLOSE", 0, Some(Kind::Num)),
    ("KILL name", "KILL @", 0, Some(Kind::Str)),
    ("NAME old name", "NAME @ AS \"zz\"", 0, Some(Kind::Str)),
    ("LOCATE row", "LOCATE ((@) AND 1) + 1, 1", 0, Some(Kind::Num)),
    ("COLOR", "COLOR (@) AND 7, 0", 0, Some(Kind::Num)),
    ("VIEW PRINT", "VIEW PRINT ((@) AND 1) + 1 TO 5", 0, Some(Kind::Num)),
    ("DEF SEG", "DEF SEG = (@) AND 0", 0, Some(Kind::Num)),
    ("POKE value", "POKE VARPTR(I%), (@) AND 255", 0, Some(Kind::Num)),
    ("PEEK address", "PRINT PEEK(VARPTR(I%) + ((@) AND 1))", 0, Some(Kind::Num)),
    ("ENVIRON", "ENVIRON @", 0, Some(Kind::Str)),
    ("DO WHILE condition (top)", "DO WHILE (@) AND 0\nLOOP", 0, Some(Kind::Num)),
    ("LOOP WHILE condition (bottom)", "DO\nLOOP WHILE (@) AND 0", 1, Some(Kind::Num)),
    ("by-value argument after a by-reference one", "PI2 I%, (@)", 0, Some(Kind::Num)),
    ("operand of string concatenation", "PRINT \"<\" + (@) + \">\"", 0, Some(Kind::Str)),
    ("operand of unary minus in a subscript", "PRINT AI%(-(@) AND 1)", 0, Some(Kind::Num)),
    ("argument of a FUNCTION that is an argument of a SUB", "PI FI%((@) AND 1)", 0, Some(Kind::Num)),
    ("INPUT # target subscript", "OPEN \"i.txt\" FOR OUTPUT AS #1\nPRINT #1, 1\nCLOSE\nOPEN \"i.txt\" FOR INPUT AS #1\nINPUT #1, AI%((@) AND 1)\nCLOSE", 4, Some(Kind::Num)),
    ("LINE INPUT target subscript", "LINE INPUT AS$((@) AND 1)", 0, Some(Kind::Num)),
];

/// the first positions get every binary operator
const CORE_CONTEXTS: usize = 23;

struct Gen {
    nops: usize,
}

impl Gen {
    fn exprs(&self) -> Vec<(String, Kind)> {
        let mut out = vec![];
        for (t, k) in OPERANDS.iter().take(self.nops) {
            out.push((t.to_string(), *k));
            out.push((format!("-{}", t), if *k == Kind::Num { Kind::Num } else { Kind::Bad }));
            out.push((format!("NOT {}", t), if *k == Kind::Num { Kind::Num } else { Kind::Bad }));
        }
        for (a, ka) in OPERANDS.iter().take(self.nops) {
            for (b, kb) in OPERANDS.iter().take(self.nops) {
                for op in BINOPS {
                    out.push((format!("{} {} {}", a, op, b), bin_kind(op, *ka, *kb)));
                }
            }
        }
        out
    }
}

fn lint_kind(e: &End) -> Option<(String, u32)> {
    match e {
        End::LintError { kind, row, .. } => Some((kind.clone(), *row)),
        _ => None,
    }
}

fn is_type_family(kind: &str) -> bool {
    kind == "TypeMismatch" || kind == "ArgumentTypeMismatch"
}

struct Acc {
    hist: BTreeMap<String, u64>,
    bads: Vec<Value>,
}

impl Acc {
    fn hit(&mut self, k: &str) {
        *self.hist.entry(k.to_string()).or_insert(0) += 1;
    }

    fn bad(&mut self, sig: String, msg: String, text: String, replay: Value) {
        self.hit("differ");
        if self.bads.len() < 40 {
            self.bads.push(json!({"sig": sig, "summary": msg, "text": text, "case": replay}));
        }
    }
}

/// Statements that convert external data are outside the soundness claim.
fn converts_external_data(line: &str) -> bool {
    let u = line.to_ascii_uppercase();
    u.contains("READ") || u.contains("INPUT") || u.contains("USING")
}

/// The soundness oracle on one outcome.
fn unsound(text: &str, o: &vcore::outcome::Outcome) -> Option<String> {
    match &o.end {
        End::RuntimeError { code: Some(13), rows, .. } => {
            let lines = split_lines(text);
            let line = rows.first().and_then(|r| lines.get(*r as usize - 1)).cloned().unwrap_or_default();
            if converts_external_data(&line) { None } else { Some(format!("accepted, then Type mismatch at run time in {:?}", line.trim())) }
        }
        // an unimplemented feature (todo!()) is not a type error; C08 reports it
        End::Panic { msg, .. } if msg.contains("not yet implemented") || msg.contains("not implemented") => None,
        End::Panic { msg, .. } => Some(format!("accepted, then the interpreter panicked: {}", truncate_text(msg, 120))),
        _ => None,
    }
}

fn typed_case(ctx: usize, expr: &str, kind: Kind, acc: &mut Acc, replay: Value) {
    let (cname, tpl, line_idx, need) = CONTEXTS[ctx];
    let body = tpl.replace('@', expr);
    let text = format!("{}{}\n{}", PRELUDE, body, EPILOGUE);
    let row = PRELUDE.matches('\n').count() as u32 + 1 + line_idx as u32;
    let well_kinded = kind != Kind::Bad && need.map(|n| n == kind).unwrap_or(true);
    let o = run_pipeline(&text, &RunOpts { budget: 200_000, ..RunOpts::default() });
    match lint_kind(&o.end) {
        Some((k, r)) => {
            if well_kinded {
                // stricter than the model: not a violation of the property, counted
                acc.hit(&format!("rejected-although-well-kinded:{}", k));
                return;
            }
            if !is_type_family(&k) {
                acc.bad(format!("C12|typed|{}|rejected-with-{}", cname, k), format!("{} with `{}`: rejected with {} instead of a type error", cname, expr, k), text, replay);
            } else if r != row {
                acc.bad(format!("C12|typed|{}|row", cname), format!("{} with `{}`: the statement is on row {}, the error says row {}", cname, expr, row, r), text, replay);
            } else {
                acc.hit("ill-kinded:rejected");
            }
        }
        None => {
            if matches!(o.end, End::ParseError { .. }) {
                acc.hit("not-parsed");
                return;
            }
            if !well_kinded {
                acc.bad(
                    format!("C12|typed|{}|ill-kinded-accepted", cname),
                    format!("{} with the ill-kinded `{}` is accepted (run: {}, output {:?})", cname, expr, o.end.class(), truncate_text(&o.stdout_str(), 60)),
                    text,
                    replay,
                );
                return;
            }
            match unsound(&text, &o) {
                Some(why) => acc.bad(format!("C12|typed|{}|unsound", cname), format!("{} with `{}`: {}", cname, expr, why), text, replay),
                None => {
                    acc.hit(&format!("accepted:{}", o.end.class()));
                    acc.hit(&format!("accepted in position: {}", cname));
                }
            }
        }
    }
}

// ---------------------------------------------------------------------------
// ill-formed calls at every position
// ---------------------------------------------------------------------------

const BAD_CALLS: [(&str, &str, Kind); 9] = [
    ("FI%(1, 2)", "ArgumentCountMismatch", Kind::Num),
    ("FI%(\"x\")", "ArgumentTypeMismatch", Kind::Num),
    ("FI%(T$)", "ArgumentTypeMismatch", Kind::Num),
    ("FI%(L&)", "ArgumentTypeMismatch", Kind::Num),
    ("FS$(1)", "ArgumentTypeMismatch", Kind::Str),
    ("FS$(\"a\", \"b\")", "ArgumentCountMismatch", Kind::Str),
    ("LEN(1, 2)", "ArgumentCountMismatch", Kind::Num),
    ("CHR$(\"a\")", "ArgumentTypeMismatch", Kind::Str),
    ("MID$(1, 1)", "ArgumentTypeMismatch", Kind::Str),
];

/// Two calls of the same subprogram in a row: a valid one, then an invalid one whose arguments have the same
/// static types (by value a LONG expression may be passed for an INTEGER parameter, by reference a LONG variable
/// may not), and the other way round. The invalid call must be rejected wherever it stands.
const CALL_PAIRS: [(&str, &str, &str); 10] = [
    ("PI (L&)", "PI L&", "ArgumentTypeMismatch"),
    ("PI 5 + L&", "PI L&", "ArgumentTypeMismatch"),
    ("PI 7", "PI L&", "ArgumentTypeMismatch"),
    ("PI (D#)", "PI D#", "ArgumentTypeMismatch"),
    ("PS (T$)", "PS I%", "ArgumentTypeMismatch"),
    ("Q% = FI%((L&))", "Q% = FI%(L&)", "ArgumentTypeMismatch"),
    ("Q% = FI%(1)", "Q% = FI%(1, 2)", "ArgumentCountMismatch"),
    ("PI2 I%, (L&)", "PI2 I%, L&", "ArgumentTypeMismatch"),
    ("PI2 I%, (L&)", "PI2 L&, (L&)", "ArgumentTypeMismatch"),
    ("PI 1", "PI 1, 2", "ArgumentCountMismatch"),
];

fn call_pair_case(pair: usize, order: usize, acc: &mut Acc, replay: Value) {
    let (good, bad, family) = CALL_PAIRS[pair];
    // order 0: good, bad; 1: bad, good; 2: good, good, bad; 3: only the good ones (must be accepted)
    let lines: Vec<&str> = match order {
        0 => vec![good, bad],
        1 => vec![bad, good],
        2 => vec![good, good, bad],
        _ => vec![good, good],
    };
    let bad_row = lines.iter().position(|l| *l == bad).map(|i| PRELUDE.matches('\n').count() as u32 + 1 + i as u32);
    let text = format!("{}{}\n{}", PRELUDE, lines.join("\n"), EPILOGUE);
    let o = run_pipeline(&text, &RunOpts { budget: 200_000, ..RunOpts::default() });
    match (bad_row, lint_kind(&o.end)) {
        (Some(row), Some((k, r))) => {
            if k != family && !(family == "ArgumentTypeMismatch" && k == "TypeMismatch") {
                acc.bad(format!("C12|call-pairs|{}|rejected-with-{}", family, k), format!("`{}` after `{}`: rejected with {}, expected {}", bad, good, k, family), text, replay);
            } else if r != row {
                acc.bad(format!("C12|call-pairs|{}|row", family), format!("`{}` is on row {}, the error says row {}", bad, row, r), text, replay);
            } else {
                acc.hit("call-pairs:rejected");
            }
        }
        (Some(_), None) => acc.bad(
            format!("C12|call-pairs|{}|accepted|order{}", family, order),
            format!("the ill-formed call `{}` is accepted when the valid call `{}` stands {} it (run: {})", bad, good, if order == 1 { "after" } else { "before" }, o.end.class()),
            text,
            replay,
        ),
        (None, Some((k, _))) => acc.bad(format!("C12|call-pairs|valid-rejected|{}", k), format!("the valid calls `{}` are rejected with {}", good, k), text, replay),
        (None, None) => acc.hit("call-pairs:valid accepted"),
    }
}

fn call_case(ctx: usize, call: usize, wrap: usize, acc: &mut Acc, replay: Value) {
    let (cname, tpl, line_idx, need) = CONTEXTS[ctx];
    let (ctext, family, kind) = BAD_CALLS[call];
    // the call alone, inside parentheses, as an operand, inside a subscript of an operand
    let expr = match (wrap, kind) {
        (0, _) => ctext.to_string(),
        (1, _) => format!("({})", ctext),
        (2, Kind::Num) => format!("1 + {}", ctext),
        (2, _) => format!("\"a\" + {}", ctext),
        (3, Kind::Num) => format!("AI%({})", ctext),
        (3, _) => format!("AS$(LEN({}))", ctext),
        (4, Kind::Num) => format!("FI%({})", ctext),
        _ => format!("FS$({})", ctext),
    };
    if need.map(|n| n != kind).unwrap_or(false) {
        acc.hit("position-needs-the-other-kind");
        return;
    }
    let body = tpl.replace('@', &expr);
    let text = format!("{}{}\n{}", PRELUDE, body, EPILOGUE);
    let row = PRELUDE.matches('\n').count() as u32 + 1 + line_idx as u32;
    let o = run_pipeline(&text, &RunOpts { budget: 200_000, ..RunOpts::default() });
    match lint_kind(&o.end) {
        Some((k, r)) => {
            let family_ok = k == family || (family == "ArgumentTypeMismatch" && k == "TypeMismatch");
            if !family_ok {
                acc.bad(format!("C12|calls|{}|{}|rejected-with-{}", cname, family, k), format!("{} with `{}`: rejected with {}, expected {}", cname, expr, k, family), text, replay);
            } else if r != row {
                acc.bad(format!("C12|calls|{}|row", cname), format!("{} with `{}`: the statement is on row {}, the error says row {}", cname, expr, row, r), text, replay);
            } else {
                acc.hit("ill-formed-call:rejected");
            }
        }
        None if matches!(o.end, End::ParseError { .. }) => acc.hit("not-parsed"),
        None => acc.bad(
            format!("C12|calls|{}|wrap{}|{}|accepted", cname, wrap, family),
            format!("{} with the ill-formed call `{}` is accepted (then: {}, output {:?})", cname, expr, o.end.class(), truncate_text(&o.stdout_str(), 60)),
            text,
            replay,
        ),
    }
}

// ---------------------------------------------------------------------------
// renaming and single edits of corpus programs
// ---------------------------------------------------------------------------

/// Every word of two or more capital letters in the parser's and linter's sources: never renamed.
fn reserved_words() -> BTreeSet<String> {
    fn walk(dir: &std::path::Path, out: &mut BTreeSet<String>) {
        let Ok(rd) = std::fs::read_dir(dir) else { return };
        for e in rd.flatten() {
            let p = e.path();
            if p.is_dir() {
                walk(&p, out);
            } else if p.extension().map(|x| x == "rs").unwrap_or(false) {
                let Ok(s) = std::fs::read_to_string(&p) else { continue };
                let mut cur = String::new();
                for ch in s.chars().chain(std::iter::once(' ')) {
                    if ch.is_ascii_alphabetic() {
                        cur.push(ch);
                    } else {
                        if cur.len() >= 2 {
                            out.insert(cur.to_ascii_uppercase());
                        }
                        cur.clear();
                    }
                }
            }
        }
    }
    let mut out = BTreeSet::new();
    let root = repo_root();
    walk(&root.join("rusty_parser/src"), &mut out);
    walk(&root.join("rusty_linter/src/built_ins"), &mut out);
    out
}

fn in_data_flags(toks: &[Tok]) -> Vec<bool> {
    let mut flags = vec![false; toks.len()];
    let mut in_data = false;
    for (i, t) in toks.iter().enumerate() {
        match t.kind {
            TokKind::Eol => in_data = false,
            TokKind::Symbol if t.text == ":" => in_data = false,
            TokKind::Word if t.text.eq_ignore_ascii_case("DATA") => {
                in_data = true;
                continue;
            }
            _ => {}
        }
        flags[i] = in_data;
    }
    flags
}

/// Appends `tag` to every component of every user-chosen word (first letter and suffix are kept).
fn rename(text: &str, reserved: &BTreeSet<String>, tag: &str) -> Option<String> {
    let mut toks = tokenize(text);
    let data = in_data_flags(&toks);
    let mut changed = false;
    // the letters of DEFINT A-Z and the like are not identifiers
    let mut def_line = vec![false; toks.len()];
    let mut first_word: Option<bool> = None;
    for (i, t) in toks.iter().enumerate() {
        match t.kind {
            TokKind::Eol => first_word = None,
            TokKind::Symbol if t.text == ":" => first_word = None,
            TokKind::Word if first_word.is_none() => {
                let u = t.text.to_ascii_uppercase();
                first_word = Some(matches!(u.as_str(), "DEFINT" | "DEFLNG" | "DEFSNG" | "DEFDBL" | "DEFSTR"));
            }
            _ => {}
        }
        def_line[i] = first_word.unwrap_or(false);
    }
    for (i, t) in toks.iter_mut().enumerate() {
        if t.kind != TokKind::Word || data[i] || def_line[i] {
            continue;
        }
        let (base, suffix) = match t.text.chars().last() {
            Some(c) if "%&!#$".contains(c) => (&t.text[..t.text.len() - 1], &t.text[t.text.len() - 1..]),
            _ => (t.text.as_str(), ""),
        };
        let parts: Vec<String> = base
            .split('.')
            .map(|p| {
                if p.is_empty() || (p.len() >= 2 && reserved.contains(&p.to_ascii_uppercase())) {
                    p.to_string()
                } else {
                    changed = true;
                    format!("{}{}", p, tag)
                }
            })
            .collect();
        let new = format!("{}{}", parts.join("."), suffix);
        if new.len() > 40 {
            return None;
        }
        t.text = new;
    }
    if changed { Some(join(&toks)) } else { None }
}

/// The default-type class of every first letter (0 = SINGLE by default), from the DEFtype statements of the text.
fn letter_classes(toks: &[vcore::btok::Tok]) -> [u8; 26] {
    let mut cls = [0u8; 26];
    let mut i = 0;
    while i < toks.len() {
        let u = toks[i].text.to_ascii_uppercase();
        let k = match u.as_str() {
            "DEFINT" => 1,
            "DEFLNG" => 2,
            "DEFSNG" => 0,
            "DEFDBL" => 3,
            "DEFSTR" => 4,
            _ => {
                i += 1;
                continue;
            }
        };
        // letter [- letter] {, letter [- letter]} up to the end of the statement
        let mut j = i + 1;
        let mut pending: Option<usize> = None;
        let mut range_from: Option<usize> = None;
        while j < toks.len() && toks[j].kind != TokKind::Eol && !(toks[j].kind == TokKind::Symbol && toks[j].text == ":") && toks[j].kind != TokKind::Comment {
            let t = &toks[j];
            if t.kind == TokKind::Word && t.text.len() == 1 && t.text.chars().all(|c| c.is_ascii_alphabetic()) {
                let l = (t.text.to_ascii_uppercase().as_bytes()[0] - b'A') as usize;
                if let Some(f) = range_from.take() {
                    let (a, b) = if f <= l { (f, l) } else { (l, f) };
                    for x in a..=b {
                        cls[x] = k;
                    }
                    pending = None;
                } else {
                    if let Some(p) = pending {
                        cls[p] = k;
                    }
                    pending = Some(l);
                }
            } else if t.kind == TokKind::Symbol && t.text == "-" {
                range_from = pending.take();
            }
            j += 1;
        }
        if let Some(p) = pending {
            cls[p] = k;
        }
        i = j;
    }
    cls
}

/// Replaces the first letter of every user-chosen word component by the next letter of the alphabet that has
/// the same default type under the text's DEFtype statements (a permutation of the letters inside each class,
/// so the renaming is consistent and injective; the rest of the word, its case and its suffix are kept).
fn rename_first_letters(text: &str, reserved: &BTreeSet<String>) -> Option<String> {
    let mut toks = tokenize(text);
    let data = in_data_flags(&toks);
    let cls = letter_classes(&toks);
    let next_of = |l: usize| -> usize {
        for d in 1..=26 {
            let c = (l + d) % 26;
            if cls[c] == cls[l] {
                return c;
            }
        }
        l
    };
    let mut changed = false;
    let mut def_line = vec![false; toks.len()];
    let mut first_word: Option<bool> = None;
    for (i, t) in toks.iter().enumerate() {
        match t.kind {
            TokKind::Eol => first_word = None,
            TokKind::Symbol if t.text == ":" => first_word = None,
            TokKind::Word if first_word.is_none() => {
                let u = t.text.to_ascii_uppercase();
                first_word = Some(matches!(u.as_str(), "DEFINT" | "DEFLNG" | "DEFSNG" | "DEFDBL" | "DEFSTR"));
            }
            _ => {}
        }
        def_line[i] = first_word.unwrap_or(false);
    }
    for (i, t) in toks.iter_mut().enumerate() {
        if t.kind != TokKind::Word || data[i] || def_line[i] {
            continue;
        }
        let (base, suffix) = match t.text.chars().last() {
            Some(c) if "%&!#$".contains(c) => (&t.text[..t.text.len() - 1], &t.text[t.text.len() - 1..]),
            _ => (t.text.as_str(), ""),
        };
        let mut parts: Vec<String> = vec![];
        for p in base.split('.') {
            let first = p.chars().next();
            if p.is_empty() || (p.len() >= 2 && reserved.contains(&p.to_ascii_uppercase())) || !first.map(|c| c.is_ascii_alphabetic()).unwrap_or(false) {
                parts.push(p.to_string());
                continue;
            }
            let c = first.unwrap();
            let l = (c.to_ascii_uppercase() as u8 - b'A') as usize;
            let n = (b'A' + next_of(l) as u8) as char;
            let n = if c.is_ascii_lowercase() { n.to_ascii_lowercase() } else { n };
            let new = format!("{}{}", n, &p[1..]);
            if new.len() >= 2 && reserved.contains(&new.to_ascii_uppercase()) {
                return None;
            }
            if new != p {
                changed = true;
            }
            parts.push(new);
        }
        t.text = format!("{}{}", parts.join("."), suffix);
    }
    if changed { Some(join(&toks)) } else { None }
}

/// Programs whose verdict depends on the default type of a bare name: under every DEFtype kind and three ranges,
/// a bare variable whose first letter is the first / a middle / the last letter of the range is passed by
/// reference to a parameter of the range's type and used in an operation of that type.
fn deftype_sensitive_programs() -> Vec<String> {
    let mut out = vec![];
    for (kw, sfx, val, op) in [("DEFINT", "%", "2", "K% = K% + 1"), ("DEFLNG", "&", "70000", "K& = K& + 1"), ("DEFDBL", "#", "2.5#", "K# = K# * 2"), ("DEFSTR", "$", "\"ab\"", "K$ = K$ + \"!\""), ("DEFSNG", "!", "1.5", "K! = K! * 2")] {
        for (lo, hi) in [('A', 'Z'), ('M', 'P'), ('B', 'D')] {
            let mid = ((lo as u8 + hi as u8) / 2) as char;
            for first in [lo, mid, hi] {
                let name = format!("{}alue", first.to_ascii_lowercase());
                // DEFSNG on top of a DEFDBL A-Z so that the range matters
                let head = if kw == "DEFSNG" { format!("DEFDBL A-Z\n{} {}-{}\n", kw, lo, hi) } else { format!("{} {}-{}\n", kw, lo, hi) };
                out.push(format!("{}DECLARE SUB Bump (K{})\n{} = {}\nBump {}\nPRINT {}\nEND\nSUB Bump (K{})\n{}\nEND SUB\n", head, sfx, name, val, name, name, sfx, op));
            }
        }
    }
    out.extend(deftype_between_programs().into_iter().map(|(t, _)| t));
    out
}

/// A DEFtype statement BETWEEN subprogram definitions: the parameters, function names and variables written before
/// it keep the default type they had there; what follows it has the new one. (program, expected output)
fn deftype_between_programs() -> Vec<(String, String)> {
    let mut out = vec![];
    for (kw, lit, op, shown) in [("DEFINT", "7", "+ 1", " 8 "), ("DEFLNG", "70000", "+ 1", " 70001 "), ("DEFDBL", "2.5#", "* 2", " 5 "), ("DEFSTR", "\"ab\"", "+ \"!\"", "ab!"), ("DEFSNG", "1.5", "* 2", " 3 ")] {
        for (lo, hi) in [('A', 'Z'), ('M', 'P'), ('T', 'T')] {
            let mid = ((lo as u8 + hi as u8) / 2) as char;
            for first in [lo, mid, hi] {
                let f = first.to_ascii_lowercase();
                let head = if kw == "DEFSNG" { "DEFDBL A-Z\n" } else { "" };
                let range = if lo == hi { format!("{}", lo) } else { format!("{}-{}", lo, hi) };
                out.push((format!(
                    "{head}DECLARE SUB Show ({f}val)\nDECLARE FUNCTION {f}wice ({f}val)\n{f}mount = 2.5\nPRINT \"start\"\nShow {f}mount\nShow 7\nPRINT {f}wice(3); {f}wice({f}mount)\nPRINT Later%(1)\nPRINT \"done\"\nEND\nSUB Show ({f}val)\n  PRINT \"value\"; {f}val * 2\nEND SUB\nFUNCTION {f}wice ({f}val)\n  {f}wice = {f}val * 2\nEND FUNCTION\n{kw} {range}\nFUNCTION Later% (n%)\n  {f}local = {lit}\n  {f}local = {f}local {op}\n  PRINT {f}local\n  Later% = n%\nEND FUNCTION\n",
                    head = head, f = f, kw = kw, range = range, lit = lit, op = op
                ), format!("start\r\nvalue 5 \r\nvalue 14 \r\n 6  5 \r\n{}\r\n 1 \r\ndone\r\n", shown)));
            }
        }
    }
    out
}


/// What is passed WITHOUT parentheses (by reference where the language passes by reference) to every parameter kind:
/// (operand, what it is: 'i' INTEGER storage, 's' string storage (also fixed-length), 'n' storage of another numeric
/// type, '?' a whole record / array under a name without subscripts — the verdict is not modelled, only soundness)
const BYREF_OPERANDS: [(&str, char); 22] = [
    ("I%", 'i'), ("R.N", 'i'), ("AI%(1)", 'i'), ("AR(1).N", 'i'), ("AI%(I%)", 'i'),
    ("T$", 's'), ("FX", 's'), ("R.Code", 's'), ("AS$(1)", 's'), ("AF(1)", 's'), ("AR(1).Code", 's'),
    ("L&", 'n'), ("S!", 'n'), ("D#", 'n'), ("Q", 'n'),
    ("R", '?'), ("AR(1)", '?'), ("AI%", '?'), ("AS$", '?'), ("AF", '?'), ("AR", '?'), ("AI%()", '?'),
];

/// (call with @ for the operand, kind of the parameter that receives it: 'i' INTEGER, 's' STRING)
const BYREF_CALLS: [(&str, char); 8] = [
    ("PI @", 'i'), ("PS @", 's'), ("PI2 I%, @", 'i'), ("PI2 @, 3", 'i'), ("Q% = FI%(@)", 'i'), ("Q$ = FS$(@)", 's'),
    ("CALL PI(@)", 'i'), ("PRINT FI%(@) + FI%(I%)", 'i'),
];

fn byref_case(call: usize, operand: usize, acc: &mut Acc, replay: Value) {
    let (tpl, pk) = BYREF_CALLS[call];
    let (opnd, ok) = BYREF_OPERANDS[operand];
    let line = tpl.replace('@', opnd);
    let text = format!("{}{}\n{}", PRELUDE, line, EPILOGUE);
    let row = PRELUDE.matches('\n').count() as u32 + 1;
    let o = run_pipeline(&text, &RunOpts { budget: 200_000, ..RunOpts::default() });
    let must_accept = ok == pk;
    let must_reject = ok != '?' && ok != pk;
    match lint_kind(&o.end) {
        Some((k, r)) => {
            if must_accept {
                acc.bad(format!("C12|byref|matching-rejected|{}", k), format!("`{}`: storage of the parameter's own type passed by reference is rejected with {}", line, k), text, replay);
            } else if must_reject && !(k == "ArgumentTypeMismatch" || k == "TypeMismatch") {
                acc.bad(format!("C12|byref|rejected-with-{}", k), format!("`{}`: rejected with {} instead of a type error", line, k), text, replay);
            } else if must_reject && r != row {
                acc.bad("C12|byref|row".into(), format!("`{}` is on row {}, the error says row {}", line, row, r), text, replay);
            } else {
                acc.hit(if must_reject { "byref:mismatch rejected" } else { "byref:unmodelled operand rejected" });
            }
        }
        None if matches!(o.end, End::ParseError { .. }) => acc.hit("not-parsed"),
        None => {
            if must_reject {
                acc.bad(format!("C12|byref|mismatch-accepted|{}", ok), format!("`{}`: a variable of another type is accepted for a by-reference parameter (run: {})", line, o.end.class()), text, replay);
            } else if let Some(why) = unsound(&text, &o) {
                acc.bad("C12|byref|unsound".into(), format!("`{}`: {}", line, why), text, replay);
            } else if !matches!(o.end, End::Normal) {
                acc.bad(format!("C12|byref|{}", o.end.class()), format!("`{}`: accepted, ends with {}", line, o.end.class()), text, replay);
            } else {
                acc.hit(if must_accept { "byref:matching accepted and ran" } else { "byref:unmodelled operand accepted and ran" });
            }
        }
    }
}

/// REDIM x(...) AS type followed by a REDIM of the same array that leaves the type out: the array keeps its element
/// type whatever the default type of its name is. (program, expected output)
fn redim_keeps_type_programs() -> Vec<(String, String)> {
    let mut out = vec![];
    for (ty, v1, v2, shown) in [("INTEGER", "2.75", "3.25", " 3  3 "), ("LONG", "70000.25", "70001.25", " 70000  70001 "), ("SINGLE", "1.5", "2.5", " 1.5  2.5 "), ("DOUBLE", "2.25#", "4.25#", " 2.25  4.25 "), ("STRING", "\"alpha\"", "\"gamma\"", "alphagamma")] {
        for head in ["", "DEFINT A-Z\n", "DEFLNG A-Z\n", "DEFDBL A-Z\n", "DEFSTR A-Z\n", "DEFSTR W\n"] {
            for (form, second) in [(0, "REDIM Words(1 TO 3)"), (1, "REDIM Words(-1 TO 4)"), (2, "REDIM SHARED Words(1 TO 3)")] {
                let first = if form == 2 { format!("REDIM SHARED Words(1 TO 2) AS {}", ty) } else { format!("REDIM Words(1 TO 2) AS {}", ty) };
                // (the number of dimensions cannot change: QBasic and the implementation reject that)
                let (c1, c3) = if form == 1 { ("Words(-1)", "Words(4)") } else { ("Words(1)", "Words(3)") };
                let old = "Words(1)";
                out.push((
                    format!("{head}{first}\n{old} = {v1}\nPRINT {old};\n{second}\n{c3} = {v2}\n{c1} = {v1}\nPRINT {c3}\nPRINT \"done\"\n", head = head, first = first, old = old, v1 = v1, second = second, c3 = c3, v2 = v2, c1 = c1),
                    format!("{}\r\ndone\r\n", shown),
                ));
            }
        }
    }
    out
}

fn verdict(o: &vcore::outcome::Outcome) -> String {
    match &o.end {
        End::RuntimeError { code, kind, .. } => format!("runtime:{:?}:{}", code, kind),
        other => other.class(),
    }
}

/// One ill-forming edit: (family of the expected lint error, row of the edited statement, new text)
fn edits(text: &str, reserved: &BTreeSet<String>) -> Vec<(&'static str, &'static str, u32, String)> {
    let toks = tokenize(text);
    let data = in_data_flags(&toks);
    let mut out = vec![];
    // rows of tokens
    let mut row = 1u32;
    let mut rows = vec![0u32; toks.len()];
    for (i, t) in toks.iter().enumerate() {
        rows[i] = row;
        if t.kind == TokKind::Eol {
            row += 1;
        }
    }
    let with = |i: usize, new: &str| -> String {
        let mut t2 = toks.clone();
        t2[i].text = new.to_string();
        join(&t2)
    };
    let next_nonblank = |i: usize| (i + 1..toks.len()).find(|j| toks[*j].kind != TokKind::Blank);
    let prev_nonblank = |i: usize| (0..i).rev().find(|j| toks[*j].kind != TokKind::Blank);
    let user_subs: BTreeSet<String> = toks
        .iter()
        .enumerate()
        .filter(|(_, t)| t.kind == TokKind::Word && t.text.eq_ignore_ascii_case("SUB"))
        .filter_map(|(i, _)| next_nonblank(i).map(|j| toks[j].text.to_ascii_uppercase()))
        .collect();
    for (i, t) in toks.iter().enumerate() {
        if data[i] {
            continue;
        }
        match t.kind {
            TokKind::Number => {
                // E1: a numeric literal next to - * / becomes a string literal
                let after = next_nonblank(i).map(|j| toks[j].text.as_str()).unwrap_or("");
                let before = prev_nonblank(i).map(|j| toks[j].text.as_str()).unwrap_or("");
                if (matches!(after, "*" | "/") || matches!(before, "*" | "/")) && !t.text.starts_with('&') {
                    out.push(("string operand for arithmetic", "TypeMismatch", rows[i], with(i, "\"s\"")));
                }
            }
            TokKind::Word => {
                let up = t.text.to_ascii_uppercase();
                let prev = prev_nonblank(i).map(|j| toks[j].text.to_ascii_uppercase()).unwrap_or_default();
                // E2: the target of GOTO / GOSUB becomes a label that does not exist
                if (prev == "GOTO" || prev == "GOSUB") && !reserved.contains(&up) && t.text != "0" {
                    out.push(("missing label", "LabelNotDefined", rows[i], with(i, "Nowhere9")));
                }
                // E3: NEXT for another counter
                if prev == "NEXT" && !reserved.contains(&up) {
                    out.push(("NEXT for the wrong counter", "NextWithoutFor", rows[i], with(i, "Zq9")));
                }
                // E6: one more argument in a call of a user-defined SUB (statement form)
                if user_subs.contains(&up) {
                    let first_on_line = prev_nonblank(i).map(|j| toks[j].kind == TokKind::Eol || toks[j].text == ":").unwrap_or(true);
                    if first_on_line {
                        // end of the statement: next Eol, colon or comment
                        let mut e = i + 1;
                        let mut has_args = false;
                        let mut ok = true;
                        while e < toks.len() && toks[e].kind != TokKind::Eol {
                            if toks[e].kind == TokKind::Comment || toks[e].text == ":" || toks[e].text == "=" {
                                ok = false;
                                break;
                            }
                            if toks[e].kind != TokKind::Blank {
                                has_args = true;
                            }
                            e += 1;
                        }
                        if ok {
                            let mut t2 = toks.clone();
                            t2.insert(e, Tok { kind: TokKind::Number, text: if has_args { ", 1".into() } else { " 1".into() } });
                            out.push(("wrong argument count", "ArgumentCountMismatch", rows[i], join(&t2)));
                        }
                    }
                }
            }
            _ => {}
        }
    }
    // E4 / E5: a label line or a DIM line duplicated
    let lines = split_lines(text);
    for (k, l) in lines.iter().enumerate() {
        let tr = l.trim();
        let up = tr.to_ascii_uppercase();
        let is_label = tr.ends_with(':') && tr.len() > 1 && tr[..tr.len() - 1].chars().all(|c| c.is_ascii_alphanumeric()) && tr.chars().next().map(|c| c.is_ascii_alphabetic()).unwrap_or(false);
        let is_dim = up.starts_with("DIM ") && !up.contains('\'') && !up.contains(':');
        if is_label || is_dim {
            let mut l2: Vec<String> = lines.clone();
            l2.insert(k + 1, l.clone());
            out.push((if is_label { "duplicate label" } else { "duplicate definition" }, if is_label { "DuplicateLabel" } else { "DuplicateDefinition" }, k as u32 + 2, l2.join("\n")));
        }
    }
    out
}

pub fn worker(case: &Value) -> Value {
    let g = case["g"].as_str().unwrap_or("");
    let mut acc = Acc { hist: BTreeMap::new(), bads: vec![] };
    let mut n = 0u64;
    match g {
        "typed" => {
            let genr = Gen { nops: case["nops"].as_u64().unwrap_or(10) as usize };
            let exprs = genr.exprs();
            for idx in case["lo"].as_u64().unwrap_or(0)..case["hi"].as_u64().unwrap_or(0) {
                let ctx = (idx % CONTEXTS.len() as u64) as usize;
                let e = (idx / CONTEXTS.len() as u64) as usize;
                let Some((text, kind)) = exprs.get(e) else { continue };
                // the positions added later get the operands, the unary forms and four binary operators (one per family)
                if ctx >= CORE_CONTEXTS && BINOPS.iter().any(|op| !matches!(*op, "+" | "<" | "AND" | "MOD") && text.contains(&format!(" {} ", op))) {
                    continue;
                }
                n += 1;
                typed_case(ctx, text, *kind, &mut acc, json!({"g": g, "nops": genr.nops, "lo": idx, "hi": idx + 1}));
            }
        }
        "deftype-between" => {
            for (text, want) in deftype_between_programs() {
                n += 1;
                let o = run_pipeline(&text, &RunOpts { budget: 200_000, ..RunOpts::default() });
                if matches!(o.end, End::Normal) && o.stdout_str() == want {
                    acc.hit("accepted-and-ran-as-written");
                } else {
                    acc.bad(format!("C12|deftype-between|{}", o.end.class()), format!("a DEFtype statement between subprogram definitions changed what stands before it: expected {:?} and a normal end, got {:?} and {}", want, o.stdout_str(), o.end.class()), text, json!({"g": g}));
                }
            }
        }
        "byref" => {
            for call in 0..BYREF_CALLS.len() {
                for operand in 0..BYREF_OPERANDS.len() {
                    n += 1;
                    byref_case(call, operand, &mut acc, json!({"g": g}));
                }
            }
        }
        "redim-type" => {
            for (text, want) in redim_keeps_type_programs() {
                n += 1;
                let o = run_pipeline(&text, &RunOpts { budget: 200_000, ..RunOpts::default() });
                if matches!(o.end, End::Normal) && o.stdout_str() == want {
                    acc.hit("accepted-and-ran-as-written");
                } else {
                    acc.bad(format!("C12|redim-type|{}", o.end.class()), format!("a REDIM without AS after a REDIM ... AS type changed the element type: expected {:?} and a normal end, got {:?} and {}", want, o.stdout_str(), o.end.class()), text, json!({"g": g}));
                }
            }
        }
        "call-pairs" => {
            for pair in 0..CALL_PAIRS.len() {
                for order in 0..4 {
                    n += 1;
                    call_pair_case(pair, order, &mut acc, json!({"g": g}));
                }
            }
        }
        "calls" => {
            for idx in case["lo"].as_u64().unwrap_or(0)..case["hi"].as_u64().unwrap_or(0) {
                let ctx = (idx % CONTEXTS.len() as u64) as usize;
                let rest = idx / CONTEXTS.len() as u64;
                let call = (rest % BAD_CALLS.len() as u64) as usize;
                let wrap = (rest / BAD_CALLS.len() as u64) as usize;
                if wrap > 4 {
                    continue;
                }
                n += 1;
                call_case(ctx, call, wrap, &mut acc, json!({"g": g, "lo": idx, "hi": idx + 1}));
            }
        }
        _ => {
            let reserved = reserved_words();
            for t in case["texts"].as_array().cloned().unwrap_or_default() {
                let text = t.as_str().unwrap_or("");
                let opts = RunOpts { stdin: b"1\n2\n3\n".to_vec(), budget: 200_000, collect_files: true, ..RunOpts::default() };
                let base = run_pipeline(text, &opts);
                let replay = json!({"g": g, "texts": [text]});
                n += 1;
                if let Some(why) = unsound(text, &base) {
                    acc.bad("C12|corpus|unsound".into(), format!("{} — program {:?}", why, truncate_text(text, 300)), text.to_string(), replay.clone());
                }
                // renaming
                for tag in ["Zq", "x9"] {
                    if let Some(r) = rename(text, &reserved, tag) {
                        n += 1;
                        let o = run_pipeline(&r, &opts);
                        if verdict(&o) != verdict(&base) || o.stdout != base.stdout {
                            acc.bad(
                                format!("C12|rename|{}->{}", verdict(&base).split(':').next().unwrap_or(""), verdict(&o).split(':').next().unwrap_or("")),
                                format!("renaming the identifiers changes the verdict: {} / {:?} -> {} / {:?}; original {:?}, renamed {:?}", verdict(&base), truncate_text(&base.stdout_str(), 60), verdict(&o), truncate_text(&o.stdout_str(), 60), truncate_text(text, 240), truncate_text(&r, 240)),
                                r,
                                replay.clone(),
                            );
                        } else {
                            acc.hit("rename:same");
                        }
                    }
                }
                // the first letters rotated inside their default-type class
                if let Some(r) = rename_first_letters(text, &reserved) {
                    n += 1;
                    let o = run_pipeline(&r, &opts);
                    if verdict(&o) != verdict(&base) || o.stdout != base.stdout {
                        acc.bad(
                            format!("C12|rename-first-letter|{}->{}", verdict(&base).split(':').next().unwrap_or(""), verdict(&o).split(':').next().unwrap_or("")),
                            format!("replacing first letters by letters of the same default type changes the verdict: {} / {:?} -> {} / {:?}; original {:?}, renamed {:?}", verdict(&base), truncate_text(&base.stdout_str(), 60), verdict(&o), truncate_text(&o.stdout_str(), 60), truncate_text(text, 240), truncate_text(&r, 240)),
                            r,
                            replay.clone(),
                        );
                    } else {
                        acc.hit("rename-first-letter:same");
                    }
                } else {
                    acc.hit("rename-first-letter:not-applicable");
                }
                // single edits of accepted programs
                if matches!(base.end, End::ParseError { .. } | End::LintError { .. } | End::Panic { .. }) {
                    acc.hit("base-not-accepted");
                    continue;
                }
                for (what, family, row, edited) in edits(text, &reserved) {
                    n += 1;
                    let o = run_pipeline(&edited, &RunOpts { stage: crate::bind::Stage::Lint, ..RunOpts::default() });
                    match lint_kind(&o.end) {
                        Some((k, r)) => {
                            let family_ok = k == family || (family == "TypeMismatch" && k == "ArgumentTypeMismatch");
                            if !family_ok {
                                acc.hit(&format!("edit:{}:rejected-with-{}", what, k));
                                // another rejection is still a rejection; only the located family is checked when it matches
                            } else if r != row {
                                acc.bad(format!("C12|edit|{}|row", what), format!("{}: edited row {}, error {} reported at row {} — {:?}", what, row, k, r, truncate_text(&edited, 300)), edited, replay.clone());
                            } else {
                                acc.hit(&format!("edit:{}:rejected", what));
                            }
                        }
                        None => {
                            if matches!(o.end, End::ParseError { .. }) {
                                acc.hit(&format!("edit:{}:not-parsed", what));
                            } else {
                                acc.bad(format!("C12|edit|{}|accepted", what), format!("{} at row {} is accepted — {:?}", what, row, truncate_text(&edited, 300)), edited, replay.clone());
                            }
                        }
                    }
                }
            }
        }
    }
    let sample = match g {
        "typed" => {
            let genr = Gen { nops: case["nops"].as_u64().unwrap_or(10) as usize };
            let idx = case["lo"].as_u64().unwrap_or(0);
            let (cname, tpl, _, _) = CONTEXTS[(idx % CONTEXTS.len() as u64) as usize];
            genr.exprs().get((idx / CONTEXTS.len() as u64) as usize).map(|(e, k)| json!({"group": g, "position": cname, "expression": e, "kind": format!("{:?}", k), "statement": tpl.replace('@', e)})).unwrap_or(Value::Null)
        }
        "calls" => json!({"group": g, "first_index": case["lo"]}),
        _ => case["texts"].as_array().and_then(|a| a.first()).and_then(|t| t.as_str()).map(|t| json!({"group": g, "text": truncate_text(t, 300)})).unwrap_or(Value::Null),
    };
    json!({"n": n, "nontrivial": n, "hist": acc.hist, "bad": acc.bads, "sample": sample})
}

pub fn drive(tier: &str) -> i32 {
    let quick = tier == "quick";
    let mut run = Run::new("C12", tier);
    run.crash_is_violation = true;
    let mut pool = Pool::new("C12");
    pool.timeout_ms = 120_000;
    let nops = if quick { 10 } else { OPERANDS.len() };
    let nexpr = Gen { nops }.exprs().len();
    let mut cases = vec![];
    // the small judged groups first (a run that is cut short by the wall clock has at least covered them)
    cases.push(json!({"g": "call-pairs"}));
    cases.push(json!({"g": "deftype-between"}));
    cases.push(json!({"g": "byref"}));
    cases.push(json!({"g": "redim-type"}));
    let total = (nexpr * CONTEXTS.len()) as u64;
    let mut lo = 0;
    while lo < total {
        cases.push(json!({"g": "typed", "nops": nops, "lo": lo, "hi": (lo + 300).min(total)}));
        lo += 300;
    }
    let ctotal = (CONTEXTS.len() * BAD_CALLS.len() * 5) as u64;
    let mut lo = 0;
    while lo < ctotal {
        cases.push(json!({"g": "calls", "lo": lo, "hi": (lo + 120).min(ctotal)}));
        lo += 120;
    }
    let total_cases = cases.len();
    let cap = run.wall_cap_s;
    let t0 = run.reporter.start;
    let it = cases.into_iter().take_while(|_| t0.elapsed().as_secs_f64() < cap);
    run.run_pool(&pool, it, |_, _, _, _| {});
    if (run.cases as usize) < total_cases {
        run.capped = true;
    }
    // corpus: renaming and edits
    let mut groups = vec![];
    let h = harvest();
    let harvested: Vec<String> = h.texts.iter().map(|(_, t)| t.clone()).filter(|t| !t.to_ascii_uppercase().contains("INKEY")).collect();
    let extra = json!({"g": "corpus"});
    groups.push(super::run_text_group(&mut run, &pool, "harvested texts: soundness, renaming, single edits", &harvested, 10, &extra));
    let mut progs: Vec<String> = vec![];
    let forests = vcore::gen01::forests(if quick { 2 } else { 3 });
    for f in forests.iter().step_by(if quick { 3 } else { 1 }) {
        progs.push(vcore::gprint::print_default(&vcore::gen01::control_program(f, false)).text);
    }
    groups.push(super::run_text_group(&mut run, &pool, "generated control programs: renaming, single edits", &progs, 20, &extra));
    groups.push(super::run_text_group(&mut run, &pool, "statement templates inside 8 containers (SUB / FUNCTION / STATIC SUB bodies, single-line IF, IF in FOR, CASE, ELSE in WHILE, SUB with shared declarations): soundness, renaming", &vcore::slots::instantiate_in_containers(if quick { &[] } else { &[0] }), 40, &extra));
    groups.push(super::run_text_group(&mut run, &pool, "programs whose verdict depends on the default type of a bare name (5 DEFtype kinds x 3 ranges x first / middle / last letter; the DEFtype statement at the top, or between subprogram definitions)", &deftype_sensitive_programs(), 5, &extra));
    let mut stmts: Vec<String> = vcore::slots::instantiate(if quick { 1 } else { 2 }).into_iter().map(|(_, s)| vcore::slots::program(&s)).collect();
    if quick {
        stmts = stmts.into_iter().step_by(2).collect();
    }
    groups.push(super::run_text_group(&mut run, &pool, "statement templates x operand menu: soundness, renaming", &stmts, 40, &extra));
    let mut ev = Evidence::new("exploration");
    ev.set("rule", "typed: every operand, unary and binary expression (13 operators) over 10 (thorough 18) operands of all kinds (a whole record, literals, variables of every numeric type, strings, fixed-length strings as variable / array element / record member, array elements, user FUNCTION results, built-in results) in 66 syntactic positions (the 23 core positions with all 13 binary operators, the others with + < AND MOD) (assignments to every kind of target, PRINT list, parentheses, IF / WHILE / DO conditions, SELECT subject, CASE lists, FOR start / limit / step, array subscripts and bounds, the subscript of an array-of-records element read and assigned through a field, by-value SUB arguments, FUNCTION arguments inside a subscript, built-in arguments, ELSEIF / single-line IF / DO conditions, CASE IS and both ends of a CASE range, PRINT USING / LPRINT lists, REDIM and lower bounds, second and nested subscripts, subscripts of READ / INPUT / INPUT # / LINE INPUT targets and of a FOR counter, the arguments of the file statements (OPEN name and LEN, FIELD width, LSET value, GET / PUT record number, KILL, NAME) and of LOCATE / COLOR / VIEW PRINT / DEF SEG / POKE / PEEK / ENVIRON): a kind model (numeric / string / ill-kinded) decides which programs must be rejected with a type error in the statement that holds the expression; accepted programs are executed and must not raise Type mismatch (13) nor panic. calls: 9 ill-formed calls of user-defined and built-in functions (argument count, argument type, by-reference type) bare, in parentheses, as an operand, inside a subscript and as an argument, in each of the 66 positions: rejected with the matching error at the statement's row. call-pairs: 10 pairs (a valid call, an ill-formed call of the same subprogram whose arguments have the same static types) in the orders valid-invalid, invalid-valid, valid-valid-invalid: the ill-formed call is rejected at its row whatever precedes it. byref: 22 operands (INTEGER / string / other numeric storage as variable, record member, array element, member of an array-of-records element; whole records, array names without subscripts) passed without parentheses in 8 call forms to INTEGER and STRING parameters: storage of the parameter's type is accepted and runs, storage of another type is rejected with a type error at the row, for whole records / arrays only soundness is judged. redim-type: REDIM x(...) AS each of 5 types, then a REDIM of x that leaves the type out (same lower bound, another lower bound, SHARED) under 6 default-type settings: accepted, and the element type is kept (expected output). corpus: every harvested text, generated control program and statement template is run (soundness oracle outside READ / INPUT / PRINT USING statements), renamed consistently in three ways (every user-chosen word component gets a suffix, first letter and type suffix kept — twice; every first letter replaced by the next letter that has the same default type under the program's DEFtype statements): same verdict and output; every accepted one is edited once at every applicable site (numeric literal next to * or / -> string literal, GOTO / GOSUB target -> missing label, NEXT counter -> another name, label line / DIM line duplicated, one more argument in a SUB call): rejected, and where the error is of the edit's family it is located at the edited row.");
    ev.set("exhaustive", !run.capped);
    ev.set("groups", json!(groups));
    ev.set("plan", json!({"typed_expressions": nexpr, "positions": CONTEXTS.len(), "ill_formed_calls": ctotal}));
    ev.set("distinct_nontrivial", run.nontrivial);
    ev.assume("words of two or more letters that occur in the parser's or the built-in linters' sources are treated as reserved and never renamed");
    ev.assume("a rejection of a well-kinded program is counted, not judged (the property allows a stricter checker)");
    run.finish(ev)
}
