//! C05 — GOTO/GOSUB/RETURN and ON ERROR/RESUME transfer control exactly as written.
//! Every generated statement prints a trace token, so control flow *is* the output;
//! each program is run on the implementation and on the reference model.

use serde_json::{Value, json};
use vcore::Evidence;
use vcore::gast::Prog;
use vcore::gen05::*;
use vcore::gprint::print_default;

use super::Run;
use super::c01::differential_opts;
use crate::bind::{RunOpts, run_pipeline};
use crate::pool::Pool;

fn program(kind: &str, quick: bool, idx: usize) -> Option<(Prog, String, String)> {
    match kind {
        "jump" | "jump-sub" => {
            let all = jump_layouts(quick);
            let (order, acts, entry) = all.get(idx)?.clone();
            let p = jump_program(&order, &acts, entry, kind == "jump-sub");
            Some((p, format!("order {:?} acts {:?} entry {:?}", order, acts, entry), format!("{} blocks", order.len())))
        }
        "escape" => {
            let all = escape_cases();
            let (kinds, target, gosub) = all.get(idx)?.clone();
            Some((escape_program(&kinds, target, gosub), format!("loops {:?} target level {} {}", kinds, target, if gosub { "GOSUB" } else { "GOTO" }), format!("{} from depth {} to level {}", if gosub { "GOSUB" } else { "GOTO" }, kinds.len(), target)))
        }
        "into" => {
            let kind = idx / 4;
            if kind >= INTO_KINDS.len() {
                return None;
            }
            let (in_sub, twice) = (idx % 2 == 1, (idx / 2) % 2 == 1);
            Some((jump_into_program(kind, in_sub, twice), format!("GOTO into {}{}{}", INTO_KINDS[kind], if in_sub { ", inside a SUB" } else { "" }, if twice { ", three times" } else { "" }), format!("{}|{}|{}", INTO_KINDS[kind], in_sub, twice)))
        }
        "fault" => {
            let all = fault_cases();
            let (f, c, p, h, ch) = *all.get(idx)?;
            let prog = fault_program(f, c, p, h, ch)?;
            Some((
                prog,
                format!("{} / {} / position {} / {} / handler changes a variable: {}", FAULTS[f], CONTAINERS[c], p, HANDLERS[h], ch),
                format!("{}|{}|pos{}|{}", FAULTS[f], CONTAINERS[c], p, HANDLERS[h]),
            ))
        }
        "hhist" => {
            let depth = if quick { 4 } else { 6 };
            let ev = handler_history_at(idx as u64, depth);
            if ev.is_empty() {
                return None;
            }
            let names: Vec<&str> = ev.iter().map(|e| HEVENT_NAMES[*e]).collect();
            Some((handler_history_program(&ev), format!("{:?}", names), format!("{:?}", ev)))
        }
        _ => None,
    }
}

fn total(kind: &str, quick: bool) -> usize {
    match kind {
        "jump" | "jump-sub" => jump_layouts(quick).len(),
        "escape" => escape_cases().len(),
        "into" => 4 * INTO_KINDS.len(),
        "fault" => fault_cases().len(),
        "hhist" => handler_history_count(if quick { 4 } else { 6 }) as usize,
        _ => 0,
    }
}

/// See the `callchain` group: (program text, expected stdout).
fn callchain_program(d: usize, g: usize, k: usize, exit: usize) -> (String, String) {
    let mut t = String::new();
    let mut want = String::new();
    t.push_str("DIM SHARED DV%\nON ERROR GOTO Trap\nFOR J% = 1 TO 2\nDV% = 0\n");
    let call_site = "S1\nPRINT \"after call\"\nCont:\nPRINT \"cont\"\n";
    if g == 0 {
        t.push_str(call_site);
    } else {
        t.push_str("GOSUB L1\n");
    }
    t.push_str("PRINT \"back\"; J%\nNEXT\nPRINT \"end\"\nEND\n");
    if g == 1 {
        t.push_str(&format!("L1:\nPRINT \"l1\"\n{}RETURN\n", call_site));
    } else if g == 2 {
        t.push_str(&format!("L1:\nPRINT \"l1\"\nGOSUB L2\nPRINT \"r1\"\nRETURN\nL2:\nPRINT \"l2\"\n{}RETURN\n", call_site));
    }
    t.push_str("Trap:\nPRINT \"t\"; ERR\n");
    t.push_str(["RESUME Cont\n", "RESUME NEXT\n", "DV% = 5\nRESUME\n"][exit]);
    for i in 1..=d {
        t.push_str(&format!("SUB S{}\nPRINT \"s{}\"\n", i, i));
        if k == 1 && i == 1 {
            t.push_str("GOSUB Inner\nPRINT \"s1 done\"\nEXIT SUB\nInner:\n");
        }
        if i < d {
            t.push_str(&format!("S{}\n", i + 1));
        } else {
            t.push_str("Q% = 10 / DV%\nPRINT \"q\"; Q%\n");
        }
        t.push_str(&format!("PRINT \"e{}\"\n", i));
        if k == 1 && i == 1 {
            t.push_str("RETURN\n");
        }
        t.push_str("END SUB\n");
    }
    for j in 1..=2 {
        if g >= 1 {
            want.push_str("l1\r\n");
        }
        if g == 2 {
            want.push_str("l2\r\n");
        }
        for i in 1..=d {
            want.push_str(&format!("s{}\r\n", i));
        }
        want.push_str("t 11 \r\n");
        if exit != 0 {
            want.push_str(if exit == 1 { "q 0 \r\n" } else { "q 2 \r\n" });
            for i in (1..=d).rev() {
                want.push_str(&format!("e{}\r\n", i));
                if k == 1 && i == 1 {
                    want.push_str("s1 done\r\n");
                }
            }
            want.push_str("after call\r\n");
        }
        want.push_str("cont\r\n");
        if g == 2 {
            want.push_str("r1\r\n");
        }
        want.push_str(&format!("back {} \r\n", j));
    }
    want.push_str("end\r\n");
    (t, want)
}


/// `gosubnest` group: pending GOSUBs per activation. A subprogram W (SUB or FUNCTION) enters `p` nested GOSUB routines of
/// its own and leaves them pending (GOTO out of the routines), optionally calls itself `d` levels deep while they are
/// pending, optionally answers its own GOSUBs with `p` RETURNs after the inner call has ended (`r`), and ends; the module
/// calls it from under `g` pending module-level GOSUBs, which are answered afterwards. `fin` 1 adds a RETURN too many at
/// module level, `fin` 2 a bare RETURN in a fresh activation of W: both must be Return without GOSUB (3) at that row,
/// whatever the ended activations left behind. Returns (text, expected stdout, expected error-3 row or None).
fn gosubnest_program(function: bool, g: usize, calls: &[(i32, i32, i32)], fin: usize) -> (String, String, Option<u32>) {
    let mut lines: Vec<String> = vec![];
    let mut want = String::new();
    let mut err_row = None;
    let num = |n: i32| if n < 0 { format!("{} ", n) } else { format!(" {} ", n) };
    fn sim(p: i32, d: i32, r: i32, out: &mut String, num: &dyn Fn(i32) -> String) -> bool {
        out.push_str(&format!("w{}{}\r\n", num(p), num(d)));
        if p < 0 {
            return false;
        }
        for i in 1..=p {
            out.push_str(&format!("g{}\r\n", i));
        }
        if d > 0 {
            if !sim(p, d - 1, r, out, num) {
                return false;
            }
            out.push_str(&format!("b{}\r\n", num(d)));
        }
        if r == 1 {
            for u in 1..=p {
                out.push_str(&format!("ret{}\r\n", num(u)));
            }
        }
        true
    }
    let call = |p: i32, d: i32, r: i32| if function { format!("X% = W%({}, {}, {})", p, d, r) } else { format!("W {}, {}, {}", p, d, r) };
    let mut call_lines: Vec<String> = vec![];
    for (i, (p, d, r)) in calls.iter().enumerate() {
        call_lines.push(call(*p, *d, *r));
        call_lines.push(format!("PRINT \"c{}\"", i + 1));
    }
    if fin == 2 {
        call_lines.push(call(-1, 0, 0));
        call_lines.push("PRINT \"not here\"".into());
    }
    if g >= 1 {
        lines.push("GOSUB M1".into());
    } else {
        lines.extend(call_lines.iter().cloned());
    }
    lines.push("PRINT \"end\"".into());
    if fin == 1 {
        lines.push("RETURN".into());
        err_row = Some(lines.len() as u32);
        lines.push("PRINT \"not here\"".into());
    }
    lines.push("END".into());
    if g >= 1 {
        lines.push("M1:".into());
        lines.push("PRINT \"m1\"".into());
        if g == 2 {
            lines.push("GOSUB M2".into());
            lines.push("PRINT \"m1r\"".into());
            lines.push("RETURN".into());
            lines.push("M2:".into());
            lines.push("PRINT \"m2\"".into());
        }
        lines.extend(call_lines.iter().cloned());
        lines.push("PRINT \"mr\"".into());
        lines.push("RETURN".into());
    }
    // the subprogram
    lines.push(if function { "FUNCTION W% (P%, D%, R%)".into() } else { "SUB W (P%, D%, R%)".to_string() });
    lines.push("PRINT \"w\"; P%; D%".into());
    lines.push("IF P% < 0 THEN".into());
    lines.push("RETURN".into());
    let sub_return_row = lines.len() as u32;
    lines.push("END IF".into());
    lines.push("IF P% >= 1 THEN".into());
    lines.push("GOSUB G1".into());
    lines.push("END IF".into());
    lines.push("Leave:".into());
    lines.push("IF D% > 0 AND T% = 0 THEN".into());
    lines.push("T% = 1".into());
    lines.push(if function { "X% = W%(P%, D% - 1, R%)".into() } else { "W P%, D% - 1, R%".to_string() });
    lines.push("PRINT \"b\"; D%".into());
    lines.push("END IF".into());
    lines.push("IF R% = 1 AND U% < P% THEN".into());
    lines.push("U% = U% + 1".into());
    lines.push("PRINT \"ret\"; U%".into());
    lines.push("RETURN".into());
    lines.push("END IF".into());
    lines.push(if function { "EXIT FUNCTION".into() } else { "EXIT SUB".to_string() });
    for i in 1..=3 {
        lines.push(format!("G{}:", i));
        lines.push(format!("PRINT \"g{}\"", i));
        if i < 3 {
            lines.push(format!("IF P% >= {} THEN", i + 1));
            lines.push(format!("GOSUB G{}", i + 1));
            lines.push("END IF".into());
        }
        lines.push("GOTO Leave".into());
    }
    lines.push(if function { "END FUNCTION".into() } else { "END SUB".to_string() });
    // expected output
    if g >= 1 {
        want.push_str("m1\r\n");
    }
    if g == 2 {
        want.push_str("m2\r\n");
    }
    let mut alive = true;
    for (i, (p, d, r)) in calls.iter().enumerate() {
        if !sim(*p, *d, *r, &mut want, &num) {
            alive = false;
            break;
        }
        want.push_str(&format!("c{}\r\n", i + 1));
    }
    if alive && fin == 2 {
        sim(-1, 0, 0, &mut want, &num);
        err_row = Some(sub_return_row);
        alive = false;
    }
    if alive {
        if g >= 1 {
            want.push_str("mr\r\n");
        }
        if g == 2 {
            want.push_str("m1r\r\n");
        }
        want.push_str("end\r\n");
    }
    (lines.join("\n") + "\n", want, err_row)
}

fn gosubnest_cases() -> Vec<(bool, usize, Vec<(i32, i32, i32)>, usize)> {
    let mut lists: Vec<Vec<(i32, i32, i32)>> = vec![];
    for p in 0..=3 {
        for d in 0..=2 {
            for r in 0..=1 {
                lists.push(vec![(p, d, r)]);
            }
        }
    }
    for p1 in 0..=3 {
        for d1 in 0..=1 {
            for r1 in 0..=1 {
                for p2 in [0, 2] {
                    lists.push(vec![(p1, d1, r1), (p2, 0, 0)]);
                }
            }
        }
    }
    let mut out = vec![];
    for function in [false, true] {
        for g in 0..=2 {
            for l in &lists {
                for fin in 0..3 {
                    out.push((function, g, l.clone(), fin));
                }
            }
        }
    }
    out
}

pub fn worker(case: &Value) -> Value {
    if case["axis"].as_str() == Some("text") {
        let o = run_pipeline(case["text"].as_str().unwrap_or(""), &RunOpts { collect_files: true, ..RunOpts::default() });
        return json!({"n": 1, "bad": [], "observed": {"stdout": o.stdout_str(), "end": format!("{:?}", o.end)}});
    }
    let kind = case["k"].as_str().unwrap_or("");
    if kind == "callgosub" {
        // GOSUB / RETURN and subprogram calls: a RETURN only answers a GOSUB of the same activation
        // (text, expected stdout, expected end: None = normal, Some((code, row)) = that error at that row)
        let cases: Vec<(&str, &str, &str, Option<(i32, u32)>)> = vec![
            ("RETURN in a SUB called from a GOSUB routine",
             "DIM A%(2)\nGOSUB Rtn\nPRINT \"main\"\nEND\nRtn:\nPRINT \"rtn\"\nS\nPRINT \"rtn2\"\nA%(1) = 5\nRETURN\nSUB S\nPRINT \"s\"\nRETURN\nPRINT \"not here\"\nEND SUB\n",
             "rtn\r\ns\r\n", Some((3, 13))),
            ("GOSUB inside a SUB left by EXIT SUB, then RETURN at module level",
             "DIM A%(2)\nS\nPRINT \"main\"\nA%(1) = 5\nRETURN\nPRINT \"not here\"\nEND\nSUB S\nPRINT \"s\"\nGOSUB Inner\nPRINT \"not here either\"\nEXIT SUB\nInner:\nPRINT \"inner\"\nEXIT SUB\nEND SUB\n",
             "s\r\ninner\r\nmain\r\n", Some((3, 5))),
            ("a SUB with its own GOSUB / RETURN pair called from a GOSUB routine",
             "GOSUB Rtn\nPRINT \"main\"\nEND\nRtn:\nPRINT \"rtn\"\nS\nPRINT \"rtn2\"\nRETURN\nSUB S\nPRINT \"s\"\nGOSUB Inner\nPRINT \"s2\"\nEXIT SUB\nInner:\nPRINT \"inner\"\nRETURN\nEND SUB\n",
             "rtn\r\ns\r\ninner\r\ns2\r\nrtn2\r\nmain\r\n", None),
            ("a FUNCTION that leaves a GOSUB behind, called twice, then RETURN at module level",
             "PRINT F%(1); F%(2)\nRETURN\nEND\nFUNCTION F% (N%)\nGOSUB G\nF% = -1\nEXIT FUNCTION\nG:\nF% = N% * 10\nEND FUNCTION\n",
             " 10  20 \r\n", Some((3, 2))),
            ("RESUME label after an error inside a SUB: the SUB has ended",
             "DIM A%(2)\nM% = 42\nON ERROR GOTO H\nS 0\nPRINT \"not here\"\nCont:\nPRINT \"cont\"; M%; ERR\nA%(1) = 7\nPRINT A%(1)\nS 2\nPRINT \"end\"\nEND\nH:\nPRINT \"h\"; ERR\nRESUME Cont\nSUB S (D%)\nM% = 5\nPRINT \"s\"; 10 / D%\nEND SUB\n",
             "sh 11 \r\ncont 42  0 \r\n 7 \r\ns 5 \r\nend\r\n", None),
            ("RESUME label after an error two calls deep (SUB -> FUNCTION), then an error with no handler",
             "DIM A%(2)\nM% = 42\nON ERROR GOTO H\nS 0\nPRINT \"not here\"\nCont:\nPRINT \"cont\"; M%\nON ERROR GOTO 0\nA%(5) = 1\nEND\nH:\nPRINT \"h\"; ERR\nRESUME Cont\nSUB S (D%)\nPRINT \"s\"; F%(D%)\nEND SUB\nFUNCTION F% (D%)\nF% = 10 / D%\nEND FUNCTION\n",
             "sh 11 \r\ncont 42 \r\n", Some((9, 9))),
            ("RESUME label after an error inside a SUB called from a GOSUB routine: the GOSUB is still pending",
             "ON ERROR GOTO H\nGOSUB Rtn\nPRINT \"main\"\nEND\nRtn:\nS 0\nPRINT \"not here\"\nCont:\nPRINT \"cont\"\nRETURN\nH:\nPRINT \"h\"; ERR\nRESUME Cont\nSUB S (D%)\nGOSUB Inner\nEXIT SUB\nInner:\nPRINT 10 / D%\nRETURN\nEND SUB\n",
             "h 11 \r\ncont\r\nmain\r\n", None),
            ("recursive SUB: every activation has its own GOSUB / RETURN pair",
             "R 2\nPRINT \"main\"\nEND\nSUB R (N%)\nGOSUB Show\nIF N% > 0 THEN R N% - 1\nGOSUB Show\nEXIT SUB\nShow:\nPRINT \"n\"; N%\nRETURN\nEND SUB\n",
             "n 2 \r\nn 1 \r\nn 0 \r\nn 0 \r\nn 1 \r\nn 2 \r\nmain\r\n", None),
        ];
        let mut bads = vec![];
        let mut hist: std::collections::BTreeMap<String, u64> = Default::default();
        let mut n = 0u64;
        for (name, text, want_out, want_end) in cases {
            let o = run_pipeline(text, &RunOpts { budget: 200_000, ..RunOpts::default() });
            n += 1;
            let end_ok = match (&o.end, want_end) {
                (vcore::outcome::End::Normal, None) => true,
                (vcore::outcome::End::RuntimeError { code: Some(c), rows, .. }, Some((wc, wr))) => *c == wc && rows.first() == Some(&wr),
                _ => false,
            };
            if end_ok && o.stdout_str() == want_out {
                *hist.entry(format!("agree:{}", o.end.class())).or_insert(0) += 1;
            } else {
                *hist.entry("differ".into()).or_insert(0) += 1;
                bads.push(json!({
                    "sig": format!("C05|callgosub|{}", name),
                    "summary": format!("{}: expected output {:?} and end {:?}, got {:?} and {:?} — program: {:?}", name, want_out, want_end, o.stdout_str(), o.end, super::truncate_text(text, 500)),
                    "text": text,
                    "case": {"axis": "text", "text": text},
                }));
            }
        }
        return json!({"n": n, "nontrivial": n, "hist": hist, "bad": bads});
    }
    if kind == "gosubnest" {
        let all = gosubnest_cases();
        let lo = case["lo"].as_u64().unwrap_or(0) as usize;
        let hi = (case["hi"].as_u64().unwrap_or(0) as usize).min(all.len());
        let mut bads = vec![];
        let mut hist: std::collections::BTreeMap<String, u64> = Default::default();
        let mut n = 0u64;
        for (function, g, calls, fin) in &all[lo..hi] {
            let (text, want, err_row) = gosubnest_program(*function, *g, calls, *fin);
            let o = run_pipeline(&text, &RunOpts { budget: 200_000, ..RunOpts::default() });
            n += 1;
            let end_ok = match (&o.end, err_row) {
                (vcore::outcome::End::Normal, None) => true,
                (vcore::outcome::End::RuntimeError { code: Some(3), rows, .. }, Some(r)) => rows.first() == Some(&r),
                _ => false,
            };
            if end_ok && o.stdout_str() == want {
                *hist.entry(format!("agree:{}", o.end.class())).or_insert(0) += 1;
            } else {
                *hist.entry("differ".into()).or_insert(0) += 1;
                if bads.len() < 20 {
                    let pmax = calls.iter().map(|c| c.0).max().unwrap_or(0);
                    bads.push(json!({
                        "sig": format!("C05|gosubnest|{}|own-pending{}|module-pending{}|{}", if *function { "FUNCTION" } else { "SUB" }, pmax.min(2), (*g).min(1), ["normal end", "RETURN too many at module level", "bare RETURN in a fresh activation"][*fin]),
                        "summary": format!("calls (own GOSUBs left pending, recursion depth, answers them itself) {:?} under {} pending module-level GOSUB(s), {}: expected output {:?} and {}, got {:?} and {:?} — program: {:?}", calls, g, ["normal end", "then a RETURN too many at module level", "then a bare RETURN in a fresh activation"][*fin], want, match err_row { None => "a normal end".to_string(), Some(r) => format!("error 3 at row {}", r) }, o.stdout_str(), o.end, super::truncate_text(&text, 900)),
                        "text": text,
                        "case": {"axis": "text", "text": text},
                    }));
                }
            }
        }
        return json!({"n": n, "nontrivial": n, "hist": hist, "bad": bads});
    }
    if kind == "callchain" {
        // an error d calls deep, with g GOSUBs pending at module level (and optionally one inside the first SUB), trapped
        // at module level and left by RESUME label / RESUME NEXT / repair + RESUME, twice in a loop; afterwards every
        // pending module-level GOSUB is answered by its RETURN
        let mut bads = vec![];
        let mut hist: std::collections::BTreeMap<String, u64> = Default::default();
        let mut n = 0u64;
        for d in 1..=3usize {
            for g in 0..=2usize {
                for k in 0..=1usize {
                    for exit in 0..3usize {
                        let (text, want) = callchain_program(d, g, k, exit);
                        let o = run_pipeline(&text, &RunOpts { budget: 200_000, ..RunOpts::default() });
                        n += 1;
                        if matches!(o.end, vcore::outcome::End::Normal) && o.stdout_str() == want {
                            *hist.entry("agree:normal".into()).or_insert(0) += 1;
                        } else {
                            *hist.entry("differ".into()).or_insert(0) += 1;
                            if bads.len() < 20 {
                                bads.push(json!({
                                    "sig": format!("C05|callchain|{}|depth{}|gosubs{}", ["RESUME label", "RESUME NEXT", "repair + RESUME"][exit], d.min(2), g.min(1)),
                                    "summary": format!("an error {} call(s) deep with {} module-level GOSUB(s) pending{}, left by {}: expected output {:?} and a normal end, got {:?} and {} — program: {:?}", d, g, if k == 1 { " and one inside the first SUB" } else { "" }, ["RESUME label", "RESUME NEXT", "repair + RESUME"][exit], want, o.stdout_str(), o.end.class(), super::truncate_text(&text, 700)),
                                    "text": text,
                                    "case": {"axis": "text", "text": text},
                                }));
                            }
                        }
                    }
                }
            }
        }
        return json!({"n": n, "nontrivial": n, "hist": hist, "bad": bads});
    }
    if kind == "header" {
        // a failing block header (condition, SELECT subject, CASE test, FOR bound) under ON ERROR GOTO + RESUME:
        // the handler repairs the operand and RESUME evaluates the header again, so apart from the handler's own
        // line the program prints what it prints when the operand is right from the start
        const HEADERS: [(&str, &str); 14] = [
            ("IF condition", "IF 6 / Z% = 3 THEN\nPRINT \"then\"\nELSE\nPRINT \"else\"\nEND IF"),
            ("ELSEIF condition", "IF 0 THEN\nPRINT \"then\"\nELSEIF 6 / Z% = 3 THEN\nPRINT \"elseif\"\nELSE\nPRINT \"else\"\nEND IF"),
            ("second ELSEIF condition", "IF 0 THEN\nPRINT \"then\"\nELSEIF 0 THEN\nPRINT \"first elseif\"\nELSEIF 6 / Z% = 3 THEN\nPRINT \"second elseif\"\nEND IF"),
            ("single-line IF condition", "IF 6 / Z% = 3 THEN PRINT \"then\" ELSE PRINT \"else\""),
            ("WHILE condition", "WHILE N% < 1 AND 6 / Z% = 3\nN% = N% + 1\nPRINT \"body\"; N%\nWEND"),
            ("DO WHILE condition", "DO WHILE N% < 1 AND 6 / Z% = 3\nN% = N% + 1\nPRINT \"body\"; N%\nLOOP"),
            ("DO UNTIL condition", "DO UNTIL N% >= 1 OR 6 / Z% <> 3\nN% = N% + 1\nPRINT \"body\"; N%\nLOOP"),
            ("LOOP WHILE condition", "DO\nN% = N% + 1\nPRINT \"body\"; N%\nLOOP WHILE N% < 2 AND 6 / Z% = 3"),
            ("LOOP UNTIL condition", "DO\nN% = N% + 1\nPRINT \"body\"; N%\nLOOP UNTIL N% >= 2 OR 6 / Z% <> 3"),
            ("SELECT CASE subject", "SELECT CASE 6 / Z%\nCASE 3\nPRINT \"three\"\nCASE ELSE\nPRINT \"other\"\nEND SELECT"),
            ("first CASE test", "SELECT CASE 3\nCASE 6 / Z%\nPRINT \"match\"\nCASE ELSE\nPRINT \"other\"\nEND SELECT"),
            ("second CASE test", "SELECT CASE 3\nCASE 1\nPRINT \"one\"\nCASE 6 / Z%\nPRINT \"match\"\nCASE ELSE\nPRINT \"other\"\nEND SELECT"),
            ("FOR start", "FOR I% = 6 / Z% TO 4\nPRINT \"i\"; I%\nNEXT"),
            ("FOR limit", "FOR I% = 2 TO 6 / Z%\nPRINT \"i\"; I%\nNEXT"),
        ];
        let mut bads = vec![];
        let mut hist: std::collections::BTreeMap<String, u64> = Default::default();
        let mut n = 0u64;
        for (name, block) in HEADERS {
            for in_sub in [false, true] {
                let wrap = |z0: i32, handler: bool| -> String {
                    let body = format!("PRINT \"start\"\n{}\nPRINT \"done\"; ERR\n", block);
                    let on = if handler { "ON ERROR GOTO H\n" } else { "" };
                    if in_sub {
                        format!("DIM SHARED Z%\nZ% = {}\n{}Work\nPRINT \"back\"\nEND\nH:\nPRINT \"h\"; ERR\nZ% = 2\nRESUME\nSUB Work\n{}END SUB\n", z0, on, body)
                    } else {
                        format!("DIM SHARED Z%\nZ% = {}\n{}{}END\nH:\nPRINT \"h\"; ERR\nZ% = 2\nRESUME\n", z0, on, body)
                    }
                };
                let good = wrap(2, false);
                let faulty = wrap(0, true);
                let opts = RunOpts { budget: 200_000, ..RunOpts::default() };
                let og = run_pipeline(&good, &opts);
                let of = run_pipeline(&faulty, &opts);
                n += 1;
                let expect_lines: Vec<String> = og.stdout_str().lines().map(|l| l.to_string()).collect();
                let got_lines: Vec<String> = of.stdout_str().lines().filter(|l| l.trim() != "h 11").map(|l| l.to_string()).collect();
                let handler_ran = of.stdout_str().lines().filter(|l| l.trim() == "h 11").count();
                let ok = matches!(og.end, vcore::outcome::End::Normal) && matches!(of.end, vcore::outcome::End::Normal) && expect_lines == got_lines && handler_ran == 1;
                if ok {
                    *hist.entry("agree:header fault resumed".into()).or_insert(0) += 1;
                } else {
                    *hist.entry("differ".into()).or_insert(0) += 1;
                    bads.push(json!({
                        "sig": format!("C05|header|{}|{}", name, if in_sub { "in a SUB" } else { "module" }),
                        "summary": format!("{} fails, the handler repairs the operand and RESUMEs: expected the output of the repaired program {:?} plus one handler line, got {:?} (end {}) — program: {:?}", name, og.stdout_str(), of.stdout_str(), of.end.class(), super::truncate_text(&faulty, 500)),
                        "text": faulty,
                        "case": {"axis": "text", "text": faulty},
                    }));
                }
            }
        }
        return json!({"n": n, "nontrivial": n, "hist": hist, "bad": bads});
    }
    if kind == "scope" {
        // oracle: the checker rejects the program with Label not defined at the row of the jump
        let mut bads = vec![];
        let mut hist: std::collections::BTreeMap<String, u64> = Default::default();
        let mut n = 0u64;
        for dir in 0..SCOPE_DIRS.len() {
            for jump in 0..SCOPE_JUMPS.len() {
                let (prog, bad_id) = cross_scope_program(dir, jump);
                let printed = print_default(&prog);
                let o = run_pipeline(&printed.text, &RunOpts { budget: 100_000, ..RunOpts::default() });
                n += 1;
                let row = printed.pos.get(&bad_id).map(|p| p.row).unwrap_or(0);
                let verdict = match &o.end {
                    vcore::outcome::End::LintError { kind, row: r, .. } if kind == "LabelNotDefined" && *r == row => None,
                    // RETURN label is not allowed inside a subprogram at all
                    vcore::outcome::End::LintError { kind, row: r, .. } if kind == "IllegalInSubFunction" && jump == 2 && dir != 1 && *r == row => None,
                    vcore::outcome::End::LintError { kind, row: r, .. } => Some(format!("rejected with {} at row {} (the jump is on row {})", kind, r, row)),
                    other => Some(format!("not rejected: the run ended with {} and printed {:?}", other.class(), o.stdout_str())),
                };
                match verdict {
                    None => *hist.entry("rejected:LabelNotDefined".into()).or_insert(0) += 1,
                    Some(msg) => {
                        *hist.entry("differ".into()).or_insert(0) += 1;
                        bads.push(json!({
                            "sig": format!("C05|scope|{}|{}", SCOPE_JUMPS[jump], SCOPE_DIRS[dir]),
                            "summary": format!("{} {}: {} — program: {:?}", SCOPE_JUMPS[jump], SCOPE_DIRS[dir], msg, super::truncate_text(&printed.text, 600)),
                            "text": printed.text,
                            "case": {"axis": "text", "text": printed.text},
                        }));
                    }
                }
            }
        }
        return json!({"n": n, "nontrivial": n, "hist": hist, "bad": bads});
    }
    let quick = case["quick"].as_bool().unwrap_or(true);
    let lo = case["lo"].as_u64().unwrap() as usize;
    let hi = case["hi"].as_u64().unwrap() as usize;
    let mut bads = vec![];
    let mut n = 0u64;
    let mut nontrivial = 0u64;
    let mut hist: std::collections::BTreeMap<String, u64> = Default::default();
    let mut sample = Value::Null;
    for idx in lo..hi {
        let Some((prog, label, sigkey)) = program(kind, quick, idx) else {
            *hist.entry("not-generated".into()).or_insert(0) += 1;
            continue;
        };
        let opts = RunOpts { budget: 300_000, collect_files: true, ..RunOpts::default() };
        let (class, _, bad, _) = differential_opts(&prog, b"", kind, &opts);
        n += 1;
        if !class.starts_with("undecided") {
            nontrivial += 1;
        }
        *hist.entry(class).or_insert(0) += 1;
        if sample.is_null() {
            sample = json!({"kind": kind, "label": label, "text": print_default(&prog).text});
        }
        if let Some((sig, msg, text)) = bad
            && bads.len() < 30
        {
            bads.push(json!({
                "sig": format!("C05|{}|{}", sig, sigkey),
                "summary": format!("{} — {} — program: {:?}", msg, label, super::truncate_text(&text, 900)),
                "text": text,
                "case": {"axis": "text", "text": text},
            }));
        }
    }
    json!({"n": n, "nontrivial": nontrivial, "hist": hist, "bad": bads, "sample": sample})
}

pub fn drive(tier: &str) -> i32 {
    let quick = tier == "quick";
    let mut run = Run::new("C05", tier);
    run.crash_is_violation = true;
    let mut pool = Pool::new("C05");
    pool.timeout_ms = 60_000;
    let mut cases = vec![];
    let mut plan = vec![];
    let mut states = 0u64;
    for kind in ["escape", "into", "fault", "hhist", "jump", "jump-sub"] {
        let t = total(kind, quick);
        let chunk = 40;
        let mut lo = 0;
        while lo < t {
            cases.push(json!({"k": kind, "quick": quick, "lo": lo, "hi": (lo + chunk).min(t)}));
            lo += chunk;
        }
        plan.push(json!({"kind": kind, "programs": t}));
        states += t as u64;
    }
    cases.push(json!({"k": "callchain"}));
    plan.push(json!({"kind": "callchain", "programs": 54}));
    cases.push(json!({"k": "callgosub"}));
    plan.push(json!({"kind": "callgosub", "programs": 8}));
    let gn = gosubnest_cases().len();
    let mut lo = 0;
    while lo < gn {
        cases.push(json!({"k": "gosubnest", "lo": lo, "hi": (lo + 60).min(gn)}));
        lo += 60;
    }
    plan.push(json!({"kind": "gosubnest", "programs": gn}));
    states += gn as u64;
    cases.push(json!({"k": "header"}));
    plan.push(json!({"kind": "header", "programs": 28}));
    cases.push(json!({"k": "scope"}));
    plan.push(json!({"kind": "scope", "programs": SCOPE_DIRS.len() * SCOPE_JUMPS.len()}));
    let total_cases = cases.len();
    let cap = run.wall_cap_s;
    let t0 = run.reporter.start;
    let it = cases.into_iter().take_while(|_| t0.elapsed().as_secs_f64() < cap);
    run.run_pool(&pool, it, |_, _, _, _| {});
    if (run.cases as usize) < total_cases {
        run.capped = true;
    }
    let mut ev = Evidence::new("model_checking");
    ev.set("rule", "jump layouts: up to 3 labelled blocks in every order (quick: two orders for 3 blocks), each ending in fall-through / END / RETURN / GOTO x / GOSUB x / RETURN x for every x, entered by fall-through or by GOTO, at module level and inside a SUB, every block counting its executions (the program stops after 7). loop escapes: every nest of 1..3 loops over {FOR, FOR STEP -1, WHILE, DO..LOOP UNTIL} with pairwise distinct bounds, a GOTO from the innermost body to a label in the body of every shallower level and after the nest, a GOSUB to a routine after the nest; the same with IF / ELSE / CASE / CASE ELSE blocks between the loops. jumps into a block: GOTO to a label in the middle of an IF / ELSEIF / ELSE / CASE / CASE ELSE block, a WHILE / DO body or an IF inside a WHILE, at module level and inside a SUB, once and three times in a row. GOSUB and calls: a RETURN inside a SUB that was called from a GOSUB routine, a GOSUB left behind by EXIT SUB / EXIT FUNCTION followed by a RETURN at module level (both Return without GOSUB, error 3, at the RETURN), and subprograms (also recursive ones) with their own GOSUB / RETURN pairs called from a GOSUB routine. RESUME label after an error inside a SUB, two calls deep, and below a pending GOSUB: the subprograms have ended, module-level variables and arrays are the module's again, a later unhandled error lists no call site. failing block headers: an IF / ELSEIF / second ELSEIF / single-line IF / WHILE / DO WHILE / DO UNTIL / LOOP WHILE / LOOP UNTIL condition, a SELECT CASE subject, a first / second CASE test, a FOR start / limit that divides by zero under ON ERROR GOTO + RESUME (the handler repairs the divisor), at module level and in a SUB: apart from the handler's line the output is that of the repaired program. jumps across scopes: GOTO / GOSUB / RETURN label from a SUB to a module-level label, from the module level into a SUB and from one SUB into another must be rejected with Label not defined at the row of the jump. one fault: 10 failing statement kinds (incl. a built-in that fails after a user FUNCTION has returned within the same statement, also a FUNCTION that itself executes ON ERROR RESUME NEXT) x 17 containers (main, IF / ELSE / ELSEIF blocks, single-line IF, first / middle / ELSE CASE blocks, FOR / FOR STEP / WHILE / DO bodies, an IF block that ends a FOR body, SUB and FUNCTION bodies, the end of the module with subprograms following) x 3 positions x 9 handler modes (none, RESUME with the operand repaired, RESUME NEXT, RESUME label, ON ERROR RESUME NEXT, ON ERROR GOTO 0, a handler that fails itself, and in loop bodies two handlers that resume the first and the second failure of the same statement differently) x handler action. handler histories: the full tree of sequences up to the depth over {ON ERROR GOTO H1, ON ERROR GOTO H2, ON ERROR GOTO 0, ON ERROR RESUME NEXT, failing statement, trace}. Every program is one path of the reference machine (explicit GOSUB stack, handler mode, pending error) replayed on the implementation; trace output, ERR values and the end state with its row are compared. gosubnest: a SUB / FUNCTION that leaves 0..3 nested GOSUBs of its own pending when it ends, optionally calls itself 1..2 levels deep while they are pending and answers them itself after the inner activation has ended, called once or twice from under 0..2 pending module-level GOSUBs, which are answered afterwards; then a normal end, a RETURN too many at module level, or a bare RETURN in a fresh activation (both error 3 at that row): expected output by construction. callchain: an error 1..3 calls deep with 0..2 GOSUBs pending at module level and optionally one inside the first SUB, trapped by a module-level handler and left by RESUME label / RESUME NEXT / repair + RESUME, twice in a FOR loop: afterwards every pending module-level GOSUB is answered by its RETURN and the loop goes on (expected output by construction).");
    ev.set("exhaustive", !run.capped);
    ev.set("plan", json!(plan));
    ev.set("states", states);
    ev.set("transitions", run.evaluations);
    ev.set("traces_validated_against_impl", run.evaluations);
    ev.set("distinct_nontrivial", run.nontrivial);
    ev.assume("R6: failing statements are simple statements, never block headers; RESUME label out of a subprogram is not judged");
    run.finish(ev)
}
