//! C17 — string functions satisfy their defining equations (batched differential check).

use serde_json::{Value, json};
use vcore::Evidence;
use vcore::gast::{B, Prog, Stmt};
use vcore::gen17::cases;

use super::Run;
use super::snipbatch::{Ctx, Item, run_items};
use crate::bind::{RunOpts, run_pipeline};
use crate::pool::Pool;

fn no_prelude(_: &mut B) -> Vec<Stmt> {
    vec![]
}

pub fn worker(case: &Value) -> Value {
    if case["axis"].as_str() == Some("text") {
        let o = run_pipeline(case["text"].as_str().unwrap_or(""), &RunOpts::default());
        return json!({"n": 1, "bad": [], "observed": {"stdout": o.stdout_str(), "end": format!("{:?}", o.end)}});
    }
    let quick = case["quick"].as_bool().unwrap_or(true);
    let lo = case["lo"].as_u64().unwrap() as usize;
    let hi = case["hi"].as_u64().unwrap() as usize;
    let all = cases(quick);
    let items: Vec<Item> = all.iter().skip(lo).take(hi - lo).map(|s| Item { snip: s, stdin: "", nontrivial: true }).collect();
    let hdr = Prog::default();
    let ctx = Ctx { prop: "C17", tag: "fn", header: &hdr, prelude: &no_prelude, check_types: false };
    let r = run_items(&ctx, &items);
    let sample = items.first().map(|i| json!({"label": i.snip.label}));
    json!({"n": r.n, "nontrivial": r.nontrivial, "hist": r.hist, "bad": r.bads, "sample": sample})
}

pub fn drive(tier: &str) -> i32 {
    let quick = tier == "quick";
    let mut run = Run::new("C17", tier);
    run.crash_is_violation = true;
    let mut pool = Pool::new("C17");
    pool.timeout_ms = 60_000;
    let total = cases(quick).len();
    let mut cases_v = vec![];
    let mut lo = 0;
    while lo < total {
        cases_v.push(json!({"quick": quick, "lo": lo, "hi": (lo + 300).min(total)}));
        lo += 300;
    }
    let total_cases = cases_v.len();
    let cap = run.wall_cap_s;
    let t0 = run.reporter.start;
    let it = cases_v.into_iter().take_while(|_| t0.elapsed().as_secs_f64() < cap);
    run.run_pool(&pool, it, |_, _, _, _| {});
    if (run.cases as usize) < total_cases {
        run.capped = true;
    }
    let mut ev = Evidence::new("exploration");
    ev.set("rule", "all strings up to length 4 (thorough: 5) over {a, B, blank} x all counts / positions in -1..7 for LEFT$, RIGHT$, MID$ (2 and 3 arguments), INSTR (2 and 3 arguments, non-empty needles up to length 2), UCASE$/LCASE$/LTRIM$/RTRIM$/LEN on every string (TAB as a non-blank), LEN(a+b), SPACE$(n), STRING$(n, 32 | \"xy\" | \"\"), VAL(STR$(k)) for k in -32768..32767 (quick: every 13th and the boundaries) and a LONG lattice; arguments as literals, as variables and nested in another call; every string up to length 3 (thorough 4) over {a, CHR$(200), CHR$(201)} with a character above 127 in it: lengths of LEFT$ / RIGHT$ / MID$ for every count and position, INSTR of the parts, the LEFT$ + MID$ equation (observed through numbers and comparisons only); position-dependent printable-ASCII strings of 16 (thorough 28) lengths from 6 to 300 (1000) around powers of two and 255 / 256, counts and positions from a lattice {0, 1, 2, len/2, len-1, len, len+1, 255, 256, 1000, 32767} given as INTEGER literal and through LONG / SINGLE / DOUBLE variables (with a fraction that rounds down), observed through lengths, both ends, INSTR from the position and the equations, the case / trim functions on the whole string printed in pieces of 60, SPACE$ / STRING$ with counts up to 32767; the defining equations (LEFT$(s,n)+MID$(s,n+1)=s, SPACE$(n)=STRING$(n,32), LEN(a+b)=LEN(a)+LEN(b), VAL(STR$(k))=k) are evaluated by the implementation itself and printed. Snippets with a normal outcome are batched (bisected on disagreement), Illegal-function-call cases run alone. Every case is non-trivial (each names a distinct argument tuple).");
    ev.set("exhaustive", !run.capped);
    ev.set("snippets", total as u64);
    ev.assume("R8: 7-bit ASCII strings; INSTR with an empty needle is not judged (the property speaks of non-empty t)");
    run.finish(ev)
}
