//! C17 — string functions satisfy their defining equations (batched differential check).

use serde_json::{Value, json};
use vcore::Evidence;
use vcore::gast::{B, Prog, Stmt};
use vcore::gen17::cases;

use super::Run;
use super::snipbatch::{Ctx, Item, run_items};
use crate::bind::{RunOpts, run_pipeline};
use crate::pool::Pool;

/// the arrays of the "array-element arguments" family
fn no_prelude(b: &mut B) -> Vec<Stmt> {
    use vcore::gast::{DimVar, K, num};
    let two = |n: &str| DimVar { name: n.into(), ty: None, dims: vec![(None, num(3)), (None, num(3))] };
    vec![b.s(K::Dim { shared: false, redim: false, vars: vec![two("G$"), DimVar { name: "V$".into(), ty: None, dims: vec![(None, num(5))] }, two("K%")] })]
}

pub fn worker(case: &Value) -> Value {
    if case["axis"].as_str() == Some("text") {
        let o = run_pipeline(case["text"].as_str().unwrap_or(""), &RunOpts::default());
        return json!({"n": 1, "bad": [], "observed": {"stdout": o.stdout_str(), "end": format!("{:?}", o.end)}});
    }
    if case["k"].as_str() == Some("valstr") {
        // VAL(STR$(k)) = k for whole numbers that only a DOUBLE holds (beyond 2^31, 2^53, 2^63), both signs
        let mut ks: Vec<String> = vec!["2147483648".into(), "4294967297".into(), "9007199254740992".into(), "9007199254740994".into(), "10000000000000002".into(), "50031545098999704".into(), "100000000000000016".into(), "123456789012345678".into(), "999999999999999999".into(), "9223372036854775808".into(), "18446744073709551616".into(), "1152921504606848000".into()];
        let mut p3: u128 = 3;
        for e in 2..=45u32 {
            p3 *= 3;
            if e >= 21 {
                ks.push(p3.to_string());
            }
        }
        let mut p7: u128 = 7;
        for e in 2..=24u32 {
            p7 *= 7;
            if e >= 12 {
                ks.push(p7.to_string());
            }
        }
        let mut text = String::new();
        let mut want = String::new();
        let mut labels = vec![];
        for k in &ks {
            for sign in ["", "-"] {
                text.push_str(&format!("K# = {}{}: PRINT VAL(STR$(K#)) = K#; VAL(\"{}{}\") = K#\n", sign, k, sign, k));
                want.push_str("-1 -1 \r\n");
                labels.push(format!("{}{}", sign, k));
            }
        }
        let o = run_pipeline(&text, &RunOpts::default());
        let got = o.stdout_str();
        let mut bad = vec![];
        if !matches!(o.end, vcore::End::Normal) || got != want {
            let gl: Vec<&str> = got.split("\r\n").collect();
            let mut first = format!("the program ended with {}", o.end.class());
            for (i, l) in labels.iter().enumerate() {
                if gl.get(i) != Some(&"-1 -1 ") {
                    first = format!("k = {}: VAL(STR$(k)) = k and VAL(\"k\") = k print {:?}", l, gl.get(i));
                    break;
                }
            }
            bad.push(json!({"sig": "C17|valstr|output", "summary": format!("VAL(STR$(k)) = k fails for a whole number k held by a DOUBLE — {}", first), "text": text, "case": {"axis": "text", "text": text}}));
        }
        return json!({"n": labels.len(), "nontrivial": labels.len(), "bad": bad, "sample": {"label": "VAL(STR$(k)) for whole DOUBLE values"}});
    }
    let quick = case["quick"].as_bool().unwrap_or(true);
    let lo = case["lo"].as_u64().unwrap() as usize;
    let hi = case["hi"].as_u64().unwrap() as usize;
    let all = cases(quick);
    let items: Vec<Item> = all.iter().skip(lo).take(hi - lo).map(|s| Item { snip: s, stdin: "", nontrivial: true }).collect();
    let hdr = Prog::default();
    let ctx = Ctx { prop: "C17", tag: "fn", header: &hdr, prelude: &no_prelude, check_types: false };
    let r = run_items(&ctx, &items);
    let sample = items.first().map(|i| json!({"label": i.snip.label}));
    json!({"n": r.n, "nontrivial": r.nontrivial, "hist": r.hist, "bad": r.bads, "sample": sample})
}

pub fn drive(tier: &str) -> i32 {
    let quick = tier == "quick";
    let mut run = Run::new("C17", tier);
    run.crash_is_violation = true;
    let mut pool = Pool::new("C17");
    pool.timeout_ms = 60_000;
    let total = cases(quick).len();
    let mut cases_v = vec![];
    let mut lo = 0;
    while lo < total {
        cases_v.push(json!({"quick": quick, "lo": lo, "hi": (lo + 300).min(total)}));
        lo += 300;
    }
    cases_v.push(json!({"k": "valstr"}));
    let total_cases = cases_v.len();
    let cap = run.wall_cap_s;
    let t0 = run.reporter.start;
    let it = cases_v.into_iter().take_while(|_| t0.elapsed().as_secs_f64() < cap);
    run.run_pool(&pool, it, |_, _, _, _| {});
    if (run.cases as usize) < total_cases {
        run.capped = true;
    }
    let mut ev = Evidence::new("exploration");
    ev.set("rule", "all strings up to length 4 (thorough: 5) over {a, B, blank} x all counts / positions in -1..7 for LEFT$, RIGHT$, MID$ (2 and 3 arguments), INSTR (2 and 3 arguments, non-empty needles up to length 2), UCASE$/LCASE$/LTRIM$/RTRIM$/LEN on every string (TAB as a non-blank), LEN(a+b), SPACE$(n), STRING$(n, 32 | \"xy\" | \"\"), VAL(STR$(k)) for k in -32768..32767 (quick: every 13th and the boundaries), a LONG lattice and 100 whole numbers of both signs that only a DOUBLE holds (beyond 2^31, 2^53 and 2^63: powers of 3 and 7, boundary values); arguments as literals, as variables and nested in another call; every string up to length 3 (thorough 4) over {a, CHR$(200), CHR$(201)} with a character above 127 in it: lengths of LEFT$ / RIGHT$ / MID$ for every count and position, INSTR of the parts, the LEFT$ + MID$ equation (observed through numbers and comparisons only); position-dependent printable-ASCII strings of 16 (thorough 28) lengths from 6 to 300 (1000) around powers of two and 255 / 256, counts and positions from a lattice {0, 1, 2, len/2, len-1, len, len+1, 255, 256, 1000, 32767} given as INTEGER literal and through LONG / SINGLE / DOUBLE variables (with a fraction that rounds down), observed through lengths, both ends, INSTR from the position and the equations, the case / trim functions on the whole string printed in pieces of 60, SPACE$ / STRING$ with counts up to 32767; the defining equations (LEFT$(s,n)+MID$(s,n+1)=s, SPACE$(n)=STRING$(n,32), LEN(a+b)=LEN(a)+LEN(b), VAL(STR$(k))=k) are evaluated by the implementation itself and printed. Snippets with a normal outcome are batched (bisected on disagreement), Illegal-function-call cases run alone. Every case is non-trivial (each names a distinct argument tuple).");
    ev.set("exhaustive", !run.capped);
    ev.set("snippets", total as u64);
    ev.assume("R8: 7-bit ASCII strings; INSTR with an empty needle is not judged (the property speaks of non-empty t)");
    run.finish(ev)
}
