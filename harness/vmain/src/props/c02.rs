//! C02 — loops and branches mean the same wherever they are nested or however written.
//! Metamorphic check, the implementation against itself: every program of the control
//! composition space (and of the corpus importer, when available) is rewritten by each
//! rule at every applicable site, one site at a time and all sites at once; the
//! rewritten program must print the same and end the same way.

use serde_json::{Value, json};
use vcore::Evidence;
use vcore::gen01::{control_program, control_program_in_sub, control_program_shared, describe, forests};
use vcore::gprint::print_default;
use vcore::refsem::run_reference;
use vcore::rewrite::{RULES, rewrite};

use super::Run;
use crate::bind::{RunOpts, run_pipeline};
use crate::pool::Pool;

// ---------------------------------------------------------------------------
// token-level rewrites of harvested program texts
// ---------------------------------------------------------------------------

use vcore::btok::{Tok, TokKind, join, tokenize};

const TEXT_RULES: [&str; 3] = ["FOR without STEP -> STEP 1", "WHILE / WEND -> DO WHILE / LOOP", "UNTIL c -> WHILE NOT (c) for a comparison c"];

/// Statements of a token list: index ranges between separators (line end, colon, comment).
fn statements(toks: &[Tok]) -> Vec<(usize, usize)> {
    let mut out = vec![];
    let mut start = 0;
    let mut in_data = false;
    for (i, t) in toks.iter().enumerate() {
        let sep = match t.kind {
            TokKind::Eol | TokKind::Comment => true,
            TokKind::Symbol if t.text == ":" && !in_data => true,
            _ => false,
        };
        if t.kind == TokKind::Word && t.text.eq_ignore_ascii_case("DATA") {
            in_data = true;
        }
        if sep {
            if start < i {
                out.push((start, i));
            }
            start = i + 1;
            if t.kind != TokKind::Symbol {
                in_data = false;
            }
        }
    }
    if start < toks.len() {
        out.push((start, toks.len()));
    }
    out
}

fn words(toks: &[Tok], (s, e): (usize, usize)) -> Vec<(usize, String)> {
    (s..e).filter(|i| toks[*i].kind == TokKind::Word).map(|i| (i, toks[i].text.to_ascii_uppercase())).collect()
}

/// Applies a rule at all its sites; None if there is no site.
fn rewrite_text(text: &str, rule: usize) -> Option<String> {
    let toks = tokenize(text);
    let mut out = toks.clone();
    let mut sites = 0;
    let tok = |kind, text: &str| Tok { kind, text: text.to_string() };
    for st in statements(&toks) {
        let ws = words(&toks, st);
        let Some((first_ix, first)) = ws.first().cloned() else { continue };
        // the first non-blank token must be that word (not a label or a number)
        if (st.0..first_ix).any(|i| toks[i].kind != TokKind::Blank) {
            continue;
        }
        match rule {
            0 => {
                if first == "FOR" && ws.iter().any(|(_, w)| w == "TO") && !ws.iter().any(|(_, w)| w == "STEP") {
                    // after the last non-blank token of the statement
                    let last = (st.0..st.1).rev().find(|i| toks[*i].kind != TokKind::Blank).unwrap();
                    out[last].text = format!("{} STEP 1", toks[last].text);
                    sites += 1;
                }
            }
            1 => {
                if first == "WHILE" {
                    out[first_ix] = tok(TokKind::Word, "DO WHILE");
                    sites += 1;
                } else if first == "WEND" && ws.len() == 1 {
                    out[first_ix] = tok(TokKind::Word, "LOOP");
                }
            }
            _ => {
                if (first == "DO" || first == "LOOP") && ws.get(1).map(|(_, w)| w == "UNTIL").unwrap_or(false) {
                    let until_ix = ws[1].0;
                    let cond: Vec<usize> = (until_ix + 1..st.1).collect();
                    let has_rel = cond.iter().any(|i| toks[*i].kind == TokKind::Symbol && matches!(toks[*i].text.as_str(), "=" | "<" | ">"));
                    let has_logic = cond.iter().any(|i| toks[*i].kind == TokKind::Word && matches!(toks[*i].text.to_ascii_uppercase().as_str(), "AND" | "OR" | "NOT" | "XOR" | "EQV" | "IMP"));
                    if has_rel && !has_logic && !cond.is_empty() {
                        out[until_ix] = tok(TokKind::Word, "WHILE NOT (");
                        let last = cond.iter().rev().find(|i| toks[**i].kind != TokKind::Blank).copied().unwrap();
                        out[last].text = format!("{})", toks[last].text);
                        sites += 1;
                    }
                }
            }
        }
    }
    if sites == 0 { None } else { Some(join(&out)) }
}

fn harvested_worker(case: &Value) -> Value {
    let mut hist: std::collections::BTreeMap<String, u64> = Default::default();
    let mut bads = vec![];
    let mut n = 0u64;
    let mut nontrivial = 0u64;
    let mut sample = Value::Null;
    for t in case["texts"].as_array().cloned().unwrap_or_default() {
        let text = t.as_str().unwrap_or("");
        let opts = RunOpts { stdin: b"1\n2\n3\n".to_vec(), budget: 300_000, collect_files: true, ..RunOpts::default() };
        let base = run_pipeline(text, &opts);
        if !matches!(base.end, vcore::outcome::End::Normal | vcore::outcome::End::RuntimeError { .. }) {
            *hist.entry("base-not-run".into()).or_insert(0) += 1;
            continue;
        }
        for rule in 0..TEXT_RULES.len() {
            let Some(r) = rewrite_text(text, rule) else { continue };
            n += 1;
            nontrivial += 1;
            let o = run_pipeline(&r, &opts);
            if sample.is_null() {
                sample = json!({"rule": TEXT_RULES[rule], "original": super::truncate_text(text, 300), "rewritten": super::truncate_text(&r, 300)});
            }
            let same = o.stdout == base.stdout && o.lpt1 == base.lpt1 && o.end.class() == base.end.class();
            *hist.entry(if same { "same".to_string() } else { "different".to_string() }).or_insert(0) += 1;
            if !same && bads.len() < 25 {
                bads.push(json!({
                    "sig": format!("C02|harvested|{}|{}->{}", TEXT_RULES[rule], base.end.class(), o.end.class()),
                    "summary": format!("{}: original prints {:?} ({}), rewritten prints {:?} ({}) — original {:?} — rewritten {:?}", TEXT_RULES[rule], super::truncate_text(&base.stdout_str(), 80), base.end.class(), super::truncate_text(&o.stdout_str(), 80), o.end.class(), super::truncate_text(text, 300), super::truncate_text(&r, 300)),
                    "text": r,
                    "original": text,
                    "case": {"g": "harvested", "texts": [text]},
                }));
            }
        }
    }
    json!({"n": n, "nontrivial": nontrivial, "hist": hist, "bad": bads, "sample": sample})
}

pub fn worker(case: &Value) -> Value {
    if case["g"].as_str() == Some("harvested") {
        return harvested_worker(case);
    }
    if let Some(text) = case["text"].as_str() {
        let o = run_pipeline(text, &RunOpts::default());
        return json!({"n": 1, "bad": [], "observed": {"stdout": o.stdout_str(), "end": format!("{:?}", o.end)}});
    }
    let lo = case["lo"].as_u64().unwrap() as usize;
    let hi = case["hi"].as_u64().unwrap() as usize;
    // base programs: (program, shape label)
    let mut bases: Vec<(vcore::gast::Prog, String)> = vec![];
    if case["src"].as_str() == Some("fault") {
        use vcore::gen05::{CONTAINERS, FAULTS, HANDLERS, fault_cases, fault_program};
        for (f, c, p, h, ch) in fault_cases().into_iter().skip(lo).take(hi - lo) {
            // containers that hold a rewritable construct; one representative fault kind per family
            if !matches!(c, 1 | 2 | 3 | 4 | 5 | 6 | 10 | 11 | 12 | 13 | 14 | 15 | 16) || !matches!(f, 0 | 2 | 5) || ch {
                continue;
            }
            if let Some(prog) = fault_program(f, c, p, h, ch) {
                bases.push((prog, format!("fault|{}|{}|pos{}|{}", FAULTS[f], CONTAINERS[c], p, HANDLERS[h])));
            }
        }
    } else if case["src"].as_str() == Some("expr") {
        // SELECT CASE whose tests are expressions / values of another type than the subject (C01 axis S), conditions
        // with AND / OR whose operands fail (C01 axis E)
        let mut all = vcore::gen01::case_expression_programs();
        all.extend(vcore::gen01::failing_condition_programs());
        for (prog, label) in all.into_iter().skip(lo).take(hi - lo) {
            bases.push((prog, format!("expr|{}", label)));
        }
    } else if case["src"].as_str() == Some("decl") {
        // declarations and DATA statements inside every kind of block (taken and not taken): what a block holds
        // besides executable statements must survive a respelling of the block too
        let mut all = vcore::gen04::bypassed_dim_programs();
        for container in 0..vcore::gen01::DATA_CONTAINERS.len() {
            for read_first in [false, true] {
                all.push((vcore::gen01::data_placement_program(container, read_first), format!("DATA inside: {} / READ {}", vcore::gen01::DATA_CONTAINERS[container], if read_first { "first" } else { "last" })));
            }
        }
        for (prog, label) in all.into_iter().skip(lo).take(hi - lo) {
            bases.push((prog, format!("decl|{}", label)));
        }
    } else {
        let nodes = case["nodes"].as_u64().unwrap() as usize;
        let last = case["last"].as_bool().unwrap_or(false);
        let in_sub = case["sub"].as_bool().unwrap_or(false);
        let shared = case["shared"].as_bool().unwrap_or(false);
        for f in forests(nodes).iter().skip(lo).take(hi - lo) {
            bases.push((if shared { control_program_shared(f, last) } else if in_sub { control_program_in_sub(f, last) } else { control_program(f, last) }, describe(f)));
        }
    }
    let mut bads = vec![];
    let mut n = 0u64;
    let mut nontrivial = 0u64;
    let mut hist: std::collections::BTreeMap<String, u64> = Default::default();
    let mut sample = Value::Null;
    let opts = RunOpts { budget: 400_000, collect_files: true, ..RunOpts::default() };
    for (base, shape) in &bases {
        let base_text = print_default(base).text;
        let base_out = run_pipeline(&base_text, &opts);
        let executed = run_reference(base, b"", &[]).executed;
        // the same program with every loop / SELECT CASE that holds no block IF on ONE source line
        {
            let text = vcore::gprint::print(base, &vcore::gprint::Layout { one_line_blocks: true, ..Default::default() }).text;
            if text != base_text {
                let out = run_pipeline(&text, &opts);
                n += 1;
                nontrivial += 1;
                let same = out.stdout == base_out.stdout && out.lpt1 == base_out.lpt1 && out.end.class() == base_out.end.class();
                *hist.entry(if same { "same".to_string() } else { "different".to_string() }).or_insert(0) += 1;
                if !same && bads.len() < 25 {
                    bads.push(json!({
                        "sig": format!("C02|OneLineLayout|{}->{}|{}", base_out.end.class(), out.end.class(), shape),
                        "summary": format!("writing the loops on one source line changes behaviour: original prints {:?} ({}), one-line form prints {:?} ({}) — original: {:?} — one-line: {:?}",
                            base_out.stdout_str(), base_out.end.class(), out.stdout_str(), out.end.class(), super::truncate_text(&base_text, 300), super::truncate_text(&text, 400)),
                        "text": text,
                        "original": base_text,
                        "case": {"text": text},
                    }));
                }
            }
        }
        for rule in RULES {
            let (all_prog, ids) = rewrite(base, rule, None);
            if ids.is_empty() {
                continue;
            }
            let mut variants = vec![(all_prog, ids.clone(), "all sites".to_string())];
            if ids.len() > 1 {
                for site in 0..ids.len() {
                    let (p, one) = rewrite(base, rule, Some(site));
                    variants.push((p, one, format!("site {}", site)));
                }
            }
            for (prog, touched, which) in variants {
                let text = print_default(&prog).text;
                let out = run_pipeline(&text, &opts);
                n += 1;
                let nt = touched.iter().all(|id| executed.contains(id));
                if nt {
                    nontrivial += 1;
                }
                if sample.is_null() {
                    sample = json!({"rule": format!("{:?}", rule), "shape": shape, "original": base_text, "rewritten": text});
                }
                let same = out.stdout == base_out.stdout && out.lpt1 == base_out.lpt1 && out.end.class() == base_out.end.class();
                *hist.entry(if same { "same".to_string() } else { "different".to_string() }).or_insert(0) += 1;
                if !same && bads.len() < 25 {
                    bads.push(json!({
                        "sig": format!("C02|{:?}|{}->{}|{}", rule, base_out.end.class(), out.end.class(), shape),
                        "summary": format!(
                            "rule {:?} at {} changes behaviour: original prints {:?} ({}), rewritten prints {:?} ({}) — original: {:?} — rewritten: {:?}",
                            rule, which, base_out.stdout_str(), base_out.end.class(), out.stdout_str(), out.end.class(),
                            super::truncate_text(&base_text, 300), super::truncate_text(&text, 400)
                        ),
                        "text": text,
                        "original": base_text,
                        "case": {"text": text},
                    }));
                }
            }
        }
    }
    json!({"n": n, "nontrivial": nontrivial, "hist": hist, "bad": bads, "sample": sample})
}

pub fn drive(tier: &str) -> i32 {
    let quick = tier == "quick";
    let mut run = Run::new("C02", tier);
    run.crash_is_violation = true;
    let mut pool = Pool::new("C02");
    pool.timeout_ms = 120_000;
    let mut cases = vec![];
    let mut plan = vec![];
    for nodes in 1..=3 {
        let total = forests(nodes).len();
        for (last, in_sub) in [(false, false), (true, false), (false, true)] {
            if nodes == 3 && (quick || last || in_sub) {
                continue;
            }
            let chunk = 25;
            let mut lo = 0;
            while lo < total {
                cases.push(json!({"nodes": nodes, "lo": lo, "hi": (lo + chunk).min(total), "last": last, "sub": in_sub}));
                lo += chunk;
            }
            plan.push(json!({"nodes": nodes, "children_in_last_body": last, "inside_sub": in_sub, "base_programs": total}));
        }
        if nodes <= if quick { 2 } else { 3 } {
            let mut lo = 0;
            while lo < total {
                cases.push(json!({"nodes": nodes, "lo": lo, "hi": (lo + 25).min(total), "last": false, "sub": true, "shared": true}));
                lo += 25;
            }
            plan.push(json!({"nodes": nodes, "inside_sub": true, "variables": "DIM SHARED, read through a FUNCTION in every loop body", "base_programs": total}));
        }
    }
    // programs with one failing statement inside a rewritable construct, under every handler mode
    {
        let total = vcore::gen05::fault_cases().len();
        let mut lo = 0;
        while lo < total {
            cases.push(json!({"src": "fault", "lo": lo, "hi": (lo + 150).min(total)}));
            lo += 150;
        }
        plan.push(json!({"base": "one failing statement (division by zero / subscript / error in a called SUB) x position x handler mode inside IF / ELSE / ELSEIF / single-line IF / CASE / FOR / WHILE / DO bodies", "fault_cases_scanned": total}));
    }
    // declarations (records, static / dynamic arrays, typed scalars) and DATA statements inside blocks
    {
        let total = vcore::gen04::bypassed_dim_programs().len() + 2 * vcore::gen01::DATA_CONTAINERS.len();
        let mut lo = 0;
        while lo < total {
            cases.push(json!({"src": "decl", "lo": lo, "hi": (lo + 12).min(total)}));
            lo += 12;
        }
        plan.push(json!({"base": "a DIM of a record / static array / dynamic array / typed scalar, or a DATA statement, inside every kind of block (taken, not taken, never entered), main module and SUB", "base_programs": total}));
    }
    {
        let total = vcore::gen01::case_expression_programs().len() + vcore::gen01::failing_condition_programs().len();
        let mut lo = 0;
        while lo < total {
            cases.push(json!({"src": "expr", "lo": lo, "hi": (lo + 12).min(total)}));
            lo += 12;
        }
        plan.push(json!({"base": "SELECT CASE whose tests are expressions or values of another numeric type than the subject (16 test forms x 5 subjects), AND / OR conditions with a failing operand in 9 kinds of condition", "base_programs": total}));
    }
    let total_cases = cases.len();
    let cap = run.wall_cap_s;
    let t0 = run.reporter.start;
    let it = cases.into_iter().take_while(|_| t0.elapsed().as_secs_f64() < cap);
    run.run_pool(&pool, it, |_, _, _, _| {});
    if (run.cases as usize) < total_cases {
        run.capped = true;
    }
    // the repository's own program texts, rewritten at token level
    let h = crate::corpus::harvest();
    let harvested: Vec<String> = h.texts.iter().map(|(_, t)| t.clone()).filter(|t| !t.to_ascii_uppercase().contains("INKEY")).collect();
    let group = super::run_text_group(&mut run, &pool, "harvested texts rewritten at token level", &harvested, 20, &json!({"g": "harvested"}));
    plan.push(group);
    let mut ev = Evidence::new("exploration");
    ev.set("rule", "harvested: every program text embedded in the repository's tests and fixtures that runs, rewritten at token level at all sites by FOR without STEP -> STEP 1, WHILE / WEND -> DO WHILE / LOOP, DO / LOOP UNTIL c -> WHILE NOT (c) when c is a single comparison. base programs: every ordered forest of n construct nodes over 15 construct kinds (see C01 axis A), children in the first or last body, at module level or inside a SUB; and the C05 programs with one failing statement (3 fault kinds x 3 positions x 7 handler modes) inside an IF / ELSE / ELSEIF / single-line IF / CASE / loop body, so that the rewritten construct is also entered and left through the error path; and the C04 / C01 programs that hold a DIM (record, static or dynamic array, typed scalar) or a DATA statement inside every kind of block, taken or not, so that what a block holds besides executable statements survives the respelling of the block; and the C01 programs of axis S (SELECT CASE tests that are expressions, FUNCTION calls, values of another numeric type than the subject) and axis E (AND / OR conditions with a failing operand). Every base program is also compared with itself written with each loop / SELECT CASE on one source line. Rewrite rules (FOR->WHILE with explicit limit/step temporaries, WHILE->DO WHILE, DO UNTIL c->DO WHILE NOT (c), SELECT CASE->IF/ELSEIF chain on a temporary, single-line IF->block IF, FOR->FOR STEP 1, loop body->IF -1 THEN body END IF) are applied as AST-to-AST functions at every applicable site alone and at all sites together; original and rewritten text are both run on the real pipeline; stdout, LPT1 and end class must be equal. Non-trivial = every rewritten statement was executed in the original run (reference trace).");
    ev.set("exhaustive", !run.capped);
    ev.set("plan", json!(plan));
    ev.assume("the rewrite functions are correct by construction on the generated subset (integer counters, integer SELECT subjects, non-zero steps)");
    run.finish(ev)
}
