//! C07 — parsing and checking any text ends with a program or a located error.
//!
//! Spaces: token soups over the lexer's alphabet (all sequences up to a length
//! bound), single-edit mutations of every accepted harvested program (truncate at /
//! delete / duplicate / swap at every token), hostile characters at every token
//! boundary, and nesting-depth ladders. Oracle: parse + lint return (no panic, crash
//! or hang) with a program or an error whose row/col lies inside the text or
//! immediately at its end.

use std::collections::HashSet;

use serde_json::{Value, json};
use vcore::btok::{TokKind, join, split_lines, tokenize};
use vcore::{End, Evidence, strip_digits};

use super::Run;
use crate::bind::{lint_err_end, parse_err_end, try_lint, try_parse};
use crate::corpus::harvest;
use crate::pool::Pool;

pub const LEXEMES: &[&str] = &[
    // the 30-lexeme sub-alphabet used for length 4 comes first
    "IF", "THEN", "ELSE", "END", "FOR", "TO", "NEXT", "WHILE", "WEND", "DO", "LOOP", "SELECT", "CASE",
    "SUB", "DIM", "AS", "PRINT", "A", "A$", "1", "\"s\"", "(", ")", ",", "=", "+", "-", ":", "'", "\n",
    // 31..40: the quick alphabet ends here
    "STEP", "FUNCTION", "INTEGER", "CONST", "GOTO", "DATA", "B%", "CHR$", "LEN", "A(1)",
    // the rest of the alphabet (thorough)
    "STRING", "A.B", "1.5", ".5#", "&HFF", "&O7", ";", "*", "/", "<", ">", ".", "#", "NOT", "AND", "MOD",
    "32767", "99999", "ON ERROR", "RESUME", "GOSUB", "RETURN", "TYPE", "SHARED", "STATIC", "DECLARE",
    "INPUT", "OPEN", "CLOSE", "#1", "LINE", "EXIT", "DEFINT", "A-Z", "REDIM", "LBOUND", "VARPTR", "IS",
    "UNTIL", "USING", "LPRINT", "FIELD", "LSET", "GET", "PUT", "NAME", "KILL", "READ", "VIEW", "ERR",
];

/// Classifies one text with the real parser + linter and judges the error position.
/// Returns (class, nontrivial, Option<(signature, summary)>).
pub fn judge_text(text: &str) -> (String, bool, Option<(String, String)>) {
    let lines = split_lines(text);
    // A position is inside the text if it is the position of one of its characters (the
    // characters of a line end occupy the columns after the line's last character: one for
    // CR or LF, two for CR LF), and "immediately at its end" if it is one column further,
    // or the first column of the line after the last line end.
    let has_crlf = text.contains("\r\n");
    let in_bounds = |row: u32, col: u32| -> bool {
        if row < 1 || col < 1 {
            return false;
        }
        let r = row as usize;
        if r > lines.len() + 1 {
            return false;
        }
        if r > lines.len() {
            return col == 1;
        }
        let len = lines[r - 1].chars().count();
        let eol = if r == lines.len() { 0 } else if has_crlf { 2 } else { 1 };
        (col as usize) <= len + eol + 1
    };
    let program = match try_parse(text) {
        Err(end) => {
            let sig = format!("C07|{}", end.class());
            return ("panic".into(), true, Some((sig, format!("parser: {:?}", end))));
        }
        Ok(Err(e)) => {
            let end = parse_err_end(&e);
            if let End::ParseError { kind, row, col } = &end {
                let nontrivial = *row > 1 || *col > 1;
                if !in_bounds(*row, *col) {
                    return (
                        format!("parse:{}", kind),
                        nontrivial,
                        Some((
                            format!("C07|position|parse:{}", kind),
                            format!(
                                "parse error {:?} reported at {}:{} which is outside the text ({} lines)",
                                e.element,
                                row,
                                col,
                                lines.len()
                            ),
                        )),
                    );
                }
                return (format!("parse:{}", kind), nontrivial, None);
            }
            unreachable!()
        }
        Ok(Ok(p)) => p,
    };
    match try_lint(program) {
        Err(end) => {
            let sig = format!("C07|{}", end.class());
            ("panic".into(), true, Some((sig, format!("linter: {:?}", end))))
        }
        Ok(Err(e)) => {
            let end = lint_err_end(&e);
            if let End::LintError { kind, row, col } = &end {
                if !in_bounds(*row, *col) {
                    return (
                        format!("lint:{}", kind),
                        true,
                        Some((
                            format!("C07|position|lint:{}", kind),
                            format!(
                                "lint error {:?} reported at {}:{} which is outside the text ({} lines)",
                                e.element,
                                row,
                                col,
                                lines.len()
                            ),
                        )),
                    );
                }
                return (format!("lint:{}", kind), true, None);
            }
            unreachable!()
        }
        Ok(Ok(_)) => ("accepted".into(), !text.trim().is_empty(), None),
    }
}

pub fn worker(case: &Value) -> Value {
    let texts = case["texts"].as_array().cloned().unwrap_or_default();
    if case["classify"].as_bool() == Some(true) {
        // seed selection: the class of every text (violations are left to the group that judges the same texts)
        let classes: Vec<String> = texts.iter().map(|t| judge_text(t.as_str().unwrap_or("")).0).collect();
        return json!({"n": 0, "nontrivial": 0, "hist": {}, "bad": [], "classes": classes});
    }
    let mut hist: std::collections::BTreeMap<String, u64> = Default::default();
    let mut bads = vec![];
    let mut nontrivial = 0u64;
    for t in &texts {
        let text = t.as_str().unwrap_or("");
        let (class, nt, bad) = judge_text(text);
        let bucket = if class.starts_with("parse:") {
            "rejected-by-parser"
        } else if class.starts_with("lint:") {
            "rejected-by-linter"
        } else {
            class.as_str()
        };
        *hist.entry(bucket.to_string()).or_insert(0) += 1;
        *hist.entry(format!("class/{}", strip_digits(&class))).or_insert(0) += 1;
        if nt {
            nontrivial += 1;
        }
        if let Some((sig, summary)) = bad
            && bads.len() < 20
        {
            bads.push(json!({"sig": sig, "summary": format!("{} — text: {:?}", summary, truncate(text, 200)), "text": text, "case": {"texts": [text]}}));
        }
    }
    json!({"n": texts.len(), "nontrivial": nontrivial, "hist": hist, "bad": bads})
}

fn truncate(s: &str, n: usize) -> String {
    if s.chars().count() <= n {
        s.to_string()
    } else {
        let t: String = s.chars().take(n).collect();
        format!("{}…", t)
    }
}

fn soup(idx: &[usize], tight: bool) -> String {
    let mut s = String::new();
    for (k, i) in idx.iter().enumerate() {
        let lex = LEXEMES[*i];
        if k > 0 {
            let prev = LEXEMES[idx[k - 1]];
            let symbolic = |l: &str| l.len() == 1 && !l.chars().next().unwrap().is_ascii_alphanumeric();
            let glue = tight && (symbolic(prev) || symbolic(lex));
            if !glue && prev != "\n" && lex != "\n" {
                s.push(' ');
            }
        }
        s.push_str(lex);
    }
    s
}

fn soups(alphabet: usize, len: usize, tight: bool, out: &mut Vec<String>) {
    let mut idx = vec![0usize; len];
    loop {
        out.push(soup(&idx, tight));
        let mut k = len;
        loop {
            if k == 0 {
                return;
            }
            k -= 1;
            idx[k] += 1;
            if idx[k] < alphabet {
                break;
            }
            idx[k] = 0;
        }
    }
}

/// Single-edit mutations of a text at token level.
pub fn single_edits(text: &str, every_char_truncation: bool) -> Vec<String> {
    let toks = tokenize(text);
    let mut out = vec![];
    let solid: Vec<usize> = toks
        .iter()
        .enumerate()
        .filter(|(_, t)| t.kind != TokKind::Blank)
        .map(|(i, _)| i)
        .collect();
    // truncate at every token boundary
    for &i in &solid {
        out.push(join(&toks[..i]));
    }
    if every_char_truncation {
        let chars: Vec<char> = text.chars().collect();
        for i in 0..chars.len() {
            out.push(chars[..i].iter().collect());
        }
    }
    for (k, &i) in solid.iter().enumerate() {
        // delete
        let mut t = toks.clone();
        t.remove(i);
        out.push(join(&t));
        // duplicate (with a blank in between so that words do not fuse)
        let mut t = toks.clone();
        let copy = t[i].clone();
        t.insert(i + 1, copy);
        if t[i].kind == TokKind::Word || t[i].kind == TokKind::Number {
            t.insert(
                i + 1,
                vcore::btok::Tok {
                    kind: TokKind::Blank,
                    text: " ".into(),
                },
            );
        }
        out.push(join(&t));
        // swap with the next solid token
        if k + 1 < solid.len() {
            let j = solid[k + 1];
            let mut t = toks.clone();
            t.swap(i, j);
            out.push(join(&t));
        }
    }
    out
}

const HOSTILE: &[&str] = &[
    "\0", "\t", "\u{b}", "\u{7f}", "\r", "é", "中", "\u{1F600}", "\u{feff}", "\"", "\\", "`", "~", "@", "?", "[", "{", "|", "^", "_",
];

fn hostile_insertions(text: &str) -> Vec<String> {
    let toks = tokenize(text);
    let mut out = vec![];
    for i in 0..=toks.len() {
        for h in HOSTILE {
            let mut s = join(&toks[..i]);
            s.push_str(h);
            s.push_str(&join(&toks[i..]));
            out.push(s);
        }
    }
    out
}

fn ladders(depths: &[usize]) -> Vec<String> {
    let mut out = vec![];
    for &d in depths {
        out.push(format!("PRINT {}1{}", "(".repeat(d), ")".repeat(d)));
        out.push(format!("PRINT {}1", "-".repeat(d)));
        out.push(format!("PRINT {}1", "NOT ".repeat(d)));
        out.push(format!("PRINT {}1", "- NOT ".repeat(d / 2)));
        out.push(format!("X = {}1{}", "A(".repeat(d), ")".repeat(d)));
        // a keyword or operator directly followed by a parenthesis, nested
        out.push(format!("PRINT {}1{}", "NOT(".repeat(d), ")".repeat(d)));
        out.push(format!("PRINT {}1{}", "-(".repeat(d), ")".repeat(d)));
        out.push(format!("PRINT {}1{}", "1 AND(".repeat(d), ")".repeat(d)));
        out.push(format!("PRINT {}1{}", "1 OR (".repeat(d), ")".repeat(d)));
        out.push(format!("PRINT {}1{}", "1 MOD(".repeat(d), ")".repeat(d)));
        out.push(format!("PRINT {}1{}", "1+(".repeat(d), ")".repeat(d)));
        out.push(format!("PRINT {}1{}", "1 <(".repeat(d), ")".repeat(d)));
        out.push(format!("PRINT {}\"a\"{}", "LEN(STR$(".repeat(d / 2), "))".repeat(d / 2)));
        out.push(format!("WHILE{}1{}\nWEND", "(".repeat(d), ")".repeat(d)));
        out.push(format!("IF{}1{}THEN PRINT 1", "(".repeat(d), ")".repeat(d)));
        out.push(format!("{}PRINT 1", "IF X THEN ".repeat(d)));
        out.push(format!("{}PRINT 1{}", "IF X THEN ".repeat(d / 2), " ELSE PRINT 2".repeat(d / 2)));
        let mut s = String::new();
        for _ in 0..d {
            s.push_str("IF X THEN\n");
        }
        s.push_str("PRINT 1\n");
        for _ in 0..d {
            s.push_str("END IF\n");
        }
        out.push(s);
        let mut s = String::new();
        for i in 0..d {
            s.push_str(&format!("FOR I{} = 1 TO 2\n", i));
        }
        s.push_str("PRINT 1\n");
        for _ in 0..d {
            s.push_str("NEXT\n");
        }
        out.push(s);
        let mut s = String::new();
        for _ in 0..d {
            s.push_str("DO WHILE X\n");
        }
        for _ in 0..d {
            s.push_str("LOOP\n");
        }
        out.push(s);
        let mut s = String::new();
        for _ in 0..d {
            s.push_str("WHILE X\n");
        }
        for _ in 0..d {
            s.push_str("WEND\n");
        }
        out.push(s);
        let mut s = String::new();
        for _ in 0..d {
            s.push_str("SELECT CASE X\nCASE 1\n");
        }
        for _ in 0..d {
            s.push_str("END SELECT\n");
        }
        out.push(s);
        out.push(format!("{}PRINT 1", "IF X THEN ".repeat(d)));
        // unbalanced versions
        out.push(format!("PRINT {}1", "(".repeat(d)));
        out.push("IF X THEN\n".repeat(d));
        out.push(format!("PRINT 1{}", " + 1".repeat(d)));
        out.push(format!("PRINT \"a\"{}", " + \"a\"".repeat(d)));
    }
    out
}

pub fn drive(tier: &str) -> i32 {
    let quick = tier == "quick";
    let mut run = Run::new("C07", tier);
    run.crash_is_violation = true;
    let mut pool = Pool::new("C07");
    pool.timeout_ms = 20_000;

    let h = harvest();
    // classify the corpus on the fly to find the accepted seeds
    let corpus: Vec<(String, String)> = h.texts.clone();

    // ---- enumeration, smallest first ----
    let mut groups: Vec<(String, Vec<String>)> = vec![];
    let mut s1 = vec![];
    for len in 1..=3 {
        soups(if quick { 40 } else { LEXEMES.len() }, len, false, &mut s1);
    }
    groups.push((format!("token soups, length <= 3 over {} lexemes, spaced", if quick { 40 } else { LEXEMES.len() }), s1));
    let mut s2 = vec![];
    for len in 2..=(if quick { 2 } else { 3 }) {
        soups(if quick { 40 } else { LEXEMES.len() }, len, true, &mut s2);
    }
    groups.push(("token soups, tight spelling (no blank next to a symbol)".into(), s2));
    groups.push(("nesting-depth ladders".into(), ladders(if quick { &[50, 100, 200] } else { &[50, 100, 200, 300] })));
    groups.push((
        format!("statement templates x operand menu ({} free slot(s) at a time)", if quick { 1 } else { 2 }),
        vcore::slots::instantiate(if quick { 1 } else { 2 })
            .into_iter()
            .map(|(_, s)| vcore::slots::program(&s))
            .collect(),
    ));
    groups.push((
        format!("statement soups: all sequences of <= {} statements over a {}-statement menu", if quick { 2 } else { 3 }, vcore::slots::SOUP_STATEMENTS.len()),
        vcore::slots::statement_soups(if quick { 2 } else { 3 }, 30),
    ));
    groups.push((
        format!("block skeletons: every block construct x optional parts x empty/comment/statement bodies, nesting depth {}", if quick { 1 } else { 2 }),
        vcore::slots::block_skeletons(if quick { 1 } else { 2 }).into_iter().map(|b| format!("X = 0\n{}PRINT \"end\"\n", b)).collect(),
    ));
    groups.push((
        "statement templates inside 8 containers (SUB / FUNCTION / STATIC SUB bodies, single-line IF, IF in FOR, CASE, ELSE in WHILE, SUB with shared declarations)".into(),
        vcore::slots::instantiate_in_containers(if quick { &[] } else { &[0, 3] }),
    ));
    groups.push((
        "statement templates cut after every token and with every single token deleted".into(),
        vcore::slots::edited_templates().into_iter().map(|s| vcore::slots::program(&s)).collect(),
    ));
    groups.push((
        "long tokens: identifiers of 39 .. 1000 characters in 10 roles, numbers of 5 .. 5000 digits in every notation and 9 places, lists of 10 .. 1000 items, very long lines, 66 000 lines".into(),
        vcore::slots::long_token_programs(),
    ));
    {
        // flat chains: no nesting at all in the text, thousands of operands
        let mut flat = vec![];
        for n in [300usize, 1000, 3000, 10000] {
            for op in [" + ", " * ", " AND ", " OR ", " - ", " < "] {
                flat.push(format!("X = {}\n", vec!["1"; n].join(op)));
            }
            flat.push(format!("X$ = {}\n", vec!["\"a\""; n].join(" + ")));
            flat.push(format!("PRINT {}\n", vec!["1"; n].join(" + ")));
            flat.push(format!("IF {} THEN PRINT 1\n", vec!["A"; n].join(" OR ")));
        }
        groups.push(("flat operator chains of 300 .. 10 000 operands (no nesting in the text)".into(), flat));
    }
    {
        // every shape of a name (bare, with each suffix, dotted, dotted with a suffix on the last or an inner part, on an
        // array element, with empty parentheses) at the head of every kind of statement that starts with a name
        let names = [
            "A", "A$", "A%", "A.B", "A.B$", "A.B%", "A.B.C", "A.B.C$", "A$.B", "A%.B$", "A(1)", "A(1).B", "A(1).B$", "A(1).B.C$", "A$(1).B", "A()", "A().B", "A().B$", "A(1)(2)", "A.B(1)", "A.B$(1)", "A..B", "A.", "A.$", "A.B.", ".A",
            "Emp.Name$", "R.F", "R.F$", "R.G.H%", "T(2).F$",
        ];
        let decl = "TYPE Inner\n  H AS INTEGER\nEND TYPE\nTYPE Rec\n  F AS STRING * 3\n  G AS Inner\nEND TYPE\nDIM R AS Rec\nDIM T(3) AS Rec\n";
        let mut texts = vec![];
        for n in names {
            for form in [
                "{}", "{} 1", "{} \"x\"", "{} 1, 2", "{} (1)", "{}(1)", "{}: PRINT 1", "{} = 1", "{} = \"x\"", "CALL {}", "CALL {}(1)", "CALL {} (1, 2)", "LET {} = 1", "PRINT {}", "PRINT {}; {}", "X = {}", "X$ = {} + \"\"",
                "FOR {} = 1 TO 2\nNEXT", "FOR I = 1 TO 2\nNEXT {}", "INPUT {}", "LINE INPUT {}", "READ {}", "DIM {}", "DIM {} AS INTEGER", "DIM {}(2)", "REDIM {}(2)", "CONST {} = 1", "GOTO {}", "GOSUB {}", "SUB {}\nEND SUB", "FUNCTION {}\nEND FUNCTION",
                "DECLARE SUB {} ()", "SELECT CASE {}\nCASE 1\nEND SELECT", "IF {} THEN PRINT 1", "WHILE {}\nWEND", "LSET {} = \"x\"", "FIELD #1, 2 AS {}", "X = LEN({})", "X = VARPTR({})", "DEF SEG = {}", "SWAP {}, X", "ON ERROR GOTO {}", "RESUME {}",
            ] {
                let stmt = form.replace("{}", n);
                texts.push(format!("{}\n", stmt));
                texts.push(format!("{}{}\n", decl, stmt));
            }
        }
        groups.push(("31 name shapes (bare, suffixed, dotted, dotted with a suffix, on array elements) x 43 statement heads, with and without declarations".into(), texts));
    }
    {
        // the names of the built-in functions and statements used as ordinary names: without their `$`, with another
        // suffix, read before anything was assigned, assigned, declared, passed and received as a parameter
        let words = [
            "CHR", "STR", "STRING", "LEFT", "MID", "RIGHT", "SPACE", "UCASE", "LCASE", "LTRIM", "RTRIM", "HEX", "OCT", "INKEY", "INPUT", "ENVIRON", "MKD", "CVD", "LEN", "VAL", "ASC", "INSTR", "EOF", "LBOUND", "UBOUND", "PEEK",
            "VARPTR", "VARSEG", "ERR", "ERL", "TIMER", "DATE", "TIME", "CLS", "COLOR", "LOCATE", "BEEP", "KILL", "NAME", "CLOSE", "OPEN", "FIELD", "GET", "PUT", "LSET", "POKE", "WIDTH", "VIEW", "SEG", "USING", "STEP", "TO", "IS", "AS",
            "ACCESS", "APPEND", "OUTPUT", "RANDOM", "BASE", "ANY", "ABSOLUTE",
        ];
        let mut texts = vec![];
        for w in words {
            for sfx in ["", "$", "%", "#"] {
                let n = format!("{}{}", w, sfx);
                for form in [
                    "X = {}", "X$ = {}", "IF {} = 0 THEN PRINT 1", "PRINT {}", "PRINT {}; 1", "{} = 1", "{} = \"x\"", "DIM {}", "DIM {} AS INTEGER", "DIM {}(3)\n{}(1) = 2", "{} 1", "{}", "S {}\nSUB S (P)\nEND SUB", "SUB S ({})\n  PRINT {}\nEND SUB",
                    "SUB S\n  X = {}\nEND SUB", "FUNCTION F ({})\n  F = {}\nEND FUNCTION", "FOR {} = 1 TO 2\nNEXT", "INPUT {}", "READ {}", "CONST {} = 1", "X = LEN({})", "X = {} + {}", "X = {}(1)", "X$ = {}(1, 2)", "SELECT CASE {}\nCASE 1\nEND SELECT",
                    "WHILE {}\nWEND", "{}: PRINT 1", "GOTO {}", "TYPE T\n  {} AS INTEGER\nEND TYPE", "DIM R AS T\nR.{} = 1",
                ] {
                    texts.push(format!("{}\n", form.replace("{}", &n)));
                }
            }
        }
        groups.push(("61 words of the built-in repertoire (function names without their $, statement and clause keywords) with 4 suffixes as ordinary names in 30 statement forms".into(), texts));
    }
    {
        // argument lists made of commas: omitted arguments at every count around the powers of two, with and without a last argument
        let mut texts = vec![];
        for head in ["COLOR ", "LOCATE ", "PRINT ", "LPRINT ", "PRINT #1, ", "INPUT ", "READ ", "DATA ", "S ", "CALL S(", "X = F(", "VIEW PRINT ", "WIDTH ", "FIELD #1, ", "OPEN ", "CLOSE ", "DIM A(", "PRINT A(", "PRINT USING \"#\"; ", "LINE INPUT ", "GET #1, ", "POKE ", "SWAP ", "NAME ", "ON ERROR GOTO ", "SCREEN "] {
            for n in [1usize, 2, 3, 4, 5, 8, 15, 16, 17, 31, 32, 33, 63, 64, 65, 100, 255, 256, 257, 1000] {
                for last in ["", "7", "\"x\"", "A"] {
                    let close = if head.ends_with('(') { ")" } else { "" };
                    texts.push(format!("{}{}{}{}\n", head, ",".repeat(n), last, close));
                    if n <= 5 {
                        texts.push(format!("{}1{}{}{}\n", head, ", ".repeat(n), last, close));
                    }
                }
            }
        }
        groups.push(("argument lists of 1 .. 1000 commas (omitted arguments) behind 26 statement heads, with and without a last argument".into(), texts));
    }
    groups.push(("harvested texts as they are".into(), corpus.iter().map(|(_, t)| t.clone()).collect()));

    // seeds for edits: accepted programs; quick = first program per source file + fixtures.
    // The texts are classified in worker processes (a text that makes the parser hang or die must not
    // stop the driver; it is reported by the group "harvested texts as they are").
    let mut seeds: Vec<(String, String)> = vec![];
    {
        let candidates: Vec<&(String, String)> = corpus.iter().filter(|(_, text)| (6..=400).contains(&tokenize(text).len())).collect();
        let mut accepted: HashSet<u64> = HashSet::new();
        let chunks: Vec<Vec<String>> = candidates.chunks(10).map(|c| c.iter().map(|(_, t)| t.clone()).collect()).collect();
        let cases: Vec<Value> = chunks.iter().map(|c| json!({"classify": true, "texts": c})).collect();
        let mut cpool = Pool::new("C07");
        cpool.timeout_ms = 10_000;
        cpool.run(cases.into_iter(), |_, case, resp| {
            if let crate::pool::Resp::Ok(v) = resp
                && let (Some(ts), Some(cs)) = (case["texts"].as_array(), v["classes"].as_array())
            {
                for (t, c) in ts.iter().zip(cs.iter()) {
                    if c.as_str() == Some("accepted") {
                        accepted.insert(vcore::fnv1a(t.as_str().unwrap_or("")));
                    }
                }
            }
        });
        let mut seen_files: HashSet<String> = HashSet::new();
        for (origin, text) in candidates {
            let file = origin.split('#').next().unwrap_or("").to_string();
            if quick && seen_files.contains(&file) {
                continue;
            }
            if !accepted.contains(&vcore::fnv1a(text)) {
                continue;
            }
            seen_files.insert(file);
            seeds.push((origin.clone(), text.clone()));
        }
    }
    let mut edits = vec![];
    let mut seed_count = 0;
    let edit_budget = if quick { 9_000 } else { 400_000 };
    for (_, text) in &seeds {
        if edits.len() >= edit_budget {
            break;
        }
        seed_count += 1;
        edits.extend(single_edits(text, !quick && text.len() < 300));
    }
    groups.push((format!("single token-level edits (truncate/delete/duplicate/swap at every token) of {} seeds", seed_count), edits));
    let hostile_seeds: Vec<&(String, String)> = seeds.iter().filter(|(_, t)| t.len() < 400).take(if quick { 3 } else { 12 }).collect();
    let mut hostile = vec![];
    for (_, t) in hostile_seeds {
        hostile.extend(hostile_insertions(t));
    }
    groups.push(("hostile characters inserted at every token boundary".into(), hostile));
    if !quick {
        let mut s4 = vec![];
        soups(30, 4, false, &mut s4);
        groups.push(("token soups, length 4 over the 30-lexeme sub-alphabet".into(), s4));
    }

    let mut seen: HashSet<u64> = HashSet::new();
    let mut group_report = vec![];
    let mut samples = vec![];
    for (name, texts) in groups {
        if run.over_cap() {
            run.capped = true;
            group_report.push(json!({"group": name, "generated": texts.len(), "completed": false}));
            continue;
        }
        let mut unique: Vec<String> = vec![];
        for t in texts {
            if seen.insert(vcore::fnv1a(&t)) {
                unique.push(t);
            }
        }
        if let Some(first) = unique.first() {
            samples.push(json!({"group": name, "first": truncate(first, 120), "median": truncate(&unique[unique.len() / 2], 120), "last": truncate(unique.last().unwrap(), 120)}));
        }
        let chunk = if name.contains("ladder") { 1 } else { 40 };
        group_report.push(super::run_text_group(&mut run, &pool, &name, &unique, chunk, &json!({})));
    }
    // non-vacuity (of a complete run without violations: hanging inputs use up the wall clock)
    if !run.capped
        && run.reporter.violation_count() == 0
        && (run.hist.get("accepted").copied().unwrap_or(0) == 0
            || run.hist.get("rejected-by-parser").copied().unwrap_or(0) == 0
            || run.hist.get("rejected-by-linter").copied().unwrap_or(0) == 0)
    {
        if std::env::var("VERIF_DEBUG").is_ok() {
            eprintln!("debug: hist {:?} groups {:?} hangs {} crashes {}", run.hist, group_report, run.hangs, run.crashes);
        }
        run.machinery.push("non-vacuity: the run did not see accepted, parser-rejected and linter-rejected inputs".into());
    }
    let mut ev = Evidence::new("exploration");
    ev.set("rule", "every text of each enumerated group (duplicates across groups removed) goes through parse_main_str + lint in a crash-isolated worker (8 MiB main-thread stack, watchdog); non-trivial = the parser got past the first token (error not at 1:1) or the linter ran; distinct by construction (texts de-duplicated by hash before dispatch)");
    ev.set("exhaustive", !run.capped);
    ev.set("groups", json!(group_report));
    ev.set("samples", json!(samples));
    ev.set("corpus_texts", h.texts.len() as u64);
    ev.set("corpus_files_scanned", h.files_scanned as u64);
    ev.assume("row/col oracle: 1 <= row <= lines+1 and 1 <= col <= len(line)+1 with CR LF, CR and LF each ending a line");
    ev.assume("nesting depth ladders stop at 300 (quick: 200); the property bounds nesting to a few hundred levels");
    run.finish(ev)
}
