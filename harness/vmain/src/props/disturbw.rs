//! History independence (vcore::disturb): program S run after each disturbing prefix must print what the
//! prefix prints followed by what S prints alone, and end as S ends alone. Shared by the properties whose
//! programs pass arguments by reference, store into typed variables or print (C03 C04 C05 C06 C16).

use std::collections::BTreeMap;

use serde_json::{Value, json};
use vcore::disturb::{PREFIXES, combine, prefix_alone};
use vcore::{End, Outcome};

use super::{Run, truncate_text};
use crate::bind::{RunOpts, run_pipeline};
use crate::pool::Pool;

fn judged(o: &Outcome) -> bool {
    !matches!(o.end, End::Panic { .. } | End::Crash { .. } | End::Hang | End::Budget)
}

pub fn worker(prop: &str, case: &Value) -> Value {
    let mut hist: BTreeMap<String, u64> = BTreeMap::new();
    let mut bads: Vec<Value> = vec![];
    let mut n = 0u64;
    let mut nontrivial = 0u64;
    let monitor = case["monitor"].as_bool().unwrap_or(false);
    let stdin = case["stdin"].as_str().unwrap_or("1\n2\n3\n").as_bytes().to_vec();
    let opts = RunOpts { budget: 600_000, stdin, check_types: monitor, ..RunOpts::default() };
    let only: Option<usize> = case["prefix"].as_u64().map(|k| k as usize);
    let mut alone: Vec<Option<Outcome>> = vec![None; PREFIXES.len()];
    let mut sample = Value::Null;
    for t in case["texts"].as_array().cloned().unwrap_or_default() {
        let text = t.as_str().unwrap_or("");
        if combine(&PREFIXES[0], text).is_none() {
            *hist.entry("not applicable (shape of the text, or it mentions a Zq name)".into()).or_insert(0) += 1;
            continue;
        }
        let base = run_pipeline(text, &opts);
        n += 1;
        if !judged(&base) {
            *hist.entry(format!("program alone not judged: {}", base.end.class().split('@').next().unwrap_or(""))).or_insert(0) += 1;
            continue;
        }
        for (k, p) in PREFIXES.iter().enumerate() {
            if only.map(|o| o != k).unwrap_or(false) {
                continue;
            }
            if alone[k].is_none() {
                alone[k] = Some(run_pipeline(&prefix_alone(p), &opts));
                n += 1;
            }
            let pa = alone[k].clone().unwrap();
            if !matches!(pa.end, End::Normal) {
                // the prefix itself must run to its end on the tree under test; C08 / C05 judge it, not this group
                *hist.entry(format!("prefix {} alone ends with {}", k, pa.end.class().split('@').next().unwrap_or(""))).or_insert(0) += 1;
                continue;
            }
            let Some(both) = combine(p, text) else { continue };
            let o = run_pipeline(&both, &opts);
            n += 1;
            let accepted = !matches!(base.end, End::ParseError { .. } | End::LintError { .. });
            let mut want = pa.stdout.clone();
            want.extend_from_slice(&base.stdout);
            let why = if o.end.class() != base.end.class() {
                Some(format!("ends with {} instead of {}", o.end.class(), base.end.class()))
            } else if accepted && o.stdout != want {
                Some(format!("prints {:?}, the prefix alone prints {:?} and the program alone {:?}", truncate_text(&o.stdout_str(), 200), truncate_text(&pa.stdout_str(), 80), truncate_text(&base.stdout_str(), 200)))
            } else if let (true, Some((pc, what))) = (monitor, o.mon.as_ref().and_then(|m| m.type_violation.clone())) {
                if base.mon.as_ref().and_then(|m| m.type_violation.clone()).is_some() { None } else { Some(format!("a variable holds a value of another type (instruction {}): {}", pc, what)) }
            } else {
                None
            };
            match why {
                Some(w) => {
                    *hist.entry("differ".into()).or_insert(0) += 1;
                    if bads.len() < 25 {
                        bads.push(json!({
                            "sig": format!("{}|after-disturbance|prefix {}|{}->{}", prop, k, base.end.class().split('@').next().unwrap_or(""), o.end.class().split('@').next().unwrap_or("")),
                            "summary": format!("after the prefix `{}` the program {} — combined program: {:?}", p.name, w, truncate_text(&both, 900)),
                            "text": both,
                            "case": {"g": "disturb", "texts": [text], "prefix": k, "monitor": monitor},
                        }));
                    }
                }
                None => {
                    nontrivial += 1;
                    *hist.entry(format!("same after the prefix ({})", if accepted { base.end.class() } else { "rejected alike".into() })).or_insert(0) += 1;
                    if sample.is_null() && k == 0 {
                        sample = json!({"group": "after-disturbance", "prefix": p.name, "text": truncate_text(&both, 1200)});
                    }
                }
            }
        }
    }
    json!({"n": n, "nontrivial": nontrivial, "hist": hist, "bad": bads, "sample": sample})
}

/// Runs the group over `texts` (every `step`-th); returns the group's report for the evidence.
pub fn run_group(run: &mut Run, pool: &Pool, texts: &[String], step: usize, monitor: bool) -> Value {
    let sel: Vec<String> = texts.iter().step_by(step.max(1)).filter(|t| vcore::disturb::suitable(t) && vcore::disturb::split_program(t).is_some()).cloned().collect();
    let extra = json!({"g": "disturb", "monitor": monitor});
    let name = format!(
        "after-disturbance: {} programs (every {}-th of {}) after each of {} prefixes that trap a run-time error at an awkward moment (copy-back of by-reference values, the middle of an argument list, a FUNCTION called by a PRINT item, a STATIC subprogram two calls deep, the increment of a FOR, a built-in inside an argument, INPUT # on a closed file, a GOSUB routine): same output and end as the program alone",
        sel.len(),
        step.max(1),
        texts.len(),
        PREFIXES.len()
    );
    super::run_text_group(run, pool, &name, &sel, 8, &extra)
}

pub const ASSUMPTION: &str = "after-disturbance: the prefixes use only names that start with Zq, switch their handler off (ON ERROR GOTO 0) and end with a complete line; a prefix that does not run to a normal end by itself on the tree under test is counted and not used";
