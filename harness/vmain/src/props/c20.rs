//! C20 — parser combinators honour their backtracking and error contract.
//!
//! Every parser expression of depth <= D (vcore::pcmodel::Space) is built from the
//! real rusty_pc combinators, erased with `.boxed()`, and run on every input over
//! {a,b,c} up to a length bound at every start position. Result kind, value, error
//! value and position are compared with the denotational model; on top, two
//! model-independent invariants are checked on the implementation's own results.

use std::collections::BTreeMap;
use std::panic::{AssertUnwindSafe, catch_unwind};
use std::sync::OnceLock;

use rusty_pc::boxed::BoxedParser;
use rusty_pc::many::ManyCombiner;
use rusty_pc::many_ctx::ManyCtxParser;
use rusty_pc::*;
use serde_json::{Value, json};
use vcore::Evidence;
use vcore::pcmodel::{Comb, E, ErrMap, Model, OkMap, R, Space, TE, TRAILING, Val, inputs};

use super::Run;
use crate::pool::Pool;

pub struct TI {
    chars: Vec<char>,
    pos: usize,
}

impl InputTrait for TI {
    type Output = char;

    fn peek(&self) -> char {
        self.chars.get(self.pos).copied().unwrap_or('\0')
    }

    fn read(&mut self) -> char {
        let c = self.chars.get(self.pos).copied().unwrap_or('\0');
        self.pos += 1;
        c
    }

    fn get_position(&self) -> usize {
        self.pos
    }

    fn is_eof(&self) -> bool {
        self.pos >= self.chars.len()
    }

    fn set_position(&mut self, position: usize) {
        self.pos = position;
    }
}

#[derive(Clone, Debug, PartialEq, Eq, Default)]
pub struct PE(pub TE);

impl ParserErrorTrait for PE {
    fn is_fatal(&self) -> bool {
        !self.0.is_soft()
    }

    fn to_fatal(self) -> Self {
        PE(self.0.fatal())
    }
}

type BP = BoxedParser<TI, (), Val, PE>;

struct ListComb;

impl ManyCombiner<Val, Val> for ListComb {
    fn seed(&self, element: Val) -> Val {
        Val::List(vec![element])
    }

    fn accumulate(&self, result: Val, element: Val) -> Val {
        match result {
            Val::List(mut v) => {
                v.push(element);
                Val::List(v)
            }
            other => Val::List(vec![other, element]),
        }
    }
}

static AB: [char; 2] = ['a', 'b'];

fn pair(a: Val, b: Val) -> Val {
    Val::Pair(Box::new(a), Box::new(b))
}

/// Builds the real parser for an expression.
pub fn build(e: &E) -> BP {
    match e {
        E::Read => read_p::<TI, PE>().map(Val::Ch).boxed(),
        E::PeekP => peek_p::<TI, PE>().map(Val::Ch).boxed(),
        E::One(c) => one_p::<TI, char, PE>(*c).map(Val::Ch).boxed(),
        E::OneOfAB => one_of_p::<TI, char, PE>(&AB).map(Val::Ch).boxed(),
        E::Supply => supplier::<TI, (), _, Val, PE>(|| Val::Ch('x')).boxed(),
        E::FailSoft => err_supplier::<TI, (), _, Val, PE>(|| PE(TE::Soft(1))).boxed(),
        E::FailFatal => err_supplier::<TI, (), _, Val, PE>(|| PE(TE::Fatal(1))).boxed(),
        E::And(l, r, comb) => {
            let (l, r) = (build(l), build(r));
            match comb {
                Comb::Tuple => l.and_tuple(r).map(|(a, b)| pair(a, b)).boxed(),
                Comb::Left => l.and_keep_left(r).boxed(),
                Comb::Right => l.and_keep_right(r).boxed(),
            }
        }
        E::Or(l, r) => build(l).or(build(r)).boxed(),
        E::OrN(ps) => {
            let boxed: Vec<Box<dyn Parser<TI, (), Output = Val, Error = PE>>> = ps
                .iter()
                .map(|p| Box::new(build(p)) as Box<dyn Parser<TI, (), Output = Val, Error = PE>>)
                .collect();
            OrParser::new(boxed).boxed()
        }
        E::Many(p, allow_none) => {
            if *allow_none {
                build(p).many_allow_none(ListComb).boxed()
            } else {
                build(p).many(ListComb).boxed()
            }
        }
        E::Filter(p, want_a) => {
            let want = *want_a;
            build(p).filter(move |v: &Val| v.is_a() == want).boxed()
        }
        E::FilterMap(p) => build(p)
            .filter_map(|v: &Val| {
                if v.is_a() {
                    Some(Val::Mapped(Box::new(v.clone())))
                } else {
                    None
                }
            })
            .boxed(),
        E::Peek(p) => build(p).peek().boxed(),
        E::ToOption(p) => build(p)
            .to_option()
            .map(|o: Option<Val>| Val::Opt(o.map(Box::new)))
            .boxed(),
        E::OrDefault(p) => build(p).or_default().boxed(),
        E::Surround(l, m, r, mandatory) => surround(
            build(l),
            build(m),
            build(r),
            if *mandatory {
                SurroundMode::Mandatory
            } else {
                SurroundMode::Optional
            },
        )
        .boxed(),
        E::Delimited(p, d, allow_missing) => {
            if *allow_missing {
                build(p)
                    .delimited_by_allow_missing(build(d), PE(TRAILING))
                    .map(|v: Vec<Option<Val>>| {
                        Val::List(v.into_iter().map(|o| Val::Opt(o.map(Box::new))).collect())
                    })
                    .boxed()
            } else {
                build(p)
                    .delimited_by(build(d), PE(TRAILING))
                    .map(Val::List)
                    .boxed()
            }
        }
        E::Seq2(a, b) => seq2::<TI, (), PE, _, Val, Val, Val>(build(a), build(b), pair).boxed(),
        E::Seq3(a, b, c) => seq3::<TI, (), PE, _, Val, Val, Val, Val>(
            build(a),
            build(b),
            build(c),
            |x, y, z| pair(x, pair(y, z)),
        )
        .boxed(),
        E::ThenWithCtx(l) => build(l)
            .then_with_in_context(ctx_parser::<TI, Val, PE>(), |a: Val, b: Val| pair(a, b))
            .boxed(),
        E::ThenWithCtxAnd(l, r) => build(l)
            .then_with_in_context(
                ctx_parser::<TI, Val, PE>().and_tuple(build(r).no_context::<Val>()),
                |a: Val, (c, v): (Val, Val)| pair(a, pair(c, v)),
            )
            .boxed(),
        E::ThenWithIif(p, l, r) => build(p)
            .map(|v: Val| v.is_a())
            .then_with_in_context(
                IifCtxParser::new::<TI>(build(l), build(r)),
                |flag: bool, v: Val| pair(Val::Bool(flag), v),
            )
            .boxed(),
        E::ManyCtx(l, r, allow_none) => {
            let inner = IifCtxParser::new::<TI>(build(l), build(r));
            let p: ManyCtxParser<_, _, _, Val, bool> =
                ManyCtxParser::new::<TI>(inner, ListComb, |v: &Val| v.is_a(), *allow_none);
            Parser::<TI, ()>::boxed(p)
        }
        E::AndThen(p, m) => {
            let m = *m;
            build(p)
                .and_then(move |v: Val| match m {
                    OkMap::Id => Ok(Val::Mapped(Box::new(v))),
                    OkMap::SoftIfA => {
                        if v.is_a() {
                            Err(PE(TE::Soft(1)))
                        } else {
                            Ok(Val::Mapped(Box::new(v)))
                        }
                    }
                    OkMap::FatalIfA => {
                        if v.is_a() {
                            Err(PE(TE::Fatal(2)))
                        } else {
                            Ok(Val::Mapped(Box::new(v)))
                        }
                    }
                })
                .boxed()
        }
        E::AndThenErr(p, m) => {
            let m = *m;
            build(p)
                .and_then_err(move |_e: PE| match m {
                    ErrMap::ToOk => Ok(Val::Unit),
                    ErrMap::ToSoft => Err(PE(TE::Soft(1))),
                    ErrMap::ToFatal => Err(PE(TE::Fatal(2))),
                })
                .boxed()
        }
        E::Map(p) => build(p).map(|v: Val| Val::Mapped(Box::new(v))).boxed(),
        E::WithSoftErr(p) => build(p).with_soft_err(PE(TE::Soft(1))).boxed(),
        E::OrFail(p) => build(p).or_fail(PE(TE::Fatal(2))).boxed(),
        E::MapFatalErr(p) => build(p).map_fatal_err(PE(TE::Fatal(3))).boxed(),
        E::ToFatal(p) => build(p).to_fatal().boxed(),
        E::Lazy(p) => {
            let child: E = (**p).clone();
            lazy::<TI, (), _, BP>(move || build(&child)).boxed()
        }
        E::Boxed(p) => build(p).boxed().boxed(),
        E::Flatten(p) => build(p)
            .map(|v: Val| {
                if v.is_a() {
                    build(&E::One('b'))
                } else {
                    build(&E::Read)
                }
            })
            .flatten::<()>()
            .boxed(),
    }
}

/// What the implementation did on one (input, start position).
#[derive(Debug, Clone, PartialEq)]
enum Got {
    Ok(Val, usize),
    Soft(TE, usize),
    Fatal(TE, usize),
    Panic(String),
}

fn run_impl(parser: &mut BP, chars: &[char], pos: usize) -> Got {
    let mut input = TI {
        chars: chars.to_vec(),
        pos,
    };
    let r = catch_unwind(AssertUnwindSafe(|| parser.parse(&mut input)));
    match r {
        Ok(Ok(v)) => Got::Ok(v, input.pos),
        Ok(Err(PE(e))) => {
            if e.is_soft() {
                Got::Soft(e, input.pos)
            } else {
                Got::Fatal(e, input.pos)
            }
        }
        Err(_) => {
            let (file, msg) = crate::bind::take_panic();
            Got::Panic(format!("{}: {}", file, msg))
        }
    }
}

fn kind_model(r: &R) -> &'static str {
    match r {
        R::Ok(..) => "ok",
        R::Soft(..) => "soft",
        R::Fatal(..) => "fatal",
        R::Bottom => "bottom",
    }
}

fn kind_got(g: &Got) -> &'static str {
    match g {
        Got::Ok(..) => "ok",
        Got::Soft(..) => "soft",
        Got::Fatal(..) => "fatal",
        Got::Panic(..) => "panic",
    }
}

/// Compares; returns the divergence class if model and implementation disagree.
fn diverges(model: &R, got: &Got) -> Option<String> {
    match (model, got) {
        (R::Bottom, _) => None,
        (R::Ok(v, p), Got::Ok(v2, p2)) => {
            if v != v2 {
                Some("ok->ok:value".into())
            } else if p != p2 {
                Some("ok->ok:position".into())
            } else {
                None
            }
        }
        (R::Soft(e, p), Got::Soft(e2, p2)) => {
            if p != p2 {
                Some("soft->soft:position".into())
            } else if e != e2 {
                Some("soft->soft:error-value".into())
            } else {
                None
            }
        }
        (R::Fatal(e), Got::Fatal(e2, _)) => {
            if e != e2 {
                Some("fatal->fatal:error-value".into())
            } else {
                None
            }
        }
        (m, g) => Some(format!("{}->{}", kind_model(m), kind_got(g))),
    }
}

fn shape(e: &E) -> String {
    // head of the expression with the heads of its direct operands
    let mut kids: Vec<&'static str> = vec![];
    let mut first = true;
    e.walk(&mut |x| {
        if first {
            first = false;
        } else {
            kids.push(x.head());
        }
    });
    // walk is pre-order over all descendants; keep it short
    kids.truncate(4);
    format!("{}({})", e.head(), kids.join(","))
}

struct Checked {
    n: u64,
    nontrivial: u64,
    skipped_bottom: u64,
    first_bad: Option<(String, String)>,
    kinds: [u64; 3],
}

/// Runs one expression over all inputs; reports the first divergence (class, description).
fn check_expr(e: &E, all_inputs: &[Vec<char>], want_bad: bool) -> Checked {
    let mut c = Checked {
        n: 0,
        nontrivial: 0,
        skipped_bottom: 0,
        first_bad: None,
        kinds: [0; 3],
    };
    let mut parser = build(e);
    let exempt_soft_position = e.has_non_rewinding_mapper();
    for inp in all_inputs {
        // long inputs are run from the first three and the last three positions only
        let positions: Vec<usize> = if inp.len() > 12 { (0..3).chain(inp.len() - 2..=inp.len()).collect() } else { (0..=inp.len()).collect() };
        for pos in positions {
            let mut model = Model::new(inp);
            let expected = model.eval(e, pos);
            if expected == R::Bottom {
                c.skipped_bottom += 1;
                continue;
            }
            let got = run_impl(&mut parser, inp, pos);
            c.n += 1;
            if model.consumed {
                c.nontrivial += 1;
            }
            match &got {
                Got::Ok(..) => c.kinds[0] += 1,
                Got::Soft(..) => c.kinds[1] += 1,
                Got::Fatal(..) => c.kinds[2] += 1,
                Got::Panic(_) => {}
            }
            if c.first_bad.is_some() || !want_bad {
                if let Got::Panic(_) = got {
                    // a panicking parser object may be left in a broken state
                    parser = build(e);
                }
                if !want_bad && diverges(&expected, &got).is_some() {
                    c.first_bad = Some(("x".into(), String::new()));
                    return c;
                }
                continue;
            }
            let mut class = diverges(&expected, &got);
            // model-independent invariants on the implementation's own result
            if class.is_none() {
                match &got {
                    Got::Ok(_, p2) if *p2 < pos => class = Some("invariant:ok-moved-backwards".into()),
                    Got::Soft(_, p2) if *p2 != pos && !exempt_soft_position => {
                        class = Some("invariant:soft-failure-moved-position".into())
                    }
                    _ => {}
                }
            }
            if let Some(class) = class {
                let text: String = inp.iter().collect();
                c.first_bad = Some((
                    class,
                    format!(
                        "{} on input {:?} from position {}: documented semantics give {:?}, implementation gives {:?}",
                        e, text, pos, expected, got
                    ),
                ));
            }
            if let Got::Panic(_) = got {
                parser = build(e);
            }
        }
    }
    c
}

fn direct_children(e: &E) -> Vec<E> {
    let mut out = vec![];
    match e {
        E::And(a, b, _)
        | E::Or(a, b)
        | E::Delimited(a, b, _)
        | E::Seq2(a, b)
        | E::ThenWithCtxAnd(a, b)
        | E::ManyCtx(a, b, _) => {
            out.push((**a).clone());
            out.push((**b).clone());
        }
        E::OrN(v) => out.extend(v.iter().cloned()),
        E::Surround(a, b, c, _) | E::Seq3(a, b, c) | E::ThenWithIif(a, b, c) => {
            out.push((**a).clone());
            out.push((**b).clone());
            out.push((**c).clone());
        }
        E::Many(p, _)
        | E::Filter(p, _)
        | E::FilterMap(p)
        | E::Peek(p)
        | E::ToOption(p)
        | E::OrDefault(p)
        | E::ThenWithCtx(p)
        | E::AndThen(p, _)
        | E::AndThenErr(p, _)
        | E::Map(p)
        | E::WithSoftErr(p)
        | E::OrFail(p)
        | E::MapFatalErr(p)
        | E::ToFatal(p)
        | E::Lazy(p)
        | E::Boxed(p)
        | E::Flatten(p) => out.push((**p).clone()),
        _ => {}
    }
    out
}

/// Inputs far longer than the exhaustive ones: runs of one letter, alternations (element / delimiter lists with and
/// without a trailing delimiter), a different last or first letter; lengths around 8, 16, 64, 256 and 1000.
fn long_inputs() -> Vec<Vec<char>> {
    let mut out = vec![];
    for n in [8usize, 9, 16, 17, 63, 64, 65, 255, 256, 257, 1000] {
        let rep = |pat: &str, len: usize| -> Vec<char> { pat.chars().cycle().take(len).collect() };
        out.push(rep("a", n));
        out.push(rep("ab", n));
        out.push(rep("ba", n));
        out.push(rep("abc", n));
        let mut v = rep("a", n - 1);
        v.push('b');
        out.push(v);
        let mut v = rep("a", n - 1);
        v.push('c');
        out.push(v);
        let mut v = vec!['b'];
        v.extend(rep("a", n - 1));
        out.push(v);
        let mut v = rep("ab", n - 1);
        v.push('c');
        out.push(v);
    }
    out
}

static SPACE: OnceLock<Space> = OnceLock::new();

pub fn worker(case: &Value) -> Value {
    let space = SPACE.get_or_init(Space::new);
    let depth = case["depth"].as_u64().unwrap() as u32;
    let lo = case["lo"].as_u64().unwrap();
    let hi = case["hi"].as_u64().unwrap();
    let max_len = case["maxlen"].as_u64().unwrap() as usize;
    let all_inputs = if case["long"].as_bool().unwrap_or(false) { long_inputs() } else { inputs(max_len) };
    let mut n = 0u64;
    let mut nontrivial = 0u64;
    let mut bottoms = 0u64;
    let mut derived = 0u64;
    let mut bads: Vec<Value> = vec![];
    let mut heads: BTreeMap<&'static str, u64> = BTreeMap::new();
    let mut kinds = [0u64; 3];
    let mut sample = Value::Null;
    for idx in lo..hi {
        let e = space.nth(depth, idx);
        *heads.entry(e.head()).or_insert(0) += 1;
        let c = check_expr(&e, &all_inputs, true);
        n += c.n;
        nontrivial += c.nontrivial;
        bottoms += c.skipped_bottom;
        for k in 0..3 {
            kinds[k] += c.kinds[k];
        }
        if idx == lo {
            sample = json!({"depth": depth, "index": idx, "expr": e.to_string(), "inputs": all_inputs.len(), "runs": c.n});
        }
        if let Some((class, text)) = c.first_bad {
            // a divergence that already shows in a direct operand is reported there
            let inherited = direct_children(&e)
                .iter()
                .any(|k| check_expr(k, &all_inputs, false).first_bad.is_some());
            if inherited {
                derived += 1;
            } else if bads.len() < 50 {
                bads.push(json!({
                    "sig": format!("C20|{}|{}", e.head(), class),
                    "shape": shape(&e),
                    "summary": text,
                    "expr": e.to_string(),
                    "case": {"depth": depth, "lo": idx, "hi": idx + 1, "maxlen": max_len},
                }));
            }
        }
    }
    json!({
        "n": n,
        "nontrivial": nontrivial,
        "bottoms": bottoms,
        "derived": derived,
        "bad": bads,
        "heads": heads,
        "hist": {"impl-ok": kinds[0], "impl-soft": kinds[1], "impl-fatal": kinds[2]},
        "sample": sample,
    })
}

pub fn drive(tier: &str) -> i32 {
    let mut run = Run::new("C20", tier);
    run.crash_is_violation = true;
    let mut pool = Pool::new("C20");
    pool.timeout_ms = 60_000;
    let space = Space::new();
    // (depth, max input length); smallest first
    // max input length 0 stands for the ladder of long inputs (8 .. 1000 letters)
    let plan: Vec<(u32, usize)> = if tier == "quick" {
        vec![(1, 4), (2, 4), (1, 0), (2, 0), (3, 3)]
    } else {
        vec![(1, 6), (2, 6), (1, 0), (2, 0), (3, 0), (3, 5), (4, 3)]
    };
    let mut completed: Vec<Value> = vec![];
    let mut heads: BTreeMap<String, u64> = BTreeMap::new();
    let mut bottoms = 0u64;
    let mut derived = 0u64;
    let mut exprs_done = 0u64;
    for (depth, max_len) in plan {
        if run.over_cap() {
            run.capped = true;
            completed.push(json!({"depth": depth, "max_input_len": max_len, "expressions": space.count(depth), "completed": false, "expressions_done": 0}));
            continue;
        }
        let total = space.count(depth);
        let chunk = if depth <= 2 { 64 } else { 512 };
        let start_wall = run.reporter.wall_s();
        let cap = run.wall_cap_s;
        let t0 = std::time::Instant::now();
        let mut dispatched = 0u64;
        let cases = (0..total.div_ceil(chunk)).map_while(|k| {
            if start_wall + t0.elapsed().as_secs_f64() > cap {
                return None;
            }
            let lo = k * chunk;
            dispatched = lo;
            Some(json!({"depth": depth, "lo": lo, "hi": (lo + chunk).min(total), "maxlen": max_len, "long": max_len == 0}))
        });
        let mut done_here = 0u64;
        run.run_pool(&pool, cases, |_, _, case, v| {
            done_here += case["hi"].as_u64().unwrap() - case["lo"].as_u64().unwrap();
            bottoms += v["bottoms"].as_u64().unwrap_or(0);
            derived += v["derived"].as_u64().unwrap_or(0);
            if let Some(h) = v["heads"].as_object() {
                for (k, c) in h {
                    *heads.entry(k.clone()).or_insert(0) += c.as_u64().unwrap_or(0);
                }
            }
        });
        exprs_done += done_here;
        let complete = done_here == total;
        if !complete {
            run.capped = true;
        }
        completed.push(json!({"depth": depth, "max_input_len": max_len, "expressions": total, "completed": complete, "expressions_done": done_here}));
    }
    // non-vacuity: every combinator head appeared, all three result kinds were observed
    let wanted = [
        "read_p", "peek_p", "one_p", "one_of_p", "supplier", "err_supplier(soft)", "err_supplier(fatal)",
        "and", "or", "OrParser", "many", "many_allow_none", "filter", "filter_map", "peek", "to_option",
        "or_default", "surround(optional)", "surround(mandatory)", "delimited_by", "delimited_by_allow_missing",
        "seq2", "seq3", "then_with_in_context+ctx_parser", "then_with_in_context+ctx_parser+no_context",
        "then_with_in_context+IifCtxParser", "ManyCtxParser", "and_then", "and_then_err", "map",
        "with_soft_err", "or_fail", "map_fatal_err", "to_fatal", "lazy", "boxed", "flatten",
    ];
    for w in wanted {
        if !heads.contains_key(w) {
            run.machinery.push(format!("non-vacuity: combinator {} never appeared at the root of an expression", w));
        }
    }
    for k in ["impl-ok", "impl-soft", "impl-fatal"] {
        if run.hist.get(k).copied().unwrap_or(0) == 0 {
            run.machinery.push(format!("non-vacuity: result kind {} was never observed", k));
        }
    }
    let mut ev = Evidence::new("model_checking");
    ev.set("rule", "expressions: depth 1 = 8 primitives; depth d = each of the combinator templates (every combinator of the library, binary/ternary ones with the other operands drawn from the leaf sets) applied to every expression of depth d-1, enumerated by index without repeats; each is built from the real rusty_pc combinators and run on every string over {a,b,c} up to the length bound at every start position, and (max_input_len 0 in bounds_completed) on a ladder of 88 long inputs of 8 .. 1000 letters (runs of one letter, alternations with and without a trailing delimiter, a different first or last letter) from the first three and the last three positions; compared with the denotational model (result kind, value, error value, position after Ok and after soft failure). Non-trivial = some sub-parser consumed input during the run. Pairs for which the model says a repetition's element/delimiter succeeds without consuming are not run (documented precondition) and counted as skipped.");
    ev.set("exhaustive", !run.capped);
    ev.set("bounds_completed", json!(completed));
    ev.set("states", exprs_done);
    ev.set("transitions", run.evaluations);
    ev.set("traces_validated_against_impl", run.evaluations);
    ev.set("distinct_nontrivial", run.nontrivial);
    ev.set("expressions", exprs_done);
    ev.set("skipped_precondition_pairs", bottoms);
    ev.set("divergences_inherited_from_an_operand", derived);
    ev.set("root_combinator_histogram", json!(heads));
    ev.set("templates", space.templates.len() as u64);
    ev.assume("the model is written from the doc comments of rusty_pc; where the documentation is silent about the position after a soft failure of a decorator (to_option, or_default, many, surround's ignored boundaries) the model composes the documented behaviours and adds no rewind of its own");
    ev.assume("seq2..seq6 are never placed under a context-setting parent (their set_context is a declared unimplemented!())");
    ev.assume("the position after a fatal error is not compared (undocumented)");
    run.finish(ev)
}
