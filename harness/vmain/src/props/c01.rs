//! C01 — running a core-language program yields exactly the prescribed output and outcome.
//! Differential check of the real pipeline against the reference semantics on
//! completely enumerated program spaces (axis A: control compositions; axis B:
//! expressions and types; axis C: DATA / READ).

use serde_json::{Value, json};
use vcore::gast::Prog;
use vcore::gen01::{Node, control_program, control_program_in_sub, control_program_shared, describe, forests};
use vcore::gprint::print_default;
use vcore::judge::{Verdict, compare};
use vcore::refsem::run_reference;
use vcore::{End, Evidence};

use super::Run;
use crate::bind::{RunOpts, run_pipeline};
use crate::pool::Pool;

/// Runs one generated program on both sides. Returns (class, nontrivial, Option<(sig suffix, summary, text)>).
pub fn differential(prog: &Prog, stdin: &[u8], tag: &str) -> (String, bool, Option<(String, String, String)>) {
    let opts = RunOpts { stdin: stdin.to_vec(), budget: 400_000, ..RunOpts::default() };
    let (a, b, c, _) = differential_opts(prog, stdin, tag, &opts);
    (a, b, c)
}

pub fn differential_opts(
    prog: &Prog,
    stdin: &[u8],
    tag: &str,
    opts: &RunOpts,
) -> (String, bool, Option<(String, String, String)>, vcore::Outcome) {
    let (class, nt, bad, o) = differential_inner(prog, stdin, tag, opts, &vcore::gprint::Layout::default());
    (class, nt, bad, o)
}

pub fn differential_opts_layout(prog: &Prog, stdin: &[u8], tag: &str, opts: &RunOpts, layout: &vcore::gprint::Layout) -> (String, bool, Option<(String, String, String)>, vcore::Outcome) {
    differential_inner(prog, stdin, tag, opts, layout)
}

/// The same under another layout of the printed text (the reference works on the AST, the error rows
/// go through the printer's position map).
pub fn differential_layout(prog: &Prog, stdin: &[u8], tag: &str, layout: &vcore::gprint::Layout) -> (String, bool, Option<(String, String, String)>) {
    let opts = RunOpts { stdin: stdin.to_vec(), budget: 400_000, ..RunOpts::default() };
    let (a, b, c, _) = differential_inner(prog, stdin, tag, &opts, layout);
    (a, b, c)
}

fn differential_inner(
    prog: &Prog,
    stdin: &[u8],
    tag: &str,
    opts: &RunOpts,
    layout: &vcore::gprint::Layout,
) -> (String, bool, Option<(String, String, String)>, vcore::Outcome) {
    let printed = vcore::gprint::print(prog, layout);
    let r = run_reference(prog, stdin, &[]);
    let o = run_pipeline(&printed.text, opts);
    let mut all_executed = true;
    prog.walk(&mut |s| {
        if !r.executed.contains(&s.id) && !matches!(s.k, vcore::gast::K::Label(_) | vcore::gast::K::Comment(_) | vcore::gast::K::Data(_)) {
            all_executed = false;
        }
    });
    if r.steps > 20_000 {
        return ("undecided:long-running".into(), false, None, o);
    }
    match compare(&r, &printed.pos, &o) {
        Verdict::Agree => (format!("agree:{}", o.end.class()), all_executed, None, o),
        Verdict::Undecided(m) => {
            // the reference does not decide; an internal failure of the implementation is still C08's business
            (format!("undecided:{}", vcore::strip_digits(&m)), false, None, o)
        }
        Verdict::Differ(class, msg) => {
            let _ = End::Normal;
            (
                "differ".into(),
                all_executed,
                Some((format!("{}|{}", tag, class), msg, printed.text)),
                o,
            )
        }
    }
}

fn forest_shape(f: &[Node]) -> String {
    describe(f)
}

pub fn worker(case: &Value) -> Value {
    let axis = case["axis"].as_str().unwrap_or("");
    let mut bads = vec![];
    let mut n = 0u64;
    let mut nontrivial = 0u64;
    let mut hist: std::collections::BTreeMap<String, u64> = Default::default();
    let mut sample = Value::Null;
    match axis {
        "A" => {
            let nodes = case["nodes"].as_u64().unwrap() as usize;
            let lo = case["lo"].as_u64().unwrap() as usize;
            let hi = case["hi"].as_u64().unwrap() as usize;
            let last = case["last"].as_bool().unwrap_or(false);
            let in_sub = case["sub"].as_bool().unwrap_or(false);
            let shared = case["shared"].as_bool().unwrap_or(false);
            let one_line = case["one_line"].as_bool().unwrap_or(false);
            let with_let = case["let"].as_bool().unwrap_or(false);
            let layout = vcore::gprint::Layout { one_line_blocks: one_line, let_and_call: with_let, ..Default::default() };
            let all = forests(nodes);
            for f in all.iter().skip(lo).take(hi - lo) {
                let prog = if shared { control_program_shared(f, last) } else if in_sub { control_program_in_sub(f, last) } else { control_program(f, last) };
                if one_line && !prog.main.iter().chain(prog.subs.iter().flat_map(|s| s.body.iter())).any(|s| vcore::gprint::inlineable(s) && matches!(s.k, vcore::gast::K::For { .. } | vcore::gast::K::While(..) | vcore::gast::K::Do(..) | vcore::gast::K::Select { .. })) {
                    *hist.entry("not-generated:no construct can be written on one line".into()).or_insert(0) += 1;
                    continue;
                }
                let (class, nt, bad) = differential_layout(&prog, b"", if one_line { "A1" } else if with_let { "A2" } else { "A" }, &layout);
                n += 1;
                *hist.entry(class).or_insert(0) += 1;
                if nt {
                    nontrivial += 1;
                }
                if sample.is_null() {
                    sample = json!({"axis": if one_line { "A (one-line layout)" } else { "A" }, "shape": forest_shape(f), "text": vcore::gprint::print(&prog, &layout).text});
                }
                if let Some((sig, msg, text)) = bad
                    && bads.len() < 25
                {
                    bads.push(json!({
                        "sig": format!("C01|{}|{}", sig, forest_shape(f)),
                        "summary": format!("{} — shape {} — program: {:?}", msg, forest_shape(f), super::truncate_text(&text, 400)),
                        "text": text,
                        "case": {"axis": "text", "text": print_default(&prog).text, "note": "replay runs the text through the implementation only"},
                    }));
                }
            }
        }
        "B" => {
            let depth = case["depth"].as_u64().unwrap_or(1);
            let lo = case["lo"].as_u64().unwrap() as usize;
            let hi = case["hi"].as_u64().unwrap() as usize;
            let all = if depth == 1 { vcore::gen01::axis_b_depth1() } else { vcore::gen01::axis_b_depth2() };
            let snips: Vec<&vcore::gen01::Snip> = all.iter().skip(lo).take(hi - lo).collect();
            let mut batch: Vec<&vcore::gen01::Snip> = vec![];
            let mut solo: Vec<&vcore::gen01::Snip> = vec![];
            for sn in &snips {
                if sn.ill_typed {
                    // must be rejected by the checker with a type mismatch
                    n += 1;
                    nontrivial += 1;
                    let prog = vcore::gen01::assemble(&[sn]);
                    let text = print_default(&prog).text;
                    let o = run_pipeline(&text, &RunOpts { stage: crate::bind::Stage::Lint, ..RunOpts::default() });
                    let ok = matches!(&o.end, End::LintError { kind, .. } if kind == "TypeMismatch");
                    *hist.entry(if ok { "rejected-as-expected".to_string() } else { "ill-typed-accepted".to_string() }).or_insert(0) += 1;
                    if !ok && bads.len() < 25 {
                        bads.push(json!({
                            "sig": format!("C01|B|ill-typed-not-rejected|{}", sn.label.split(" ctx").next().unwrap_or("")),
                            "summary": format!("ill-typed expression must be rejected with Type mismatch, got {:?} — program: {:?}", o.end, text),
                            "text": text,
                            "case": {"axis": "text", "text": text},
                        }));
                    }
                    continue;
                }
                let prog = vcore::gen01::assemble(&[sn]);
                let r = run_reference(&prog, b"", &[]);
                match r.end {
                    Some(vcore::refsem::REnd::Normal) => batch.push(sn),
                    Some(vcore::refsem::REnd::Error { .. }) => solo.push(sn),
                    _ => {
                        *hist.entry("undecided".into()).or_insert(0) += 1;
                    }
                }
            }
            let mut judge = |group: &[&vcore::gen01::Snip], n: &mut u64, nontrivial: &mut u64, hist: &mut std::collections::BTreeMap<String, u64>| -> Option<(String, String, String)> {
                let prog = vcore::gen01::assemble(group);
                let (class, _, bad) = differential(&prog, b"", "B");
                *n += group.len() as u64;
                *nontrivial += group.len() as u64;
                *hist.entry(class).or_insert(0) += group.len() as u64;
                bad
            };
            // the batch of snippets that end normally: one program; bisect on disagreement
            if !batch.is_empty() {
                let mut n0 = 0;
                let mut nt0 = 0;
                let mut h0 = Default::default();
                if judge(&batch, &mut n0, &mut nt0, &mut h0).is_some() {
                    for sn in &batch {
                        if let Some((sig, msg, text)) = judge(std::slice::from_ref(sn), &mut n, &mut nontrivial, &mut hist)
                            && bads.len() < 25
                        {
                            bads.push(json!({
                                "sig": format!("C01|{}|{}", sig, sn.label.split(" form").next().unwrap_or("")),
                                "summary": format!("{} — {} — program: {:?}", msg, sn.label, text),
                                "text": text,
                                "case": {"axis": "text", "text": text},
                            }));
                        }
                    }
                } else {
                    n += n0;
                    nontrivial += nt0;
                    for (k, v) in h0 {
                        *hist.entry(k).or_insert(0) += v;
                    }
                }
            }
            for sn in &solo {
                if let Some((sig, msg, text)) = judge(std::slice::from_ref(sn), &mut n, &mut nontrivial, &mut hist)
                    && bads.len() < 25
                {
                    bads.push(json!({
                        "sig": format!("C01|{}|{}", sig, sn.label.split(" form").next().unwrap_or("")),
                        "summary": format!("{} — {} — program: {:?}", msg, sn.label, text),
                        "text": text,
                        "case": {"axis": "text", "text": text},
                    }));
                }
            }
            if let Some(sn) = snips.first() {
                sample = json!({"axis": "B", "label": sn.label, "text": print_default(&vcore::gen01::assemble(&[sn])).text});
            }
        }
        "C" => {
            let max_items = case["items"].as_u64().unwrap() as usize;
            let lo = case["lo"].as_u64().unwrap() as usize;
            let hi = case["hi"].as_u64().unwrap() as usize;
            let all = vcore::gen01::data_cases(max_items);
            for (items, types, placement, extra) in all.iter().skip(lo).take(hi - lo) {
                let prog = vcore::gen01::data_program(items, types, *placement, *extra);
                let (class, nt, bad) = differential(&prog, b"", "C");
                n += 1;
                *hist.entry(class).or_insert(0) += 1;
                if nt {
                    nontrivial += 1;
                }
                if sample.is_null() {
                    sample = json!({"axis": "C", "text": print_default(&prog).text});
                }
                if let Some((sig, msg, text)) = bad
                    && bads.len() < 25
                {
                    bads.push(json!({
                        "sig": if items.iter().any(|i| matches!(i, vcore::gast::DataItem::Bare(_))) && sig.contains("lint:InvalidConstant") {
                            "C01|C|unquoted-string-in-DATA-rejected".to_string()
                        } else {
                            format!("C01|{}|types {:?} placement {} extra {}", sig, types, placement, extra)
                        },
                        "summary": format!("{} — program: {:?}", msg, text),
                        "text": text,
                        "case": {"axis": "text", "text": text},
                    }));
                }
            }
        }
        "R" | "S" | "E" => {
            let progs = match axis {
                "R" => vcore::gen01::rich_operand_programs(),
                "S" => vcore::gen01::case_expression_programs(),
                _ => vcore::gen01::failing_condition_programs(),
            };
            for (prog, label) in progs {
                let (class, nt, bad) = differential(&prog, b"", axis);
                n += 1;
                *hist.entry(class).or_insert(0) += 1;
                if nt {
                    nontrivial += 1;
                }
                if sample.is_null() {
                    sample = json!({"axis": axis, "text": print_default(&prog).text});
                }
                if let Some((sig, msg, text)) = bad
                    && bads.len() < 25
                {
                    bads.push(json!({
                        "sig": format!("C01|{}|{}", sig, label),
                        "summary": format!("{} — operands {} — program: {:?}", msg, label, super::truncate_text(&text, 700)),
                        "text": text,
                        "case": {"axis": "text", "text": text},
                    }));
                }
            }
        }
        "T" => {
            use vcore::gen01::{TRUTH_KINDS, TRUTH_VALUES, truth_program};
            for kind in 0..TRUTH_KINDS.len() {
                for value in 0..TRUTH_VALUES.len() {
                    for as_var in [false, true] {
                        if kind == 8 && TRUTH_VALUES[value].contains('.') {
                            continue;
                        }
                        let prog = truth_program(kind, value, as_var);
                        let (class, nt, bad) = differential(&prog, b"", "T");
                        n += 1;
                        *hist.entry(class).or_insert(0) += 1;
                        if nt {
                            nontrivial += 1;
                        }
                        if sample.is_null() {
                            sample = json!({"axis": "T", "text": print_default(&prog).text});
                        }
                        if let Some((sig, msg, text)) = bad {
                            bads.push(json!({
                                "sig": format!("C01|{}|{}|{}", sig, TRUTH_KINDS[kind], TRUTH_VALUES[value]),
                                "summary": format!("{} — {} with the condition value {} — program: {:?}", msg, TRUTH_KINDS[kind], TRUTH_VALUES[value], super::truncate_text(&text, 400)),
                                "text": text,
                                "case": {"axis": "text", "text": text},
                            }));
                        }
                    }
                }
            }
        }
        "P" => {
            let mut progs = vcore::gen01::print_continuation_programs();
            for sn in vcore::gen06::unary_and_powers().into_iter().filter(|s| s.snip.label.starts_with("FOR with")) {
                progs.push((vcore::gen01::assemble(&[&sn.snip]), sn.snip.label.clone()));
            }
            for (prog, label) in progs {
                let (class, nt, bad) = differential(&prog, b"", "P");
                n += 1;
                *hist.entry(class).or_insert(0) += 1;
                if nt {
                    nontrivial += 1;
                }
                if sample.is_null() {
                    sample = json!({"axis": "P", "text": print_default(&prog).text});
                }
                if let Some((sig, msg, text)) = bad
                    && bads.len() < 25
                {
                    bads.push(json!({
                        "sig": format!("C01|{}|{}", sig, label.split(':').next().unwrap_or("")),
                        "summary": format!("{} — {} — program: {:?}", msg, label, super::truncate_text(&text, 400)),
                        "text": text,
                        "case": {"axis": "text", "text": text},
                    }));
                }
            }
        }
        "C2" => {
            for container in 0..vcore::gen01::DATA_CONTAINERS.len() {
                for read_first in [false, true] {
                    let prog = vcore::gen01::data_placement_program(container, read_first);
                    let (class, nt, bad) = differential(&prog, b"", "C2");
                    n += 1;
                    *hist.entry(class).or_insert(0) += 1;
                    if nt {
                        nontrivial += 1;
                    }
                    if sample.is_null() {
                        sample = json!({"axis": "C2", "text": print_default(&prog).text});
                    }
                    if let Some((sig, msg, text)) = bad {
                        bads.push(json!({
                            "sig": format!("C01|{}|{}|READ {}", sig, vcore::gen01::DATA_CONTAINERS[container], if read_first { "first" } else { "last" }),
                            "summary": format!("{} — DATA inside: {} — program: {:?}", msg, vcore::gen01::DATA_CONTAINERS[container], super::truncate_text(&text, 600)),
                            "text": text,
                            "case": {"axis": "text", "text": text},
                        }));
                    }
                }
            }
        }
        "text" => {
            let text = case["text"].as_str().unwrap_or("");
            let o = run_pipeline(text, &RunOpts::default());
            return json!({"n": 1, "bad": [], "observed": {"stdout": o.stdout_str(), "end": format!("{:?}", o.end)}});
        }
        other => return json!({"machinery": format!("unknown C01 axis {}", other)}),
    }
    json!({"n": n, "nontrivial": nontrivial, "hist": hist, "bad": bads, "sample": sample})
}

pub fn drive(tier: &str) -> i32 {
    let quick = tier == "quick";
    let mut run = Run::new("C01", tier);
    run.crash_is_violation = true;
    let mut pool = Pool::new("C01");
    pool.timeout_ms = 60_000;
    let mut cases = vec![];
    let mut plan = vec![];
    let max_nodes = if quick { 3 } else { 4 };
    for nodes in 1..=max_nodes {
        let total = forests(nodes.min(3)).len();
        let total = if nodes <= 3 { total } else { forests(4).len() };
        for (last, in_sub) in [(false, false), (true, false), (false, true)] {
            if quick && nodes == 3 && (last || in_sub) {
                continue;
            }
            if nodes == 4 && (last || in_sub) {
                continue;
            }
            let chunk = 60;
            let mut lo = 0;
            while lo < total {
                cases.push(json!({"axis": "A", "nodes": nodes, "lo": lo, "hi": (lo + chunk).min(total), "last": last, "sub": in_sub}));
                lo += chunk;
            }
            plan.push(json!({"axis": "A", "nodes": nodes, "children_in_last_body": last, "inside_sub": in_sub, "programs": total}));
        }
        // the forest inside a SUB whose counters, limits, steps and tick are DIM SHARED variables of the module
        if nodes <= if quick { 2 } else { 3 } {
            let mut lo = 0;
            while lo < total {
                cases.push(json!({"axis": "A", "nodes": nodes, "lo": lo, "hi": (lo + 60).min(total), "last": false, "sub": true, "shared": true}));
                lo += 60;
            }
            plan.push(json!({"axis": "A", "nodes": nodes, "inside_sub": true, "variables": "DIM SHARED, read through a FUNCTION in every loop body and printed by the module afterwards", "programs": total}));
        }
    }
    // axis A again with LET before every assignment and CALL before every SUB call
    for nodes in 1..=2 {
        let total = forests(nodes).len();
        for in_sub in [false, true] {
            let mut lo = 0;
            while lo < total {
                cases.push(json!({"axis": "A", "nodes": nodes, "lo": lo, "hi": (lo + 60).min(total), "last": false, "sub": in_sub, "let": true}));
                lo += 60;
            }
            plan.push(json!({"axis": "A", "layout": "LET before assignments, CALL before SUB calls", "nodes": nodes, "inside_sub": in_sub, "programs": total}));
        }
    }
    // axis A again with every loop / SELECT CASE that holds no block IF written on ONE source line
    for nodes in 1..=(if quick { 2 } else { 3 }) {
        let total = forests(nodes).len();
        for (last, in_sub) in [(false, false), (true, false), (false, true)] {
            let mut lo = 0;
            while lo < total {
                cases.push(json!({"axis": "A", "nodes": nodes, "lo": lo, "hi": (lo + 60).min(total), "last": last, "sub": in_sub, "one_line": true}));
                lo += 60;
            }
            plan.push(json!({"axis": "A", "layout": "loops and SELECT CASE on one source line", "nodes": nodes, "children_in_last_body": last, "inside_sub": in_sub, "programs": total}));
        }
    }
    cases.push(json!({"axis": "T"}));
    plan.push(json!({"axis": "T", "programs": 2 * vcore::gen01::TRUTH_KINDS.len() * vcore::gen01::TRUTH_VALUES.len()}));
    cases.push(json!({"axis": "R"}));
    plan.push(json!({"axis": "R", "programs": vcore::gen01::rich_operand_programs().len()}));
    cases.push(json!({"axis": "S"}));
    plan.push(json!({"axis": "S", "programs": vcore::gen01::case_expression_programs().len()}));
    cases.push(json!({"axis": "E"}));
    plan.push(json!({"axis": "E", "programs": vcore::gen01::failing_condition_programs().len()}));
    cases.push(json!({"axis": "P"}));
    plan.push(json!({"axis": "P", "programs": vcore::gen01::print_continuation_programs().len() + 24}));
    cases.push(json!({"axis": "C2"}));
    plan.push(json!({"axis": "C2", "programs": 2 * vcore::gen01::DATA_CONTAINERS.len()}));
    // axis B
    let b1 = vcore::gen01::axis_b_depth1().len();
    let mut lo = 0;
    while lo < b1 {
        cases.push(json!({"axis": "B", "depth": 1, "lo": lo, "hi": (lo + 400).min(b1)}));
        lo += 400;
    }
    plan.push(json!({"axis": "B", "depth": 1, "snippets": b1}));
    if !quick {
        let b2 = vcore::gen01::axis_b_depth2().len();
        let mut lo = 0;
        while lo < b2 {
            cases.push(json!({"axis": "B", "depth": 2, "lo": lo, "hi": (lo + 400).min(b2)}));
            lo += 400;
        }
        plan.push(json!({"axis": "B", "depth": 2, "snippets": b2}));
    }
    // axis C
    let items = if quick { 2 } else { 3 };
    let c = vcore::gen01::data_cases(items).len();
    let mut lo = 0;
    while lo < c {
        cases.push(json!({"axis": "C", "items": items, "lo": lo, "hi": (lo + 50).min(c)}));
        lo += 50;
    }
    plan.push(json!({"axis": "C", "max_data_items": items, "programs": c}));
    let total_cases = cases.len();
    let cap = run.wall_cap_s;
    let t0 = run.reporter.start;
    let it = cases.into_iter().take_while(|_| t0.elapsed().as_secs_f64() < cap);
    run.run_pool(&pool, it, |_, _, _, _| {});
    if (run.cases as usize) < total_cases {
        run.capped = true;
    }
    let mut ev = Evidence::new("exploration");
    ev.set("rule", "axis B: every binary operator x 5x5 operand types x a 4-value menu per type x 9 contexts (PRINT, assignment to each of the 5 types, IF condition, SELECT subject, FOR bound), operands as literals, as variables and (where the value is stored or bounds a loop) as variables with the whole expression in parentheses, both unary operators, depth-2 shapes in the thorough tier; ill-typed combinations must be rejected with Type mismatch; snippets that end normally are batched into one program (bisected on disagreement), snippets that end in an error run alone. Axis C: every sequence of up to n DATA items x every admissible assignment of variable types x placements of the DATA lines, plus reading past the end. Axis T: 9 condition values (2, 1, -1, 0, -2, .5, 0.0, 32767, 100000; literal and variable) in IF, ELSEIF, single-line IF, IF NOT, WHILE and the four DO forms: true is whatever is not zero. Axis C2: three DATA statements, the middle one inside each of 22 block positions (every branch kind taken and not taken, every loop kind with two, one or no rounds, nested blocks), READ before or after them: the values come in textual order whatever was executed. axis A: every ordered forest of n construct nodes (n <= 2, thorough 3, also in the layout that writes every loop / SELECT CASE without a block IF inside on one source line, nested ones sharing their row, and (n <= 2) with LET before every assignment and CALL before every SUB call) over 15 construct kinds (IF, IF/ELSE, IF/ELSEIF/ELSE, single-line IF, two SELECT forms, four FOR forms, WHILE, four DO forms), children placed in the first or in the last body, at module level or inside a SUB; every body carries a trace statement; the program is printed, run on the real pipeline and on the reference semantics, and stdout / end state (error code and row) are compared. Non-trivial = every statement of the program was executed at least once. Axis R: the 13 binary operators on operands that are members of array-of-records elements with expression / FUNCTION-call subscripts, array elements with expression subscripts and FUNCTION calls on such elements, against a sub-expression, a literal, a variable and each other, in both orders, printed directly and stored first (72 programs). Axis P: a PRINT that leaves the line open (5 forms ending in ; or ,) and the PRINT that continues it (5 forms) in 5 placements (in sequence, the first three times in a FOR loop, in an IF block / a WHILE body, the first in a SUB, an assignment and an LPRINT in between); FOR headers whose literal start, limit or step does not fit the counter (Overflow before the body runs).");
    ev.set("exhaustive", !run.capped);
    ev.set("plan", json!(plan));
    ev.assume("reference semantics hand-written from the language definition (DESIGN.md appendix B), restricted to the exact numeric domain; cases the reference does not decide are counted as undecided and not judged");
    run.finish(ev)
}
