//! C10 — expressions group by standard precedence; literals keep exact value and type.
//!
//! (a) every operator sequence of length 1..5 over the 13 binary operators, with unary
//! and parenthesis variants, is parsed by the real parser (500 expressions per parsed
//! program) and the tree is compared with an independent precedence climber, modulo
//! re-association inside homogeneous AND / OR chains;
//! (b) literals: every 16-bit decimal / hex / octal value with leading zeros, a 32-bit
//! lattice, values beyond 2^32, fractions — node kind and exact value from the tree,
//! also directly after a unary minus and after a binary minus.

use rusty_parser::{Expression, GlobalStatement, Operator, Statement, UnaryOperator};
use serde_json::{Value, json};
use vcore::Evidence;
use vcore::prec::{Climber, Lit, Op, Tok, Variants, expected_literal, op_sequence, pow13, spell, variants};

use super::Run;
use crate::bind::{parse_err_end, try_parse};
use crate::pool::Pool;

fn op_text(op: &Operator) -> &'static str {
    match op {
        Operator::Plus => "+",
        Operator::Minus => "-",
        Operator::Multiply => "*",
        Operator::Divide => "/",
        Operator::Modulo => "MOD",
        Operator::Less => "<",
        Operator::LessOrEqual => "<=",
        Operator::Equal => "=",
        Operator::GreaterOrEqual => ">=",
        Operator::Greater => ">",
        Operator::NotEqual => "<>",
        Operator::And => "AND",
        Operator::Or => "OR",
    }
}

/// The parser's tree in the canonical spelling of vcore::prec::Tree::canon.
fn canon(e: &Expression) -> String {
    match e {
        Expression::Variable(n, _) => n.to_string(),
        Expression::IntegerLiteral(v) => format!("{}%", v),
        Expression::LongLiteral(v) => format!("{}&", v),
        Expression::SingleLiteral(v) => format!("{:?}!", v),
        Expression::DoubleLiteral(v) => format!("{:?}#", v),
        Expression::StringLiteral(s) => format!("{:?}", s),
        Expression::UnaryExpression(UnaryOperator::Minus, c) => format!("(-{})", canon(&c.element)),
        Expression::UnaryExpression(UnaryOperator::Not, c) => format!("(NOT {})", canon(&c.element)),
        Expression::Parenthesis(c) => format!("[{}]", canon(&c.element)),
        Expression::BinaryExpression(op, l, r, _) => {
            if matches!(op, Operator::And | Operator::Or) {
                let mut items = vec![];
                flatten(e, op, &mut items);
                format!("{}({})", op_text(op), items.join(", "))
            } else {
                format!("({} {} {})", canon(&l.element), op_text(op), canon(&r.element))
            }
        }
        other => format!("<{:?}>", other),
    }
}

fn flatten(e: &Expression, op: &Operator, out: &mut Vec<String>) {
    match e {
        Expression::BinaryExpression(o, l, r, _) if o == op => {
            flatten(&l.element, op, out);
            flatten(&r.element, op, out);
        }
        other => out.push(canon(other)),
    }
}

/// Parses `X = e` for every expression text in one program; returns the right-hand sides.
fn parse_batch(exprs: &[String]) -> Result<Vec<Expression>, String> {
    let mut text = String::new();
    for e in exprs {
        text.push_str("X = ");
        text.push_str(e);
        text.push('\n');
    }
    match try_parse(&text) {
        Err(end) => Err(format!("{:?}", end)),
        Ok(Err(e)) => Err(format!("{:?}", parse_err_end(&e))),
        Ok(Ok(program)) => {
            let mut out = vec![];
            for g in program {
                if let GlobalStatement::Statement(Statement::Assignment(a)) = g.element {
                    let (_, r) = a.into();
                    out.push(r.element);
                }
            }
            if out.len() == exprs.len() {
                Ok(out)
            } else {
                Err(format!("{} statements parsed out of {}", out.len(), exprs.len()))
            }
        }
    }
}

fn scheme_of(s: &str) -> Variants {
    match s {
        "all-unary" => Variants::AllUnary,
        "one-unary" => Variants::OneUnary,
        "one-paren" => Variants::OneParen,
        "tight" => Variants::Tight,
        _ => Variants::Base,
    }
}

/// Signature of a tree mismatch: the operator ranks involved, not the operand names.
fn shape_of(toks: &[Tok]) -> String {
    toks.iter()
        .filter_map(|t| match t {
            Tok::Bin(op) => Some(op.text().to_string()),
            Tok::Neg => Some("neg".to_string()),
            Tok::Not => Some("NOT".to_string()),
            Tok::LParen => Some("(".to_string()),
            Tok::RParen => Some(")".to_string()),
            _ => None,
        })
        .collect::<Vec<_>>()
        .join(" ")
}

fn rank_class(op: Op) -> &'static str {
    match op {
        Op::Mul | Op::Div => "muldiv",
        Op::Mod => "MOD",
        Op::Plus | Op::Minus => "addsub",
        Op::And => "AND",
        Op::Or => "OR",
        _ => "rel",
    }
}

fn class_shape(toks: &[Tok]) -> String {
    toks.iter()
        .filter_map(|t| match t {
            Tok::Bin(op) => Some(rank_class(*op).to_string()),
            Tok::Neg => Some("neg".to_string()),
            Tok::Not => Some("NOT".to_string()),
            Tok::LParen => Some("(".to_string()),
            Tok::RParen => Some(")".to_string()),
            _ => None,
        })
        .collect::<Vec<_>>()
        .join(" ")
}

fn check_chains(case: &Value) -> Value {
    let len = case["len"].as_u64().unwrap() as u32;
    let lo = case["lo"].as_u64().unwrap();
    let hi = case["hi"].as_u64().unwrap();
    let scheme = scheme_of(case["scheme"].as_str().unwrap_or("base"));
    let mut all: Vec<Vec<Tok>> = vec![];
    for idx in lo..hi {
        all.extend(variants(&op_sequence(len, idx), scheme));
    }
    let mut bads = vec![];
    let mut n = 0u64;
    let mut nontrivial = 0u64;
    for chunk in all.chunks(500) {
        let tight = scheme == Variants::Tight;
        let texts: Vec<String> = chunk.iter().map(|t| if tight { vcore::prec::spell_tight(t) } else { spell(t) }).collect();
        let mut judge = |toks: &Vec<Tok>, text: &str, got: Result<&Expression, String>| {
            n += 1;
            let expected = match Climber::parse(toks) {
                Some(t) => t.canon(),
                None => return,
            };
            // non-trivial: at least two operators of different rank classes, or a unary operator / parenthesis
            let s = class_shape(toks);
            let parts: Vec<&str> = s.split(' ').collect();
            if parts.len() >= 2 && parts.iter().any(|p| *p != parts[0]) {
                nontrivial += 1;
            }
            match got {
                Ok(e) => {
                    let actual = canon(e);
                    if actual != expected && bads.len() < 40 {
                        bads.push(json!({
                            "sig": format!("C10|tree|{}", class_shape(toks)),
                            "summary": format!("{}  parses as  {}  but standard precedence gives  {}", text, actual, expected),
                            "shape": shape_of(toks),
                            "case": {"k": "exprs", "exprs": [text], "expect": [expected]},
                        }));
                    }
                }
                Err(e) => {
                    if bads.len() < 40 {
                        bads.push(json!({
                            "sig": format!("C10|tree-rejected|{}", class_shape(toks)),
                            "summary": format!("{}  is rejected: {}", text, e),
                            "case": {"k": "exprs", "exprs": [text], "expect": [expected]},
                        }));
                    }
                }
            }
        };
        match parse_batch(&texts) {
            Ok(exprs) => {
                for ((toks, text), e) in chunk.iter().zip(texts.iter()).zip(exprs.iter()) {
                    judge(toks, text, Ok(e));
                }
            }
            Err(_) => {
                // bisect: parse one by one
                for (toks, text) in chunk.iter().zip(texts.iter()) {
                    match parse_batch(std::slice::from_ref(text)) {
                        Ok(exprs) => judge(toks, text, Ok(&exprs[0])),
                        Err(e) => judge(toks, text, Err(e)),
                    }
                }
            }
        }
    }
    json!({"n": n, "nontrivial": nontrivial, "bad": bads,
           "sample": {"len": len, "scheme": case["scheme"], "first": all.first().map(|t| spell(t)), "last": all.last().map(|t| spell(t))}})
}

fn lit_of(e: &Expression) -> Option<Lit> {
    match e {
        Expression::IntegerLiteral(v) => Some(Lit::Integer(*v)),
        Expression::LongLiteral(v) => Some(Lit::Long(*v)),
        Expression::SingleLiteral(v) => Some(Lit::Single(*v)),
        Expression::DoubleLiteral(v) => Some(Lit::Double(*v)),
        _ => None,
    }
}

fn lit_eq(a: &Lit, b: &Lit) -> bool {
    match (a, b) {
        (Lit::Single(x), Lit::Single(y)) => x.to_bits() == y.to_bits() || (*x == 0.0 && *y == 0.0),
        (Lit::Double(x), Lit::Double(y)) => x.to_bits() == y.to_bits() || (*x == 0.0 && *y == 0.0),
        _ => a == b,
    }
}

fn lit_class(text: &str) -> &'static str {
    let up = text.to_ascii_uppercase();
    if up.starts_with("&H") {
        "hex"
    } else if up.starts_with("&O") {
        "octal"
    } else if up.ends_with('#') {
        "fraction#"
    } else if up.contains('.') {
        "fraction"
    } else {
        "decimal"
    }
}

/// Literal texts are checked in three contexts: plain, after a unary minus, after a binary minus.
fn check_literals(case: &Value) -> Value {
    let lits: Vec<String> = case["lits"]
        .as_array()
        .unwrap()
        .iter()
        .map(|v| v.as_str().unwrap().to_string())
        .collect();
    let mut bads = vec![];
    let mut n = 0u64;
    let mut nontrivial = 0u64;
    for ctx in ["plain", "unary-minus", "binary-minus", "double-unary-minus"] {
        let texts: Vec<String> = lits
            .iter()
            .map(|l| match ctx {
                "plain" => l.clone(),
                "unary-minus" => format!("-{}", l),
                "binary-minus" => format!("A - {}", l),
                _ => format!("--{}", l),
            })
            .collect();
        let mut judge = |lit: &str, text: &str, got: Result<&Expression, String>| {
            n += 1;
            let Some(base) = expected_literal(lit) else { return };
            let expected = match ctx {
                "unary-minus" => base.negated(),
                "double-unary-minus" => base.negated().negated(),
                _ => base.clone(),
            };
            if !matches!(base, Lit::Integer(0..=9)) {
                nontrivial += 1;
            }
            let class = lit_class(lit);
            match got {
                Err(e) => {
                    if (expected != Lit::Overflow || e.contains("Panic")) && bads.len() < 40 {
                        bads.push(json!({
                            "sig": format!("C10|literal-rejected|{}|{}|{}", class, ctx, kind_name(&expected)),
                            "summary": format!("X = {}  is rejected ({}) but the literal denotes {}", text, e, expected.describe()),
                            "case": {"k": "lits", "lits": [lit]},
                        }));
                    }
                }
                Ok(e) => {
                    let node = match ctx {
                        "binary-minus" => match e {
                            Expression::BinaryExpression(Operator::Minus, _, r, _) => lit_of(&r.element),
                            _ => None,
                        },
                        _ => lit_of(e),
                    };
                    let ok = match &node {
                        Some(l) => lit_eq(l, &expected),
                        None => false,
                    };
                    if !ok && bads.len() < 40 {
                        let got_text = match &node {
                            Some(l) => l.describe(),
                            None => format!("not a literal node: {}", canon(e)),
                        };
                        bads.push(json!({
                            "sig": format!("C10|literal|{}|{}|{}->{}", class, ctx, kind_name(&expected), node.as_ref().map(kind_name).unwrap_or("tree")),
                            "summary": format!("X = {}  gives {} but the literal denotes {}", text, got_text, expected.describe()),
                            "case": {"k": "lits", "lits": [lit]},
                        }));
                    }
                }
            }
        };
        match parse_batch(&texts) {
            Ok(exprs) => {
                for ((lit, text), e) in lits.iter().zip(texts.iter()).zip(exprs.iter()) {
                    judge(lit, text, Ok(e));
                }
            }
            Err(_) => {
                for (lit, text) in lits.iter().zip(texts.iter()) {
                    match parse_batch(std::slice::from_ref(text)) {
                        Ok(exprs) => judge(lit, text, Ok(&exprs[0])),
                        Err(e) => judge(lit, text, Err(e)),
                    }
                }
            }
        }
    }
    json!({"n": n, "nontrivial": nontrivial, "bad": bads, "sample": {"literals": [lits.first(), lits.last()]}})
}

fn kind_name(l: &Lit) -> &'static str {
    match l {
        Lit::Integer(_) => "INTEGER",
        Lit::Long(_) => "LONG",
        Lit::Single(_) => "SINGLE",
        Lit::Double(_) => "DOUBLE",
        Lit::Overflow => "overflow",
    }
}

/// Replay form: explicit expression texts with their expected canonical trees.
fn check_exprs(case: &Value) -> Value {
    let exprs: Vec<String> = case["exprs"].as_array().unwrap().iter().map(|v| v.as_str().unwrap().to_string()).collect();
    let expect: Vec<String> = case["expect"].as_array().unwrap().iter().map(|v| v.as_str().unwrap().to_string()).collect();
    let mut bads = vec![];
    for (text, want) in exprs.iter().zip(expect.iter()) {
        match parse_batch(std::slice::from_ref(text)) {
            Ok(e) => {
                let got = canon(&e[0]);
                if &got != want {
                    bads.push(json!({"sig": "C10|tree|replay", "summary": format!("{} parses as {} but standard precedence gives {}", text, got, want)}));
                }
            }
            Err(e) => bads.push(json!({"sig": "C10|tree-rejected|replay", "summary": format!("{} rejected: {}", text, e)})),
        }
    }
    json!({"n": exprs.len(), "bad": bads})
}

pub fn worker(case: &Value) -> Value {
    match case["k"].as_str().unwrap_or("") {
        "chains" => check_chains(case),
        "lits" => check_literals(case),
        "exprs" => check_exprs(case),
        "close" => check_close_literals(),
        "rich" => check_rich_operands(),
        other => json!({"machinery": format!("unknown C10 case kind {}", other)}),
    }
}

fn literal_texts(tier: &str) -> Vec<String> {
    let quick = tier == "quick";
    let mut out = vec![];
    // all 16-bit values in decimal, hex and octal
    for v in 0..=65535u32 {
        if v <= 32768 {
            out.push(v.to_string());
        }
        out.push(format!("&H{:X}", v));
        out.push(format!("&O{:o}", v));
        if !quick || v % 97 == 0 || v >= 65500 || (32700..32800).contains(&v) {
            out.push(format!("0{}", v));
            out.push(format!("00{}", v));
            out.push(format!("&H0{:X}", v));
            out.push(format!("&H00{:x}", v));
            out.push(format!("&O0{:o}", v));
            out.push(format!("&o00{:o}", v));
        }
    }
    // 32-bit lattice: 2^k, 2^k +- 1
    for k in 15..=33u32 {
        for d in [-1i64, 0, 1] {
            let v = (1i128 << k) + d as i128;
            if v >= 0 {
                out.push(v.to_string());
                out.push(format!("&H{:X}", v));
                out.push(format!("&O{:o}", v));
                out.push(format!("&H000{:X}", v));
            }
        }
    }
    for s in ["2147483647", "2147483648", "4294967295", "4294967296", "9999999999", "123456789012345", "18446744073709551616", "340282366920938463463374607431768211456"] {
        out.push(s.to_string());
    }
    // fractions over a digit lattice
    let ints = ["", "0", "1", "9", "12", "255", "32767", "32768", "65536", "1234567", "16777217"];
    let fracs = ["0", "5", "25", "1", "125", "0625", "3", "999", "000001", "123456789"];
    for i in ints {
        for f in fracs {
            out.push(format!("{}.{}", i, f));
            if !i.is_empty() {
                out.push(format!("{}.{}#", i, f));
            }
        }
    }
    // hexadecimal / octal literals with far more digits than a LONG holds (up to beyond 64 and 128 bits)
    for n in [9usize, 15, 16, 17, 20, 32, 33, 40] {
        out.push(format!("&H{}", "F".repeat(n)));
        out.push(format!("&H1{}", "0".repeat(n - 1)));
        out.push(format!("&h{}1", "0".repeat(n)));
    }
    for n in [12usize, 21, 22, 23, 30, 43, 44] {
        out.push(format!("&O{}", "7".repeat(n)));
        out.push(format!("&O2{}", "0".repeat(n - 1)));
        out.push(format!("&o{}1", "0".repeat(n)));
    }
    // fractions with many digits next to the midpoint of two adjacent SINGLEs / DOUBLEs: a conversion that rounds
    // twice (through a wider or a narrower type) picks the wrong neighbour
    for k in 24..=31u32 {
        let m = (1u64 << k) + (1u64 << (k - 24));
        out.push(format!("{}.0000000001", m));
        out.push(format!("{}.9999999999", m - 1));
        out.push(format!("{}.00000000000000000001", m));
        out.push(format!("{}.5", m));
    }
    for k in 53..=56u32 {
        let m = (1u128 << k) + (1u128 << (k - 53));
        out.push(format!("{}.0000000001#", m));
        out.push(format!("{}.9999999999#", m - 1));
    }
    // fractions beyond the range of their type
    for n in [38usize, 39, 40, 60, 308, 309, 310, 400] {
        out.push(format!("{}.5", "9".repeat(n)));
        out.push(format!("{}.5#", "9".repeat(n)));
        out.push(format!("1{}.0", "0".repeat(n)));
        out.push(format!("1{}.0#", "0".repeat(n)));
    }
    out.push("340282346638528859811704183484516925440.0".to_string());
    out.push("340282356779733661637539395458142568448.0".to_string());
    for s in [
        "1.0000000596046447753906251", "1.0000000596046447753906249", "1.000000059604644775390625", "0.50000002980232238769531251", "0.50000002980232238769531249",
        "1.00000000000000011102230246251565404236316680908203126#", "1.00000000000000011102230246251565404236316680908203124#", ".1000000000000000055511151231257827", ".1000000000000000055511151231257827#",
        "3.4028234663852885981170418348451692544", "16777216.000000000000000000000000000001", "0.000000000000000000000000000000000000000000001",
    ] {
        out.push(s.to_string());
    }
    out.sort();
    out.dedup();
    out
}

/// Run level: two literals closer together than 0.00001 (or further apart) loaded one after the other, in
/// assignments and inside one expression: each keeps its own value.
fn close_literal_program() -> (String, String, Vec<String>) {
    let mut text = String::new();
    let mut want = String::new();
    let mut labels = vec![];
    let bases = ["0.5", "1.5", "100.25", "0.000001", "2.000001", "16777216.0", "0.1", "7.0"];
    let deltas = ["0.000001", "0.000002", "0.00001", "0.0001", "0.5"];
    let b2s = |b: bool| if b { "-1 " } else { " 0 " };
    for dbl in [false, true] {
        for x in bases {
            for d in deltas {
                // y = x + d as a decimal text (both have at most 6 decimals)
                let xi = (x.parse::<f64>().unwrap() * 1e6).round() as i64;
                let di = (d.parse::<f64>().unwrap() * 1e6).round() as i64;
                let yi = xi + di;
                let y = format!("{}.{:06}", yi / 1_000_000, yi % 1_000_000);
                let sfx = if dbl { "#" } else { "" };
                let (xs, ys) = (format!("{}{}", x, sfx), format!("{}{}", y, sfx));
                let (gt, eq) = if dbl {
                    let (a, b): (f64, f64) = (x.parse().unwrap(), y.parse().unwrap());
                    (b > a, b == a)
                } else {
                    let (a, b): (f32, f32) = (x.parse().unwrap(), y.parse().unwrap());
                    (b > a, b == a)
                };
                let v = if dbl { "#" } else { "!" };
                // assignments one after the other, then comparisons of the variables and of the literals themselves
                text.push_str(&format!("A{v} = {xs}: B{v} = {ys}: PRINT B{v} > A{v}; B{v} = A{v}; {ys} > {xs}; {xs} = {ys}; {xs} - {ys} < 0\n", v = v, xs = xs, ys = ys));
                want.push_str(&format!("{}{}{}{}{}\r\n", b2s(gt), b2s(eq), b2s(gt), b2s(eq), b2s(gt)));
                labels.push(format!("{} and {}", xs, ys));
                // the other order, after an unrelated INTEGER assignment
                text.push_str(&format!("N% = 3: B{v} = {ys}: A{v} = {xs}: PRINT A{v} < B{v}; A{v} <> B{v}\n", v = v, xs = xs, ys = ys));
                want.push_str(&format!("{}{}\r\n", b2s(gt), b2s(!eq)));
                labels.push(format!("{} after {}", xs, ys));
            }
        }
    }
    (text, want, labels)
}

fn check_close_literals() -> Value {
    let (text, want, labels) = close_literal_program();
    let o = crate::bind::run_pipeline(&text, &crate::bind::RunOpts::default());
    let got = o.stdout_str();
    let mut bads = vec![];
    if o.end != vcore::End::Normal || got != want {
        let gl: Vec<&str> = got.split("\r\n").collect();
        let wl: Vec<&str> = want.split("\r\n").collect();
        let mut first = format!("the program ended with {}", o.end.class());
        for i in 0..wl.len() {
            if gl.get(i) != Some(&wl[i]) {
                first = format!("statement {} ({}): expected {:?}, got {:?}", i + 1, labels.get(i).cloned().unwrap_or_default(), wl[i], gl.get(i));
                break;
            }
        }
        bads.push(json!({"sig": "C10|close-literals|output", "summary": format!("two numeric literals loaded one after the other do not keep their own values — {}", first), "text": text, "case": {"k": "close"}}));
    }
    json!({"n": labels.len(), "nontrivial": labels.len(), "bad": bads, "sample": {"group": "close literals", "text": super::truncate_text(&text, 600)}})
}

/// Run level, the implementation against itself: every expression of C01's axis R (operators whose operands are
/// members of array-of-records elements with expression subscripts, elements, FUNCTION calls, sub-expressions) prints
/// the same value written as it stands and written fully parenthesised.
fn check_rich_operands() -> Value {
    use vcore::gast::{Expr, K, PItem, Prog, Stmt};
    fn wrap(e: &Expr) -> Expr {
        match e {
            Expr::Bin(op, a, b) => Expr::Paren(Box::new(Expr::Bin(*op, Box::new(wrap(a)), Box::new(wrap(b))))),
            Expr::Paren(x) => wrap(x),
            other => other.clone(),
        }
    }
    fn wrap_stmt(s: &Stmt) -> Stmt {
        let mut t = s.clone();
        t.k = match &s.k {
            K::Assign(l, r) => K::Assign(l.clone(), wrap(r)),
            K::Print { dev, using, items } => K::Print { dev: *dev, using: using.clone(), items: items.iter().map(|i| match i { PItem::E(e) => PItem::E(wrap(e)), o => o.clone() }).collect() },
            other => other.clone(),
        };
        t
    }
    let mut bads = vec![];
    let mut n = 0u64;
    let mut sample = Value::Null;
    for (prog, label) in vcore::gen01::rich_operand_programs() {
        let plain = vcore::gprint::print_default(&prog).text;
        // only the PRINT / assignment statements that follow the set-up hold operators; wrapping the set-up changes nothing
        let full = Prog { main: prog.main.iter().map(wrap_stmt).collect(), ..prog.clone() };
        let full_text = vcore::gprint::print_default(&full).text;
        let a = crate::bind::run_pipeline(&plain, &crate::bind::RunOpts::default());
        let b = crate::bind::run_pipeline(&full_text, &crate::bind::RunOpts::default());
        n += 1;
        if sample.is_null() {
            sample = json!({"group": "rich operands", "as written": super::truncate_text(&plain, 500), "fully parenthesised": super::truncate_text(&full_text, 500)});
        }
        if a.end != b.end || a.stdout != b.stdout {
            if bads.len() < 10 {
                bads.push(json!({"sig": "C10|rich-operands|output", "summary": format!("an expression does not evaluate as its fully parenthesised form — operands {} — as written prints {:?} ({}), fully parenthesised prints {:?} ({}) — program: {:?}", label, a.stdout_str(), a.end.class(), b.stdout_str(), b.end.class(), super::truncate_text(&plain, 600)), "text": plain, "case": {"k": "rich"}}));
            }
        }
    }
    json!({"n": n, "nontrivial": n, "bad": bads, "sample": sample})
}

pub fn drive(tier: &str) -> i32 {
    let quick = tier == "quick";
    let mut run = Run::new("C10", tier);
    run.crash_is_violation = true;
    let mut pool = Pool::new("C10");
    pool.timeout_ms = 60_000;
    // plan: (len, scheme), smallest first
    let mut plan: Vec<(u32, &str)> = vec![];
    for len in 1..=(if quick { 4 } else { 5 }) {
        plan.push((len, "base"));
    }
    for len in 1..=(if quick { 2 } else { 3 }) {
        plan.push((len, "all-unary"));
    }
    for len in 2..=(if quick { 3 } else { 4 }) {
        plan.push((len, "one-paren"));
    }
    plan.push((3, "one-unary"));
    for len in 1..=(if quick { 2 } else { 3 }) {
        plan.push((len, "tight"));
    }
    if !quick {
        plan.push((4, "one-unary"));
        plan.push((5, "one-unary"));
        plan.push((5, "one-paren"));
    }
    let mut cases = vec![];
    let mut plan_report = vec![];
    for (len, scheme) in &plan {
        let total = pow13(*len);
        let chunk: u64 = match *scheme {
            "base" => 2000,
            "all-unary" => 40,
            _ => 300,
        };
        let mut lo = 0;
        while lo < total {
            cases.push(json!({"k": "chains", "len": len, "scheme": scheme, "lo": lo, "hi": (lo + chunk).min(total)}));
            lo += chunk;
        }
        plan_report.push(json!({"operators": len, "scheme": scheme, "operator_sequences": total}));
    }
    let lits = literal_texts(tier);
    let lit_count = lits.len();
    for c in lits.chunks(400) {
        cases.push(json!({"k": "lits", "lits": c}));
    }
    cases.push(json!({"k": "close"}));
    cases.push(json!({"k": "rich"}));
    let cap = run.wall_cap_s;
    let t0 = run.reporter.start;
    let total_cases = cases.len();
    let mut dispatched = 0usize;
    let it = cases.into_iter().take_while(|_| {
        dispatched += 1;
        t0.elapsed().as_secs_f64() < cap
    });
    run.run_pool(&pool, it, |_, _, _, _| {});
    if (run.cases as usize) < total_cases {
        run.capped = true;
    }
    let mut ev = Evidence::new("exploration");
    ev.set("rule", "(a) every operator sequence of the planned lengths over the 13 binary operators on operands A..F, with the listed unary / parenthesis variant schemes, is spelled, parsed by the real parser (500 per program) and its tree compared with an independent precedence climber (unary minus > * / > MOD > + - > relational > NOT > AND > OR, left-associative), modulo re-association inside homogeneous AND or OR chains; the scheme `tight` parenthesises one operand or sub-chain, bare or directly after a unary minus / NOT, and writes no blank between an operator and a parenthesis next to it (NOT(A)+B, A MOD(B)*C, (A)AND(B)); non-trivial = operators of at least two different rank classes, or a unary operator / parenthesis, are involved. (b) every literal text of the lattice is checked plain, after a unary minus, after a double unary minus and after a binary minus: node kind and exact value from the parse tree; the lattice includes hexadecimal / octal literals of up to 44 digits (beyond 64 and 128 bits: rejected, never a panic) and fractions of up to 55 digits next to the midpoint of two adjacent SINGLEs / DOUBLEs. (c) run level: 80 pairs of SINGLE / DOUBLE literals 0.000001 .. 0.5 apart, assigned one after the other in both orders and compared as variables and as literals inside one expression — each literal keeps its own value (expected truth values from Rust's parse of the digits). (d) run level: the 72 programs of C01's axis R (13 operators on members of array-of-records elements with expression / FUNCTION-call subscripts, elements, FUNCTION calls and sub-expressions, in both orders) print the same written as they stand and written fully parenthesised. Enumeration without repeats.");
    ev.set("exhaustive", !run.capped);
    ev.set("plan", json!(plan_report));
    ev.set("literal_texts", lit_count as u64);
    ev.assume("'+' and '*' chains are compared exactly (grouping changes overflow behaviour); only AND / OR chains are compared modulo association");
    ev.assume("literal values are compared bit-exactly with Rust's nearest-representable parse of the written digits");
    ev.assume("run-level comparison of printed values is part of C01's expression axis, not of this check");
    run.finish(ev)
}
