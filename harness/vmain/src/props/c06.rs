//! C06 — a numeric variable only ever holds a value of its own type and range.
//! Differential check against the reference semantics plus the in-VM typed-variable monitor.

use serde_json::{Value, json};
use vcore::Evidence;
use vcore::gen06::{arithmetic, close_pairs, conversions, float_arithmetic, for_steps, header, prelude};

use super::Run;
use super::snipbatch::{Ctx, Item, run_items};
use crate::bind::{RunOpts, run_pipeline};
use crate::pool::Pool;

pub fn worker(case: &Value) -> Value {
    if case["axis"].as_str() == Some("text") {
        let text = case["text"].as_str().unwrap_or("");
        let opts = RunOpts { stdin: case["stdin"].as_str().unwrap_or("").as_bytes().to_vec(), check_types: true, ..RunOpts::default() };
        let o = run_pipeline(text, &opts);
        return json!({"n": 1, "bad": [], "observed": {"stdout": o.stdout_str(), "end": format!("{:?}", o.end), "type_violation": o.mon.and_then(|m| m.type_violation)}});
    }
    let group = case["group"].as_str().unwrap_or("");
    if group == "monitor" {
        // programs judged by the in-VM monitor alone (the values involved are outside the reference's domain):
        // the run ends normally or with a BASIC error, and no variable ever holds a value of another type, out of
        // range or not finite
        let mut bads = vec![];
        let mut hist: std::collections::BTreeMap<String, u64> = Default::default();
        let mut n = 0u64;
        for (label, text, stdin) in monitor_programs() {
            let opts = RunOpts { stdin: stdin.as_bytes().to_vec(), check_types: true, budget: 400_000, ..RunOpts::default() };
            let o = run_pipeline(&text, &opts);
            n += 1;
            let offence = match (&o.end, o.mon.as_ref().and_then(|m| m.type_violation.clone())) {
                (_, Some((pc, what))) => Some(format!("type-monitor|{}", label.split(':').next().unwrap_or("")) + &format!("||a variable holds a value of another type, out of range or not finite (first seen at instruction {}): {}", pc, what)),
                (vcore::outcome::End::Normal | vcore::outcome::End::RuntimeError { .. }, None) => None,
                // a literal that has no value of any type is rejected before the program runs: nothing is stored
                (vcore::outcome::End::ParseError { kind, .. } | vcore::outcome::End::LintError { kind, .. }, None) if kind == "Overflow" => None,
                (other, None) => Some(format!("not-a-basic-outcome|{}||the run ended with {}", label.split(':').next().unwrap_or(""), other.class())),
            };
            match offence {
                None => *hist.entry(format!("monitor-clean:{}", o.end.class())).or_insert(0) += 1,
                Some(m) => {
                    *hist.entry("differ".into()).or_insert(0) += 1;
                    let (sig, msg) = m.split_once("||").unwrap();
                    bads.push(json!({
                        "sig": format!("C06|monitor|{}", sig),
                        "summary": format!("{} — {} — stdin {:?} — program: {:?}", msg, label, stdin, super::truncate_text(&text, 300)),
                        "text": text,
                        "stdin": stdin,
                        "case": {"axis": "text", "text": text, "stdin": stdin},
                    }));
                }
            }
        }
        return json!({"n": n, "nontrivial": n, "hist": hist, "bad": bads});
    }
    let lo = case["lo"].as_u64().unwrap() as usize;
    let hi = case["hi"].as_u64().unwrap() as usize;
    let all = match group {
        "conversions" => conversions(),
        "float-extremes" => float_arithmetic(),
        "for-steps" => for_steps(),
        "close-pairs" => close_pairs(),
        "unary-and-powers" => vcore::gen06::unary_and_powers(),
        _ => arithmetic(),
    };
    let items: Vec<Item> = all
        .iter()
        .skip(lo)
        .take(hi - lo)
        .map(|s| Item { snip: &s.snip, stdin: &s.stdin, nontrivial: s.boundary })
        .collect();
    let hdr = header();
    let ctx = Ctx { prop: "C06", tag: group, header: &hdr, prelude: &prelude, check_types: true };
    let r = run_items(&ctx, &items);
    let sample = items.first().map(|i| json!({"group": group, "label": i.snip.label, "stdin": i.stdin}));
    json!({"n": r.n, "nontrivial": r.nontrivial, "hist": r.hist, "bad": r.bads, "sample": sample})
}

/// (label, program, stdin)
fn monitor_programs() -> Vec<(String, String, String)> {
    let mut out = vec![];
    let types = [("%", "INTEGER"), ("&", "LONG"), ("!", "SINGLE"), ("#", "DOUBLE")];
    // the result of a built-in function stored into a variable of every type, through every storing route
    let calls = [
        "VAL(\"5\")", "VAL(\"30000\")", "VAL(\"70000\")", "VAL(\"2.5\")", "VAL(\"-7\")", "VAL(\"3.14159265358979\")", "VAL(\"3000000000\")",
        "VAL(STRING$(60, \"9\"))", "VAL(STRING$(400, \"9\"))", "VAL(\".\" + STRING$(400, \"9\"))", "VAL(\"1E39\")", "VAL(\"1D400\")", "VAL(\"-1E400\")",
        "LEN(\"abc\")", "LEN(SPACE$(30000) + SPACE$(30000))", "CVD(STRING$(6, 0) + CHR$(240) + CHR$(127))", "CVD(STRING$(6, 0) + CHR$(248) + CHR$(127))", "CVD(STRING$(6, 0) + CHR$(240) + CHR$(255))", "INSTR(\"abc\", \"c\")", "CVD(MKD$(2.5#))", "CVD(MKD$(70000.5#))", "PEEK(VARPTR(P%))", "VARPTR(P%)", "VARSEG(P%)", "LBOUND(BIG#)", "UBOUND(BIG#)", "EOF(1)", "ERR",
    ];
    for call in calls {
        for (sfx, _) in types {
            for route in 0..4 {
                let store = match route {
                    0 => format!("T{} = {}\nU{} = T{} + 0\n", sfx, call, sfx, sfx),
                    1 => format!("AR{}(1) = {}\nU{} = AR{}(1) + 0\n", sfx, call, sfx, sfx),
                    2 => format!("R.F{} = {}\n", match sfx { "%" => "I", "&" => "L", "!" => "S", _ => "D" }, call),
                    _ => format!("T{} = ({})\nU{} = T{}\n", sfx, call, sfx, sfx),
                };
                let text = format!(
                    "TYPE Rec\n  FI AS INTEGER\n  FL AS LONG\n  FS AS SINGLE\n  FD AS DOUBLE\nEND TYPE\nDIM R AS Rec\nDIM BIG#(9000)\nDIM AR%(2)\nDIM AR&(2)\nDIM AR!(2)\nDIM AR#(2)\nP% = 1\nOPEN \"e.txt\" FOR OUTPUT AS #1\nCLOSE\nOPEN \"e.txt\" FOR INPUT AS #1\n{}PRINT \"ok\"\n",
                    store
                );
                out.push((format!("built-in result stored: {} -> {} route {}", call, sfx, route), text, String::new()));
            }
        }
    }
    // literals with a fraction that lie beyond the range of their type: stored directly, through DATA / READ, as a CONST
    for (lit, what) in [(format!("{}.5", "9".repeat(40)), "SINGLE literal of 40 digits"), (format!("{}.5#", "9".repeat(400)), "DOUBLE literal of 400 digits"), (format!("1{}.0", "0".repeat(39)), "SINGLE literal 1e39"), (format!("{}.5#", "9".repeat(40)), "DOUBLE literal of 40 digits")] {
        for (sfx, _) in types {
            out.push((format!("{} -> {} by assignment", what, sfx), format!("T{} = {}\nU{} = T{} + 0\nPRINT \"ok\"\n", sfx, lit, sfx, sfx), String::new()));
            out.push((format!("{} -> {} by READ", what, sfx), format!("DATA {}\nREAD T{}\nU{} = T{} + 0\nPRINT \"ok\"\n", lit, sfx, sfx, sfx), String::new()));
            out.push((format!("{} -> {} through a CONST", what, sfx), format!("CONST K = {}\nT{} = K\nU{} = T{} + 0\nPRINT \"ok\"\n", lit, sfx, sfx, sfx), String::new()));
            out.push((format!("{} -> {} as an argument", what, sfx), format!("DECLARE SUB S (X{})\nS {}\nPRINT \"ok\"\nSUB S (X{})\nY{} = X{}\nEND SUB\n", sfx, lit, sfx, sfx, sfx), String::new()));
        }
    }
    // a minus sign directly before the most negative hexadecimal / octal literal of its type (the value 32768 / 2147483648
    // does not fit the literal's own type), a doubled minus, and the neighbouring literals, through every storing route
    for lit in ["-&H8000", "-&O100000", "-&H80000000", "-&O20000000000", "--&H8000", "- -&H80000000", "-&H8001", "-&H7FFF", "-&HFFFF", "-&H80000001", "-(&H8000)", "-(&H80000000)", "-&H08000", "-32768", "-2147483648"] {
        for (sfx, _) in types {
            out.push((format!("negated literal: {} -> {} by assignment", lit, sfx), format!("T{} = {}\nU{} = T{} + 0\nPRINT \"ok\"\n", sfx, lit, sfx, sfx), String::new()));
            out.push((format!("negated literal: {} -> {} into an array element and a record field", lit, sfx), format!("TYPE Rec\n  FI AS INTEGER\n  FL AS LONG\n  FS AS SINGLE\n  FD AS DOUBLE\nEND TYPE\nDIM R AS Rec\nDIM AR{}(2)\nAR{}(1) = {}\nR.F{} = {}\nPRINT \"ok\"\n", sfx, sfx, lit, match sfx { "%" => "I", "&" => "L", "!" => "S", _ => "D" }, lit), String::new()));
            if !lit.contains('(') && !lit.starts_with("--") && !lit.starts_with("- -") {
                out.push((format!("negated literal: {} -> {} by READ", lit, sfx), format!("DATA {}\nREAD T{}\nU{} = T{} + 0\nPRINT \"ok\"\n", lit, sfx, sfx, sfx), String::new()));
            }
            out.push((format!("negated literal: {} -> {} through a CONST", lit, sfx), format!("CONST K = {}\nT{} = K\nU{} = T{} + 0\nPRINT \"ok\"\n", lit, sfx, sfx, sfx), String::new()));
            out.push((format!("negated literal: {} -> {} as an argument", lit, sfx), format!("DECLARE SUB S (X{})\nS {}\nPRINT \"ok\"\nSUB S (X{})\nY{} = X{}\nEND SUB\n", sfx, lit, sfx, sfx, sfx), String::new()));
            if sfx == "%" || sfx == "&" {
            out.push((format!("negated literal: {} -> {} as a FOR start", lit, sfx), format!("FOR T{} = {} TO {}\nU{} = T{}\nNEXT\nPRINT \"ok\"\n", sfx, lit, lit, sfx, sfx), String::new()));
            }
        }
    }
    // results of built-in functions beyond 32767 that only a long string or many bytes of variables produce
    for (sfx, _) in types {
        out.push((format!("built-in result stored: INSTR at position 40002 -> {}", sfx), format!("B$ = SPACE$(20000) + SPACE$(20001) + \"y\"\nT{} = INSTR(B$, \"y\")\nU{} = T{} + 0\nAR{}(1) = INSTR(20000, B$, \"y\")\nPRINT \"ok\"\nDIM AR{}(2)\n", sfx, sfx, sfx, sfx, sfx).replace(&format!("PRINT \"ok\"\nDIM AR{}(2)\n", sfx), "PRINT \"ok\"\n").replacen("B$ =", &format!("DIM AR{}(2)\nB$ =", sfx), 1), String::new()));
        out.push((format!("built-in result stored: VARPTR behind 60000 bytes of strings -> {}", sfx), format!("A$ = SPACE$(30000)\nB$ = SPACE$(30000)\nZ% = 1\nT{} = VARPTR(Z%)\nU{} = T{} + 0\nPRINT \"ok\"\n", sfx, sfx, sfx), String::new()));
    }
    // INPUT, INPUT # and READ of texts that do not denote a finite number of the target type
    let texts = ["1e39", "1E39", "1e400", "-1e400", "nan", "NaN", "inf", "-inf", "infinity", "1e-400", "3.5e38", "1d39", "99999999999999999999999999999999999999999", "0x10", "1_000", "+5", "5.", ".5", "1e5", "-0"];
    for t in texts {
        for (sfx, _) in types {
            out.push((format!("INPUT of {:?} -> {}", t, sfx), format!("INPUT T{}\nU{} = T{} + 0\nPRINT \"ok\"\n", sfx, sfx, sfx), format!("{}\n", t)));
            out.push((
                format!("INPUT # of {:?} -> {}", t, sfx),
                format!("OPEN \"n.txt\" FOR OUTPUT AS #1\nPRINT #1, \"{}\"\nCLOSE\nOPEN \"n.txt\" FOR INPUT AS #1\nINPUT #1, T{}\nU{} = T{} + 0\nPRINT \"ok\"\n", t, sfx, sfx, sfx),
                String::new(),
            ));
        }
    }
    out
}

pub fn drive(tier: &str) -> i32 {
    let mut run = Run::new("C06", tier);
    run.crash_is_violation = true;
    let mut pool = Pool::new("C06");
    pool.timeout_ms = 60_000;
    let mut cases = vec![];
    let mut plan = vec![];
    for (group, total) in [("conversions", conversions().len()), ("arithmetic", arithmetic().len()), ("float-extremes", float_arithmetic().len()), ("for-steps", for_steps().len()), ("close-pairs", close_pairs().len()), ("unary-and-powers", vcore::gen06::unary_and_powers().len())] {
        let chunk = 150;
        let mut lo = 0;
        while lo < total {
            cases.push(json!({"group": group, "lo": lo, "hi": (lo + chunk).min(total)}));
            lo += chunk;
        }
        plan.push(json!({"group": group, "snippets": total}));
    }
    cases.push(json!({"group": "monitor"}));
    plan.push(json!({"group": "monitor", "programs": monitor_programs().len()}));
    let total_cases = cases.len();
    let cap = run.wall_cap_s;
    let t0 = run.reporter.start;
    let it = cases.into_iter().take_while(|_| t0.elapsed().as_secs_f64() < cap);
    run.run_pool(&pool, it, |_, _, _, _| {});
    if (run.cases as usize) < total_cases {
        run.capped = true;
    }
    // history independence with the typed-variable monitor on: the call programs of C03 (numeric parameters of every
    // type, by reference and by value) after each disturbing prefix
    let dtexts: Vec<String> = vcore::gen03::arg_programs().iter().filter(|c| !c.expect_reject).map(|c| vcore::gprint::print_default(&c.prog).text).collect();
    let dgroup = super::disturbw::run_group(&mut run, &pool, &dtexts, if tier == "quick" { 4 } else { 1 }, true);
    let mut ev = Evidence::new("exploration");
    ev.set("groups", json!([dgroup]));
    ev.assume(super::disturbw::ASSUMPTION);
    ev.set("rule", "conversions: for every ordered pair (source type, target type) of the four numeric types, every value of the target's boundary lattice {MIN-1, MIN-.75, MIN-.25, MIN, MIN+.25, MIN+1, -1, -.75, -.25, 0, .25, .75, 1, MAX-1, MAX-.25, MAX, MAX+.25, MAX+.75, MAX+1} that the source type can denote, delivered through 9 routes (assignment to a variable, an array element, a record field, by-value parameter, FUNCTION result, FOR start with the increment past it, READ, INPUT, FOR limit), the source as a literal and as a typed variable. arithmetic: + - * / MOD and unary minus on all pairs of the INTEGER and LONG boundary lattices (mixed types included), results printed and stored into INTEGER / LONG targets. float-extremes: + - * / and unary minus on every pair from {MAX, MAX/2, -MAX, -MAX/2} x {the same, 2, -2, .5, 2.0, 2.0#, 1, 0} (both orders) of SINGLE and of DOUBLE, printed and stored, observed through comparisons only (a result beyond the type is Overflow, a result that fits is exact); quotients by divisors of 2^-16, 2^-17, 2^-20 (not zero, but below the 0.00001 tolerance of the interpreter's comparisons); DOUBLE values MAX, MAX + 1 ulp and 2 * MAX of SINGLE stored into a SINGLE variable, array element, record field and FUNCTION result. for-steps: FOR with a counter of each numeric type and a step of another type (1.25, 1.75, 2.25, -1.25 as SINGLE / DOUBLE literals and variables, 2, 70000), and the increment past the INTEGER / LONG maximum with a fractional step. close-pairs: two values 2^-20 below and above a rounding tie (2.5, -2.5, .5, 100.5) or a range limit (MAX + .5, MIN - .5, MAX - .5) converted to INTEGER / LONG one right after the other, in both orders, from DOUBLE and SINGLE, as literals, through variables and as by-value arguments of two consecutive calls. unary-and-powers: NOT, unary minus, AND 6 and OR 1 of a variable of every numeric type (12 values of every magnitude and sign) stored into a variable, array element and record field of every numeric type and used in further arithmetic; quotients that are exactly 2^15 / 2^31 and their negatives computed in SINGLE and in DOUBLE (literals, variables, parenthesised) stored into INTEGER / LONG; FOR headers whose literal start, limit or step does not fit the counter (Overflow before the body runs). monitor: the result of 28 built-in calls (VAL of texts of every magnitude, LEN (also of a string of 60000 characters), INSTR, CVD (also of the bytes of +infinity, -infinity and a NaN), PEEK, VARPTR behind a 72 KB array, VARSEG, LBOUND / UBOUND, EOF, ERR) stored into a variable, array element and record field of every numeric type, and 20 input texts (1e39, 1e400, nan, inf, -inf, 41 digits, ...) read by INPUT and INPUT # into every numeric type — judged by the in-VM monitor alone (a BASIC-level outcome, and no variable ever holds a value of another type, out of range or not finite). Each snippet is judged by the reference semantics (value or Overflow at the right row) and by the in-VM monitor (at every statement start every variable of the current memory block holds a value of its own type and range). Non-trivial = within one unit of a type boundary or beyond it. History independence: call programs with numeric parameters of every type run after each disturbing prefix (see the group) with the monitor on: same output and end as alone, and no variable holds a value of another type.");
    ev.set("exhaustive", !run.capped);
    ev.set("plan", json!(plan));
    ev.assume("R1: exact ties (x.5) are never converted to a whole-number type; SINGLE values are exactly representable");
    run.finish(ev)
}
