//! C06 — a numeric variable only ever holds a value of its own type and range.
//! Differential check against the reference semantics plus the in-VM typed-variable monitor.

use serde_json::{Value, json};
use vcore::Evidence;
use vcore::gen06::{arithmetic, conversions, float_arithmetic, for_steps, header, prelude};

use super::Run;
use super::snipbatch::{Ctx, Item, run_items};
use crate::bind::{RunOpts, run_pipeline};
use crate::pool::Pool;

pub fn worker(case: &Value) -> Value {
    if case["axis"].as_str() == Some("text") {
        let text = case["text"].as_str().unwrap_or("");
        let opts = RunOpts { stdin: case["stdin"].as_str().unwrap_or("").as_bytes().to_vec(), check_types: true, ..RunOpts::default() };
        let o = run_pipeline(text, &opts);
        return json!({"n": 1, "bad": [], "observed": {"stdout": o.stdout_str(), "end": format!("{:?}", o.end), "type_violation": o.mon.and_then(|m| m.type_violation)}});
    }
    let group = case["group"].as_str().unwrap_or("");
    let lo = case["lo"].as_u64().unwrap() as usize;
    let hi = case["hi"].as_u64().unwrap() as usize;
    let all = match group {
        "conversions" => conversions(),
        "float-extremes" => float_arithmetic(),
        "for-steps" => for_steps(),
        _ => arithmetic(),
    };
    let items: Vec<Item> = all
        .iter()
        .skip(lo)
        .take(hi - lo)
        .map(|s| Item { snip: &s.snip, stdin: &s.stdin, nontrivial: s.boundary })
        .collect();
    let hdr = header();
    let ctx = Ctx { prop: "C06", tag: group, header: &hdr, prelude: &prelude, check_types: true };
    let r = run_items(&ctx, &items);
    let sample = items.first().map(|i| json!({"group": group, "label": i.snip.label, "stdin": i.stdin}));
    json!({"n": r.n, "nontrivial": r.nontrivial, "hist": r.hist, "bad": r.bads, "sample": sample})
}

pub fn drive(tier: &str) -> i32 {
    let mut run = Run::new("C06", tier);
    run.crash_is_violation = true;
    let mut pool = Pool::new("C06");
    pool.timeout_ms = 60_000;
    let mut cases = vec![];
    let mut plan = vec![];
    for (group, total) in [("conversions", conversions().len()), ("arithmetic", arithmetic().len()), ("float-extremes", float_arithmetic().len()), ("for-steps", for_steps().len())] {
        let chunk = 150;
        let mut lo = 0;
        while lo < total {
            cases.push(json!({"group": group, "lo": lo, "hi": (lo + chunk).min(total)}));
            lo += chunk;
        }
        plan.push(json!({"group": group, "snippets": total}));
    }
    let total_cases = cases.len();
    let cap = run.wall_cap_s;
    let t0 = run.reporter.start;
    let it = cases.into_iter().take_while(|_| t0.elapsed().as_secs_f64() < cap);
    run.run_pool(&pool, it, |_, _, _, _| {});
    if (run.cases as usize) < total_cases {
        run.capped = true;
    }
    let mut ev = Evidence::new("exploration");
    ev.set("rule", "conversions: for every ordered pair (source type, target type) of the four numeric types, every value of the target's boundary lattice {MIN-1, MIN-.75, MIN-.25, MIN, MIN+.25, MIN+1, -1, -.75, -.25, 0, .25, .75, 1, MAX-1, MAX-.25, MAX, MAX+.25, MAX+.75, MAX+1} that the source type can denote, delivered through 9 routes (assignment to a variable, an array element, a record field, by-value parameter, FUNCTION result, FOR start with the increment past it, READ, INPUT, FOR limit), the source as a literal and as a typed variable. arithmetic: + - * / MOD and unary minus on all pairs of the INTEGER and LONG boundary lattices (mixed types included), results printed and stored into INTEGER / LONG targets. float-extremes: + - * / and unary minus on every pair from {MAX, MAX/2, -MAX, -MAX/2} x {the same, 2, -2, .5, 2.0, 2.0#, 1, 0} (both orders) of SINGLE and of DOUBLE, printed and stored, observed through comparisons only (a result beyond the type is Overflow, a result that fits is exact); DOUBLE values MAX, MAX + 1 ulp and 2 * MAX of SINGLE stored into a SINGLE variable, array element, record field and FUNCTION result. for-steps: FOR with a counter of each numeric type and a step of another type (1.25, 1.75, 2.25, -1.25 as SINGLE / DOUBLE literals and variables, 2, 70000), and the increment past the INTEGER / LONG maximum with a fractional step. Each snippet is judged by the reference semantics (value or Overflow at the right row) and by the in-VM monitor (at every statement start every variable of the current memory block holds a value of its own type and range). Non-trivial = within one unit of a type boundary or beyond it.");
    ev.set("exhaustive", !run.capped);
    ev.set("plan", json!(plan));
    ev.assume("R1: exact ties (x.5) are never converted to a whole-number type; SINGLE values are exactly representable");
    run.finish(ev)
}
