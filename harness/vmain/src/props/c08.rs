//! C08 — a program the checker accepts always compiles and runs to a BASIC-level outcome.
//!
//! Spaces: the built-in repertoire (every built-in function and sub x argument
//! count x argument shape menu, in several syntactic positions), the statement
//! templates x operand menu of vcore::slots, and every accepted harvested program,
//! each x a stdin menu when the program reads the console. Oracle: the run ends
//! Normal or with a RuntimeError that has a code; a panic, a crash, a hang, or an
//! exhausted instruction budget in a loop-free program is a violation.

use std::collections::{BTreeMap, HashSet};

use serde_json::{Value, json};
use vcore::{End, Evidence, strip_digits};

use super::{Run, run_text_group, truncate_text};
use crate::bind::{RunOpts, front_end, run_generated};
use crate::corpus::harvest;
use crate::pool::Pool;

/// The console input menu: ordinary lines, and arbitrary bytes (not UTF-8, NUL, a long line,
/// numbers the conversions cannot hold).
const STDINS: &[&[u8]] = &[
    b"",
    b"1\n",
    b"abc\n",
    b"1,2\n",
    b"\n",
    b"1.5,\"q\"\r\nx y\n",
    b"\xff\n",
    b"a\xc3\n\x80b,\xfe\n",
    b"\x00\x01\x02\n",
    b"1e999,-1e999\n",
    b"99999999999999999999,-\n",
    b" 12 , &H10\n",
    b"1,2,3,4,5,6,7,8\n9\n10\n",
    b"aaaaaaaaaaaaaaaaaaaaaaaaaaaaaaaaaaaaaaaaaaaaaaaaaaaaaaaaaaaaaaaaaaaaaaaaaaaaaaaaaaaaaaaaaaaaaaaaaaaaaaaaaaaaaaaaaaaaaaaaaaaaaaaaaaaaaaaaaaaaaaaaaaaaaaaaaaaaaaaaaaaaaaaaaaaaaaaaaaaaaaaaaaaaaaaaaaaaaaaaaaaaaaaaaaaaaaaaaaaaaaaaaaaaaaaaaaaaaaaaaaaaaaaaaaaaaaaaaaaaaaaaaaaaaaaaaaaa",
];

fn reads_console(text: &str) -> bool {
    let up = text.to_ascii_uppercase();
    up.contains("INPUT")
}

fn uses_keyboard(text: &str) -> bool {
    text.to_ascii_uppercase().contains("INKEY")
}

fn may_loop(text: &str) -> bool {
    let up = text.to_ascii_uppercase();
    ["FOR", "WHILE", "DO", "GOTO", "GOSUB", "RESUME", "ON ERROR", "FUNCTION", "SUB", "RETURN"]
        .iter()
        .any(|k| up.contains(k))
}

/// Judges one accepted-or-not text. Returns (class, Option<(sig, summary)>).
pub fn judge(text: &str, stdin: &[u8]) -> (String, Option<(String, String)>) {
    let (igr, types) = match front_end(text) {
        Err(end) => {
            return match &end {
                End::ParseError { .. } => ("rejected-by-parser".into(), None),
                End::LintError { .. } => ("rejected-by-linter".into(), None),
                End::Panic { stage, .. } if stage == "generate" => (
                    "panic".into(),
                    Some((
                        format!("C08|generate|{}", end.class()),
                        format!("accepted by the checker, but code generation failed: {:?}", end),
                    )),
                ),
                // panics of the parser / linter are C07's business
                _ => ("front-end-panic".into(), None),
            };
        }
        Ok(x) => x,
    };
    let opts = RunOpts {
        stdin: stdin.to_vec(),
        budget: 300_000,
        collect_files: true, // also empties the scratch directory before the run
        ..RunOpts::default()
    };
    let out = run_generated(igr, types, &opts);
    match &out.end {
        End::Normal => ("run-normal".into(), None),
        End::RuntimeError { code: Some(c), .. } => (format!("run-error{}", c), None),
        End::RuntimeError { kind, code: None, .. } => (
            format!("run-error:{}", kind),
            Some((
                format!("C08|run|error-without-code:{}", kind),
                format!("run-time error {} has no BASIC error code", kind),
            )),
        ),
        End::Budget => {
            if may_loop(text) {
                ("run-budget(loop)".into(), None)
            } else {
                (
                    "run-budget".into(),
                    Some((
                        "C08|run|budget-exhausted-in-a-loop-free-program".into(),
                        "a program without any loop or jump executed 300000 instructions".to_string(),
                    )),
                )
            }
        }
        other => (
            "run-internal-failure".into(),
            Some((
                format!("C08|run|{}", strip_digits(&other.class())),
                format!("accepted program ended in an internal failure: {:?}", other),
            )),
        ),
    }
}

pub fn worker(case: &Value) -> Value {
    let texts = case["texts"].as_array().cloned().unwrap_or_default();
    let mut hist: BTreeMap<String, u64> = BTreeMap::new();
    let mut bads = vec![];
    let mut n = 0u64;
    let mut nontrivial = 0u64;
    for t in &texts {
        let text = t.as_str().unwrap_or("");
        let stdins: Vec<&[u8]> = if reads_console(text) { STDINS.to_vec() } else { vec![b""] };
        for stdin in stdins {
            let (class, bad) = judge(text, stdin);
            n += 1;
            *hist.entry(class.clone()).or_insert(0) += 1;
            if class.starts_with("run-") {
                nontrivial += 1;
            }
            if let Some((sig, summary)) = bad
                && bads.len() < 30
            {
                bads.push(json!({
                    "sig": sig,
                    "summary": format!("{} — stdin {:?} — text: {:?}", summary, vcore::outcome::latin1(stdin), truncate_text(text, 300)),
                    "text": text,
                    "stdin": vcore::outcome::latin1(stdin),
                    "case": {"texts": [text]},
                }));
            }
            if class.starts_with("rejected") || class == "front-end-panic" {
                break;
            }
        }
    }
    json!({"n": n, "nontrivial": nontrivial, "hist": hist, "bad": bads})
}

const FUNCTIONS: &[&str] = &[
    "CHR$", "CVD", "ENVIRON$", "EOF", "ERR", "INSTR", "LBOUND", "UBOUND", "LCASE$", "UCASE$", "LTRIM$",
    "RTRIM$", "LEFT$", "RIGHT$", "LEN", "MID$", "MKD$", "PEEK", "SPACE$", "STR$", "STRING$", "VAL",
    "VARPTR", "VARSEG",
    // a name that is neither a built-in nor defined by the program (QBasic's ASC is not implemented)
    "ASC",
    "NOSUCH$",
];

const ARGS: &[&str] = &[
    "1", "-1", "0", "70000", "1.5", "2.5#", "\"ab\"", "\"\"", "S$", "N%", "D#", "A(1)", "R.F", "A",
    // a string with characters above 127
    "H$",
    // strings that are not a valid NAME=value pair for the host environment
    "\"=B\"",
    // a whole number beyond the length (+ 2) of every string of the menu
    "9",
];

const SUBS: &[&str] = &[
    "BEEP", "CLOSE", "CLS", "COLOR", "DEF SEG =", "ENVIRON", "KILL", "LOCATE", "POKE", "VIEW PRINT", "WIDTH",
    "READ", "INPUT", "LINE INPUT", "GET #1,", "PUT #1,", "LSET S$ =", "NAME \"a\" AS", "CLOSE #", "FIELD #1,",
];

const HEADER: &str = "TYPE T\n  F AS INTEGER\nEND TYPE\nDIM R AS T\nDIM A(3)\nS$ = \"xyz\"\nH$ = CHR$(200) + \"a\" + CHR$(201)\nN% = 2\nD# = 3.5\nDATA 1, \"two\", 3.5\n";

/// DEF SEG / PEEK / POKE histories: the segment is state that a later PEEK or POKE depends on.
fn memory_programs() -> Vec<String> {
    let menu = [
        "DEF SEG = 0",
        "DEF SEG",
        "DEF SEG = VARSEG(A(1))",
        "PRINT PEEK(5)",
        "POKE 5, 1",
        "PRINT PEEK(VARPTR(N%)); PEEK(VARPTR(L&) + 3); PEEK(VARPTR(D#) + 7); PEEK(VARPTR(S$)); PEEK(VARPTR(R))",
        "POKE VARPTR(L&) + 3, 1: POKE VARPTR(D#) + 7, 64: POKE VARPTR(S$), 65: POKE VARPTR(R), 2: PRINT L&; D#; S$; R.F",
        "PRINT PEEK(VARPTR(A(1)) + 1); PEEK(VARPTR(E$(1)))",
        "POKE VARPTR(D#) + 7, 127: POKE VARPTR(D#) + 6, 240: PRINT \"poked\"",
    ];
    let head = "TYPE T\n  F AS INTEGER\nEND TYPE\nDIM R AS T\nDIM A(3)\nDIM E$(2)\nS$ = \"xyz\"\nN% = 2\nL& = 70000\nD# = 3.5\n";
    let mut out = vec![];
    let n = menu.len();
    for a in 0..n {
        out.push(format!("{}{}\n", head, menu[a]));
        for b in 0..n {
            out.push(format!("{}{}\n{}\n", head, menu[a], menu[b]));
            if a < 3 {
                for c in 0..n {
                    out.push(format!("{}{}\n{}\n{}\n", head, menu[a], menu[b], menu[c]));
                }
            }
        }
    }
    out
}

fn arg_lists(max_args: usize) -> Vec<String> {
    let mut out = vec![String::new()];
    let mut prev = vec![String::new()];
    for n in 1..=max_args {
        let mut next = vec![];
        for p in &prev {
            for a in ARGS {
                next.push(if n == 1 { a.to_string() } else { format!("{}, {}", p, a) });
            }
        }
        out.extend(next.iter().cloned());
        prev = next;
    }
    out
}

fn builtin_programs(tier: &str) -> Vec<String> {
    let quick = tier == "quick";
    let mut out = vec![];
    let lists2 = arg_lists(2);
    let lists3 = arg_lists(3);
    for f in FUNCTIONS {
        let lists = if quick { &lists2 } else { &lists3 };
        for l in lists {
            let call = if l.is_empty() { f.to_string() } else { format!("{}({})", f, l) };
            out.push(format!("{}PRINT {}\n", HEADER, call));
        }
        if quick {
            // three arguments over a reduced menu (the full cube is part of the thorough tier)
            const SMALL: [&str; 7] = ["1", "0", "9", "-1", "\"ab\"", "S$", "\"\""];
            for a in SMALL {
                for b in SMALL {
                    for c in SMALL {
                        out.push(format!("{}PRINT {}({}, {}, {})\n", HEADER, f, a, b, c));
                    }
                }
            }
        }
        // the same call in positions the post-conversion linters treat differently
        for l in &lists2 {
            if l.is_empty() || (quick && l.contains(',')) {
                continue;
            }
            let call = format!("{}({})", f, l);
            out.push(format!("{}PRINT ({})\n", HEADER, call));
            out.push(format!("{}X = A({})\n", HEADER, call));
            out.push(format!("{}SELECT CASE 1\nCASE {}\nEND SELECT\n", HEADER, call));
            out.push(format!("{}FOR I = {} TO 1\nNEXT\n", HEADER, call));
            out.push(format!("{}PRINT LEN(STR$({}))\n", HEADER, call));
            out.push(format!("{}PRINT 1 + {}\n", HEADER, call));
            out.push(format!("{}IF {} THEN PRINT 1\n", HEADER, call));
        }
    }
    for s in SUBS {
        let lists = if quick { &lists2 } else { &lists3 };
        for l in lists {
            out.push(format!("{}{} {}\n", HEADER, s, l));
        }
    }
    out
}

pub fn drive(tier: &str) -> i32 {
    let quick = tier == "quick";
    let mut run = Run::new("C08", tier);
    run.crash_is_violation = true;
    let mut pool = Pool::new("C08");
    pool.timeout_ms = 30_000;
    let h = harvest();
    let mut groups: Vec<(String, Vec<String>)> = vec![];
    groups.push((
        "statement templates x operand menu".into(),
        vcore::slots::instantiate(if quick { 1 } else { 2 })
            .into_iter()
            .map(|(_, s)| vcore::slots::program(&s))
            .collect(),
    ));
    groups.push((
        format!("statement soups: all sequences of <= {} statements over a {}-statement menu", if quick { 2 } else { 3 }, vcore::slots::SOUP_STATEMENTS.len()),
        vcore::slots::statement_soups(if quick { 2 } else { 3 }, 30),
    ));
    groups.push((
        format!("block skeletons: every block construct x optional parts x empty/comment/statement bodies, nesting depth {}", if quick { 1 } else { 2 }),
        vcore::slots::block_skeletons(if quick { 1 } else { 2 }).into_iter().map(|b| format!("X = 0\n{}PRINT \"end\"\n", b)).collect(),
    ));
    groups.push((
        "several block statements on one source line (sequential and nested)".into(),
        vcore::slots::one_line_programs(),
    ));
    groups.push((
        "statement templates inside 8 containers (SUB / FUNCTION / STATIC SUB bodies, single-line IF, IF in FOR, CASE, ELSE in WHILE, SUB with shared declarations); one free slot in the SUB body".into(),
        vcore::slots::instantiate_in_containers(if quick { &[0] } else { &[0, 1, 3, 5] }),
    ));
    groups.push(("memory statements: every sequence of <= 3 over DEF SEG (none, = 0, = VARSEG of an array) / PEEK / POKE at a fixed address and at variables of every type".into(), memory_programs()));
    groups.push((
        "harvested texts (accepted ones are run; x stdin menu when they read the console)".into(),
        h.texts
            .iter()
            .filter(|(_, t)| !uses_keyboard(t))
            .map(|(_, t)| t.clone())
            .collect(),
    ));
    groups.push((
        format!(
            "built-in repertoire: {} functions and {} subs x argument lists of length <= {} over a {}-shape menu, in 8 syntactic positions",
            FUNCTIONS.len(),
            SUBS.len(),
            if quick { 2 } else { 3 },
            ARGS.len()
        ),
        builtin_programs(tier),
    ));
    // the programs of the C01 / C03 / C04 / C05 generators, judged by this oracle too
    groups.extend(super::genpool::generated_groups(quick));
    let mut seen: HashSet<u64> = HashSet::new();
    let mut reports = vec![];
    let mut samples = vec![];
    for (name, texts) in groups {
        let unique: Vec<String> = texts
            .into_iter()
            .filter(|t| seen.insert(vcore::fnv1a(t)))
            .collect();
        if let Some(first) = unique.first() {
            samples.push(json!({"group": name, "first": truncate_text(first, 200), "median": truncate_text(&unique[unique.len() / 2], 200), "last": truncate_text(unique.last().unwrap(), 200)}));
        }
        let ran_before: u64 = run.hist.iter().filter(|(k, _)| k.starts_with("run-")).map(|(_, v)| *v).sum();
        let mut report = run_text_group(&mut run, &pool, &name, &unique, 25, &json!({}));
        let ran_after: u64 = run.hist.iter().filter(|(k, _)| k.starts_with("run-")).map(|(_, v)| *v).sum();
        report["programs_executed"] = json!(ran_after - ran_before);
        // every group is built so that a good part of it is accepted: a group in which nothing runs is a broken generator
        if ran_after == ran_before && report["completed"].as_bool() == Some(true) {
            run.machinery.push(format!("non-vacuity: no program of the group {:?} was accepted and run", name));
        }
        reports.push(report);
    }
    let ran: u64 = run
        .hist
        .iter()
        .filter(|(k, _)| k.starts_with("run-"))
        .map(|(_, v)| *v)
        .sum();
    if ran == 0 || run.hist.get("rejected-by-linter").copied().unwrap_or(0) == 0 {
        run.machinery.push("non-vacuity: no accepted program was run, or nothing was rejected".into());
    }
    let mut ev = Evidence::new("exploration");
    ev.set("rule", "every text of each group goes through parse + lint; every accepted one is translated and executed on the real VM (in-memory devices, scratch directory emptied before each run, 300000-instruction budget) once, or once per entry of the stdin menu if it reads the console; non-trivial = the program was accepted and executed; texts are de-duplicated by hash before dispatch");
    ev.set("exhaustive", !run.capped);
    ev.set("groups", json!(reports));
    ev.set("samples", json!(samples));
    ev.set("programs_executed", ran);
    ev.set("stdin_menu", json!(STDINS.iter().map(|b| vcore::outcome::latin1(b)).collect::<Vec<_>>()));
    ev.assume("INKEY$ programs are excluded (they poll the real terminal)");
    ev.assume("an exhausted instruction budget counts as a violation only for programs without loops, jumps or subprograms");
    run.finish(ev)
}
