//! Shared batching logic: snippets whose reference outcome is normal are assembled into one
//! program (one parse); a disagreeing batch is bisected; snippets that end in an error run alone.

use std::collections::BTreeMap;

use serde_json::{Value, json};
use vcore::gast::{B, Prog, Stmt};
use vcore::gen01::{Snip, assemble_with};
use vcore::gprint::print_default;
use vcore::judge::{Verdict, compare};
use vcore::refsem::{REnd, run_reference};

use crate::bind::{RunOpts, run_pipeline};

pub struct Item<'a> {
    pub snip: &'a Snip,
    pub stdin: &'a str,
    pub nontrivial: bool,
}

pub struct BatchResult {
    pub n: u64,
    pub nontrivial: u64,
    pub hist: BTreeMap<String, u64>,
    pub bads: Vec<Value>,
}

pub struct Ctx<'a> {
    pub prop: &'a str,
    pub tag: &'a str,
    pub header: &'a Prog,
    pub prelude: &'a dyn Fn(&mut B) -> Vec<Stmt>,
    pub check_types: bool,
}

/// Runs a group of items as one program on both sides.
fn judge(ctx: &Ctx, group: &[&Item]) -> (String, Option<(String, String, String)>) {
    let snips: Vec<&Snip> = group.iter().map(|i| i.snip).collect();
    let prog = assemble_with(ctx.header, ctx.prelude, &snips);
    let stdin: String = group.iter().map(|i| i.stdin).collect();
    let printed = print_default(&prog);
    let r = run_reference(&prog, stdin.as_bytes(), &[]);
    if r.steps > 30_000 {
        return ("undecided:long-running".into(), None);
    }
    let opts = RunOpts {
        stdin: stdin.as_bytes().to_vec(),
        budget: 600_000,
        check_types: ctx.check_types,
        ..RunOpts::default()
    };
    let o = run_pipeline(&printed.text, &opts);
    match compare(&r, &printed.pos, &o) {
        Verdict::Undecided(m) => (format!("undecided:{}", vcore::strip_digits(&m)), None),
        Verdict::Differ(class, msg) => ("differ".into(), Some((class, msg, printed.text))),
        Verdict::Agree => {
            if let Some(m) = &o.mon
                && let Some((pc, what)) = &m.type_violation
            {
                return (
                    "differ".into(),
                    Some((
                        "type-monitor".into(),
                        format!("a variable holds a value of another type or out of range (first seen at instruction {}): {}", pc, what),
                        printed.text,
                    )),
                );
            }
            (format!("agree:{}", o.end.class()), None)
        }
    }
}

pub fn run_items(ctx: &Ctx, items: &[Item]) -> BatchResult {
    let mut res = BatchResult { n: 0, nontrivial: 0, hist: BTreeMap::new(), bads: vec![] };
    let mut batch: Vec<&Item> = vec![];
    let mut solo: Vec<&Item> = vec![];
    for it in items {
        let prog = assemble_with(ctx.header, ctx.prelude, &[it.snip]);
        let r = run_reference(&prog, it.stdin.as_bytes(), &[]);
        match r.end {
            Some(REnd::Normal) => batch.push(it),
            Some(REnd::Error { .. }) => solo.push(it),
            Some(REnd::Undecided(m)) => {
                *res.hist.entry(format!("undecided:{}", vcore::strip_digits(&m))).or_insert(0) += 1;
            }
            None => {}
        }
    }
    let mut record = |res: &mut BatchResult, it: &Item, class: String, bad: Option<(String, String, String)>| {
        res.n += 1;
        if it.nontrivial {
            res.nontrivial += 1;
        }
        *res.hist.entry(class).or_insert(0) += 1;
        if let Some((sig, msg, text)) = bad
            && res.bads.len() < 25
        {
            res.bads.push(json!({
                "sig": format!("{}|{}|{}|{}", ctx.prop, ctx.tag, sig, it.snip.label),
                "summary": format!("{} — {} — program: {:?}", msg, it.snip.label, super::truncate_text(&text, 600)),
                "text": text,
                "stdin": it.stdin,
                "case": {"axis": "text", "text": text, "stdin": it.stdin},
            }));
        }
    };
    if !batch.is_empty() {
        let (class, bad) = judge(ctx, &batch);
        if bad.is_some() || class.starts_with("undecided") {
            // bisect: every snippet on its own
            for it in &batch {
                let (c, b) = judge(ctx, std::slice::from_ref(it));
                record(&mut res, it, c, b);
            }
        } else {
            for it in &batch {
                record(&mut res, it, class.clone(), None);
            }
        }
    }
    for it in &solo {
        let (c, b) = judge(ctx, std::slice::from_ref(it));
        record(&mut res, it, c, b);
    }
    res
}
