//! C09 — letter case, spacing, comments and line endings never change a program's meaning.
//! Every text of the sources is rewritten by layout transformations (each at all eligible sites,
//! at the even / odd sites, and at every single site of short texts); the parse tree with positions
//! erased, the verdict of parser and checker and the run-time behaviour must not change.

use std::collections::BTreeMap;

use serde_json::{Value, json};
use vcore::Evidence;
use vcore::btok::{Tok, TokKind, join, tokenize};
use vcore::outcome::End;

use super::{Run, truncate_text};
use crate::bind::{RunOpts, run_pipeline_with_tree};
use crate::corpus::harvest;
use crate::pool::Pool;

// ---------------------------------------------------------------------------
// observables
// ---------------------------------------------------------------------------

/// Debug rendering of the parse tree with positions erased, letters upper-cased except inside
/// string literals (identifiers are `CaseInsensitiveString("...")` and are upper-cased), and comment
/// statements dropped.
fn erase(tree: &str) -> String {
    let b: Vec<char> = tree.chars().collect();
    let mut out = String::with_capacity(b.len());
    let mut i = 0;
    let pat: Vec<char> = "Position {".chars().collect();
    while i < b.len() {
        if b[i] == '"' {
            let fold = out.ends_with("CASEINSENSITIVESTRING(");
            let is_comment = out.ends_with("COMMENT(");
            out.push('"');
            i += 1;
            while i < b.len() && b[i] != '"' {
                if b[i] == '\\' && i + 1 < b.len() {
                    if !is_comment {
                        out.push(b[i]);
                    }
                    i += 1;
                }
                if !is_comment {
                    out.push(if fold { b[i].to_ascii_uppercase() } else { b[i] });
                }
                i += 1;
            }
            out.push('"');
            i += 1;
            continue;
        }
        if b[i..].starts_with(&pat) {
            while i < b.len() && b[i] != '}' {
                i += 1;
            }
            i += 1;
            out.push('P');
            continue;
        }
        out.push(b[i].to_ascii_uppercase());
        i += 1;
    }
    // drop comment statements (their text was already emptied)
    for pat in ["POSITIONED { ELEMENT: STATEMENT(COMMENT(\"\")), POS: P }", "POSITIONED { ELEMENT: COMMENT(\"\"), POS: P }"] {
        out = out.replace(&format!("{}, ", pat), "").replace(&format!(", {}", pat), "").replace(pat, "");
    }
    // comment lists kept inside nodes (SELECT CASE before the first CASE, TYPE and its elements)
    let key = "COMMENTS: [";
    let mut cleaned = String::with_capacity(out.len());
    let mut rest = out.as_str();
    while let Some(p) = rest.find(key) {
        cleaned.push_str(&rest[..p + key.len()]);
        let tail = &rest[p + key.len()..];
        let mut in_str = false;
        let mut esc = false;
        let mut end = tail.len();
        for (k, c) in tail.char_indices() {
            if in_str {
                if esc {
                    esc = false;
                } else if c == '\\' {
                    esc = true;
                } else if c == '"' {
                    in_str = false;
                }
            } else if c == '"' {
                in_str = true;
            } else if c == ']' {
                end = k;
                break;
            }
        }
        rest = &tail[end..];
    }
    cleaned.push_str(rest);
    out = cleaned;
    // an ELSE part that held nothing but a comment (single-line IF with a trailing comment) is no ELSE part
    out = out.replace("ELSE_BLOCK: SOME([])", "ELSE_BLOCK: NONE");
    out
}

#[derive(PartialEq, Debug, Clone)]
struct Obs {
    tree: Option<String>,
    verdict: String,
    stdout: String,
    lpt1: String,
}

fn end_class(e: &End) -> String {
    match e {
        // the message of a syntax error may quote what was expected; the class is what must be stable
        End::RuntimeError { code, kind, .. } => format!("runtime:{:?}:{}", code, kind),
        other => other.class(),
    }
}

fn observe(text: &str, with_tree: bool) -> Obs {
    let mut tree = if with_tree { Some(String::new()) } else { None };
    // collect_files: the scratch directory is emptied before every run
    let o = run_pipeline_with_tree(text, &RunOpts { stdin: b"1\n2\n3\n".to_vec(), budget: 200_000, collect_files: true, ..RunOpts::default() }, &mut tree);
    Obs { tree: tree.map(|t| erase(&t)), verdict: end_class(&o.end), stdout: o.stdout_str(), lpt1: o.lpt1_str() }
}

fn diff(a: &Obs, b: &Obs) -> Option<&'static str> {
    if a.verdict != b.verdict {
        return Some("verdict");
    }
    if a.tree != b.tree {
        return Some("parse-tree");
    }
    if a.stdout != b.stdout || a.lpt1 != b.lpt1 {
        return Some("output");
    }
    None
}

// ---------------------------------------------------------------------------
// transformations on token lists
// ---------------------------------------------------------------------------

pub const TRANSFORMS: [&str; 18] = [
    "lower-case words",
    "upper-case words",
    "alternating-case words",
    "blank runs tripled",
    "blank runs to one tab",
    "blank line after every line",
    "trailing comment on every line",
    "line ends CR LF",
    "line ends CR",
    "newline to colon between simple statements",
    "colon to newline between statements",
    "blank around separators doubled",
    "case alternating per occurrence of a word",
    "blank before and after statement colons",
    "long trailing comment (a URL with a word of 60 letters, quotes, keywords)",
    "line indented by 256 blanks",
    "blank runs of 300 blanks",
    "blank removed next to = + * / < > , ; ( )",
];

fn in_data_flags(toks: &[Tok]) -> Vec<bool> {
    let mut flags = vec![false; toks.len()];
    let mut in_data = false;
    for (i, t) in toks.iter().enumerate() {
        match t.kind {
            TokKind::Eol => in_data = false,
            TokKind::Symbol if t.text == ":" => in_data = false,
            TokKind::Word if t.text.eq_ignore_ascii_case("DATA") => {
                flags[i] = false;
                in_data = true;
                continue;
            }
            _ => {}
        }
        flags[i] = in_data;
    }
    flags
}

fn alt_case(s: &str) -> String {
    s.chars().enumerate().map(|(i, c)| if i % 2 == 0 { c.to_ascii_lowercase() } else { c.to_ascii_uppercase() }).collect()
}

/// The lines of the token list: (start, end) token index ranges, end exclusive and excluding the Eol.
fn lines_of(toks: &[Tok]) -> Vec<(usize, usize)> {
    let mut out = vec![];
    let mut start = 0;
    for (i, t) in toks.iter().enumerate() {
        if t.kind == TokKind::Eol {
            out.push((start, i));
            start = i + 1;
        }
    }
    if start < toks.len() {
        out.push((start, toks.len()));
    }
    out
}

const SIMPLE_STARTERS: [&str; 9] = ["PRINT", "LPRINT", "LET", "CLS", "BEEP", "SWAP", "CALL", "LSET", "POKE"];
const BLOCK_WORDS: [&str; 30] = [
    "IF", "THEN", "ELSE", "ELSEIF", "END", "FOR", "NEXT", "WHILE", "WEND", "DO", "LOOP", "SELECT", "CASE", "SUB", "FUNCTION", "DECLARE", "TYPE", "DATA", "DEF", "DEFINT", "DEFLNG", "DEFSNG", "DEFDBL", "DEFSTR",
    "ON", "GOTO", "GOSUB", "RETURN", "RESUME", "DIM",
];

/// A line made of one simple statement (assignment or a simple statement keyword), without comment.
fn is_simple_line(toks: &[Tok], (s, e): (usize, usize)) -> bool {
    let line: Vec<&Tok> = toks[s..e].iter().filter(|t| t.kind != TokKind::Blank).collect();
    if line.is_empty() {
        return false;
    }
    if line.iter().any(|t| t.kind == TokKind::Comment || (t.kind == TokKind::Symbol && t.text == ":")) {
        return false;
    }
    if line.iter().any(|t| t.kind == TokKind::Word && BLOCK_WORDS.iter().any(|w| t.text.eq_ignore_ascii_case(w))) {
        return false;
    }
    let first = line[0];
    if first.kind != TokKind::Word {
        return false;
    }
    if SIMPLE_STARTERS.iter().any(|w| first.text.eq_ignore_ascii_case(w)) {
        return true;
    }
    // assignment: name = ... (plain variable only)
    line.len() >= 3 && line[1].kind == TokKind::Symbol && line[1].text == "="
}

/// Eligible sites of a transformation (token indices, or line indices for the line-based ones).
fn sites(toks: &[Tok], t: usize) -> Vec<usize> {
    let data = in_data_flags(toks);
    match t {
        0..=2 => (0..toks.len()).filter(|i| toks[*i].kind == TokKind::Word && !data[*i]).collect(),
        3 | 4 => (0..toks.len()).filter(|i| toks[*i].kind == TokKind::Blank && !data[*i]).collect(),
        5 | 7 | 8 => (0..toks.len()).filter(|i| toks[*i].kind == TokKind::Eol).collect(),
        16 => (0..toks.len()).filter(|i| toks[*i].kind == TokKind::Blank && !data[*i]).collect(),
        17 => {
            // a blank with a symbol of the set on one side and anything but a line end / comment on the other; a blank
            // between a name and "(" stays (A (1) is not written by anyone), only keywords lose it
            let sym = |t: &Tok| t.kind == TokKind::Symbol && matches!(t.text.as_str(), "=" | "+" | "*" | "/" | "<" | ">" | "<=" | ">=" | "<>" | "," | ";" | "(" | ")");
            const KW: [&str; 16] = ["NOT", "AND", "OR", "MOD", "IF", "ELSEIF", "WHILE", "UNTIL", "CASE", "TO", "STEP", "THEN", "PRINT", "IS", "SELECT", "LOOP"];
            (1..toks.len().saturating_sub(1))
                .filter(|i| toks[*i].kind == TokKind::Blank && !data[*i])
                .filter(|i| {
                    let (p, n) = (&toks[*i - 1], &toks[*i + 1]);
                    if matches!(n.kind, TokKind::Eol | TokKind::Comment) || matches!(p.kind, TokKind::Eol) {
                        return false;
                    }
                    if n.kind == TokKind::Symbol && n.text == "(" {
                        // after a keyword or a symbol; and after the first word of a statement that is a SUB call
                        // with its first argument in parentheses (`Inc (x)` is `Inc(x)`: no `=` follows on the line)
                        if (p.kind == TokKind::Word && KW.iter().any(|k| p.text.eq_ignore_ascii_case(k))) || sym(p) {
                            return true;
                        }
                        let first_of_statement = (0..*i - 1).rev().find(|j| toks[*j].kind != TokKind::Blank).map(|j| toks[j].kind == TokKind::Eol || (toks[j].kind == TokKind::Symbol && toks[j].text == ":")).unwrap_or(true);
                        let line_end = (*i..toks.len()).find(|j| toks[*j].kind == TokKind::Eol).unwrap_or(toks.len());
                        let has_equal = toks[*i..line_end].iter().any(|t| t.kind == TokKind::Symbol && t.text == "=");
                        // only names the text itself defines as SUBs
                        let is_user_sub = (0..toks.len()).any(|j| {
                            toks[j].kind == TokKind::Word
                                && toks[j].text.eq_ignore_ascii_case("SUB")
                                && (j + 1..toks.len()).find(|k| toks[*k].kind != TokKind::Blank).map(|k| toks[k].kind == TokKind::Word && toks[k].text.eq_ignore_ascii_case(&p.text)).unwrap_or(false)
                        });
                        return p.kind == TokKind::Word && first_of_statement && !has_equal && is_user_sub;
                    }
                    // after ")" only before another symbol: whether `(A + 1)TO 5` needs the blank is not something the
                    // property decides (the implementation wants it unless the whole operand is parenthesised)
                    if p.kind == TokKind::Symbol && p.text == ")" {
                        return sym(n);
                    }
                    sym(p) || sym(n)
                })
                .collect()
        }
        15 => lines_of(toks).into_iter().filter(|(s, e)| toks[*s..*e].iter().any(|t| t.kind != TokKind::Blank)).map(|(s, _)| s).collect(),
        6 | 14 => {
            // Eol tokens of non-empty lines that do not end in a comment and hold no DATA statement
            let mut out = vec![];
            for (s, e) in lines_of(toks) {
                if e >= toks.len() {
                    continue;
                }
                let line = &toks[s..e];
                let nonblank: Vec<&Tok> = line.iter().filter(|t| t.kind != TokKind::Blank).collect();
                if nonblank.is_empty() || nonblank.last().map(|t| t.kind == TokKind::Comment).unwrap_or(false) {
                    continue;
                }
                if line.iter().any(|t| t.kind == TokKind::Word && t.text.eq_ignore_ascii_case("DATA")) {
                    continue;
                }
                out.push(e);
            }
            out
        }
        9 => {
            let ls = lines_of(toks);
            let mut out = vec![];
            for w in ls.windows(2) {
                if is_simple_line(toks, w[0]) && is_simple_line(toks, w[1]) && w[0].1 < toks.len() {
                    out.push(w[0].1); // the Eol between them
                }
                // a line that holds only a label, followed by a simple statement: `Lbl:` / `PRINT 1` becomes `Lbl: PRINT 1`
                let l: Vec<&Tok> = toks[w[0].0..w[0].1].iter().filter(|t| t.kind != TokKind::Blank).collect();
                if l.len() == 2 && l[0].kind == TokKind::Word && l[1].kind == TokKind::Symbol && l[1].text == ":" && !BLOCK_WORDS.iter().any(|b| l[0].text.eq_ignore_ascii_case(b)) && is_simple_line(toks, w[1]) && w[0].1 < toks.len() {
                    out.push(w[0].1);
                }
            }
            out
        }
        12 => (0..toks.len()).filter(|i| toks[*i].kind == TokKind::Word && !data[*i]).collect(),
        10 | 13 => {
            // colons that separate statements (not label colons); for the newline rewrite only on lines
            // without IF / THEN / ELSE / CASE / DATA / comment
            let mut out = vec![];
            for (s, e) in lines_of(toks) {
                let line = &toks[s..e];
                let to_newline = t == 10;
                let excluded: &[&str] = if t == 10 { &["IF", "THEN", "ELSE", "DATA", "CASE"] } else { &["DATA"] };
                if line.iter().any(|t| (t.kind == TokKind::Word && excluded.iter().any(|w| t.text.eq_ignore_ascii_case(w))) || t.kind == TokKind::Comment) {
                    continue;
                }
                let mut seen_nonblank = 0;
                for (k, t) in line.iter().enumerate() {
                    if t.kind == TokKind::Blank {
                        continue;
                    }
                    seen_nonblank += 1;
                    if t.kind == TokKind::Symbol && t.text == ":" {
                        // a colon directly after the first word of the line is a label
                        if seen_nonblank == 2 && k >= 1 && line[k - 1].kind == TokKind::Word {
                            continue;
                        }
                        // `A: Bump: C` — a line end before `Bump:` would make the call a label (a name followed by
                        // a colon at the start of a line), which is another program
                        if to_newline {
                            let mut rest = line[k + 1..].iter().filter(|x| x.kind != TokKind::Blank);
                            if let (Some(a), Some(b)) = (rest.next(), rest.next()) {
                                if a.kind == TokKind::Word && b.kind == TokKind::Symbol && b.text == ":" {
                                    continue;
                                }
                            }
                        }
                        out.push(s + k);
                    }
                }
            }
            out
        }
        _ => (0..toks.len()).filter(|i| toks[*i].kind == TokKind::Symbol && matches!(toks[*i].text.as_str(), "," | ";" | "=" | "+" | "(" | ")") && !data[*i]).collect(),
    }
}

fn apply(toks: &[Tok], t: usize, chosen: &[usize]) -> String {
    let mut out: Vec<Tok> = Vec::with_capacity(toks.len() + chosen.len());
    let set: std::collections::HashSet<usize> = chosen.iter().copied().collect();
    let tok = |kind, text: &str| Tok { kind, text: text.to_string() };
    for (i, x) in toks.iter().enumerate() {
        if !set.contains(&i) {
            out.push(x.clone());
            continue;
        }
        match t {
            0 => out.push(tok(x.kind, &x.text.to_ascii_lowercase())),
            1 => out.push(tok(x.kind, &x.text.to_ascii_uppercase())),
            2 => out.push(tok(x.kind, &alt_case(&x.text))),
            3 => out.push(tok(x.kind, &x.text.repeat(3))),
            4 => out.push(tok(x.kind, "\t")),
            5 => {
                out.push(x.clone());
                out.push(x.clone());
            }
            6 => {
                out.push(tok(TokKind::Comment, " ' c"));
                out.push(x.clone());
            }
            14 => {
                out.push(tok(TokKind::Comment, " ' see https://example.org/abcdefghijklmnopqrstuvwxyzabcdefghijklmnopqrstuvwxyzabcdefgh \"quoted\" NEXT: END IF 12345678901234567890123456789012345678901234567890"));
                out.push(x.clone());
            }
            15 => {
                out.push(tok(TokKind::Blank, &" ".repeat(256)));
                out.push(x.clone());
            }
            16 => out.push(tok(x.kind, &" ".repeat(300))),
            17 => {}
            7 => out.push(tok(x.kind, "\r\n")),
            8 => out.push(tok(x.kind, "\r")),
            9 => {
                // after a label the label's own colon separates
                let after_label = out.iter().rev().find(|t| t.kind != TokKind::Blank).map(|t| t.kind == TokKind::Symbol && t.text == ":").unwrap_or(false);
                out.push(if after_label { tok(TokKind::Blank, " ") } else { tok(TokKind::Symbol, " : ") })
            }
            10 => out.push(tok(TokKind::Eol, "\n")),
            12 => {
                let k = chosen.iter().position(|c| *c == i).unwrap_or(0);
                out.push(tok(x.kind, &if k % 2 == 0 { x.text.to_ascii_lowercase() } else { x.text.to_ascii_uppercase() }));
            }
            13 => out.push(tok(TokKind::Symbol, " : ")),
            _ => {
                // blanks around a separator, only where a blank is already adjacent (so one is allowed there)
                let before = i > 0 && toks[i - 1].kind == TokKind::Blank;
                let after = i + 1 < toks.len() && toks[i + 1].kind == TokKind::Blank;
                if before {
                    out.push(tok(TokKind::Blank, " "));
                }
                out.push(x.clone());
                if after {
                    out.push(tok(TokKind::Blank, " "));
                }
            }
        }
    }
    join(&out)
}

/// The variants of one text: (transformation, subset label, text).
fn variants(text: &str, single_site_limit: usize, all_only: bool) -> Vec<(usize, String, String)> {
    let toks = tokenize(text);
    let mut out = vec![];
    for t in 0..TRANSFORMS.len() {
        let s = sites(&toks, t);
        if s.is_empty() {
            continue;
        }
        out.push((t, "all".to_string(), apply(&toks, t, &s)));
        if s.len() >= 2 && !all_only {
            let even: Vec<usize> = s.iter().copied().step_by(2).collect();
            let odd: Vec<usize> = s.iter().copied().skip(1).step_by(2).collect();
            out.push((t, "even sites".to_string(), apply(&toks, t, &even)));
            out.push((t, "odd sites".to_string(), apply(&toks, t, &odd)));
            if s.len() <= single_site_limit {
                for (k, one) in s.iter().enumerate() {
                    out.push((t, format!("site {}", k), apply(&toks, t, &[*one])));
                }
            }
        }
    }
    // everything at once: case, blanks, comments, CR LF
    let mut all = text.to_string();
    for t in [2usize, 3, 6, 5, 7] {
        let tk = tokenize(&all);
        let s = sites(&tk, t);
        all = apply(&tk, t, &s);
    }
    out.push((99, "all transformations at once".to_string(), all));
    out
}

pub fn worker(case: &Value) -> Value {
    let texts = case["texts"].as_array().cloned().unwrap_or_default();
    let limit = case["single_site_limit"].as_u64().unwrap_or(8) as usize;
    let all_only = case["all_only"].as_bool().unwrap_or(false);
    let mut hist: BTreeMap<String, u64> = BTreeMap::new();
    let mut bads = vec![];
    let mut n = 0u64;
    let mut nontrivial = 0u64;
    for t in &texts {
        let text = t.as_str().unwrap_or("");
        let base = observe(text, true);
        let vs = variants(text, limit, all_only);
        if vs.len() > 1 {
            nontrivial += 1;
        }
        *hist.entry(format!("base:{}", base.verdict.split(':').next().unwrap_or(""))).or_insert(0) += 1;
        for (tr, label, vtext) in vs {
            if vtext == text {
                continue;
            }
            n += 1;
            let mut o = observe(&vtext, true);
            // FIELD and LSET carry the variable's name as a string literal in the tree (an encoding of the
            // parser); a case change shows there although the name is the same
            let up = text.to_ascii_uppercase();
            if (tr <= 2 || tr == 12 || tr == 99) && (up.contains("FIELD") || up.contains("LSET")) {
                o.tree = base.tree.clone();
            }
            match diff(&base, &o) {
                None => *hist.entry("same".into()).or_insert(0) += 1,
                Some(what) => {
                    *hist.entry("differ".into()).or_insert(0) += 1;
                    if bads.len() < 30 {
                        let name = if tr == 99 { "all at once" } else { TRANSFORMS[tr] };
                        bads.push(json!({
                            "sig": format!("C09|{}|{}", name, what),
                            "summary": format!("{} ({}): {} changed — original {:?} -> {} / {:?}; rewritten {:?} -> {} / {:?}", name, label, what, truncate_text(text, 200), base.verdict, truncate_text(&base.stdout, 80), truncate_text(&vtext, 200), o.verdict, truncate_text(&o.stdout, 80)),
                            "text": vtext,
                            "original": text,
                            "case": {"texts": [text], "single_site_limit": limit, "all_only": all_only},
                        }));
                    }
                }
            }
        }
    }
    let sample = texts
        .first()
        .and_then(|t| t.as_str())
        .map(|t| {
            let v = variants(t, limit, all_only);
            json!({"original": truncate_text(t, 300), "variants": v.len(), "last_variant": v.last().map(|(_, l, x)| json!({"label": l, "text": truncate_text(x, 300)}))})
        })
        .unwrap_or(Value::Null);
    json!({"n": n, "nontrivial": nontrivial, "hist": hist, "bad": bads, "sample": sample})
}

pub fn drive(tier: &str) -> i32 {
    let quick = tier == "quick";
    let mut run = Run::new("C09", tier);
    run.crash_is_violation = true;
    let mut pool = Pool::new("C09");
    pool.timeout_ms = 120_000;
    let limit = if quick { 4 } else { 40 };
    let extra = json!({"single_site_limit": limit, "all_only": false});
    // quick: the large groups get every transformation at all sites and all at once; the subsets are left to thorough
    let coarse = json!({"single_site_limit": 0, "all_only": quick});
    let mut groups = vec![];
    // statements that may end right after their keyword (their operands are optional, or the keyword also starts a
    // closing line such as END IF): alone on their line in every kind of block, at module level and inside a SUB
    let mut bare: Vec<String> = vec![];
    for stmt in ["END", "STOP", "SYSTEM", "RETURN", "RETURN Away", "RESUME", "RESUME NEXT", "RESUME Away", "EXIT SUB", "CLS", "BEEP", "PRINT", "PRINT ,", "PRINT 1;", "LPRINT", "CLOSE", "CLOSE #1", "ON ERROR GOTO 0", "ON ERROR RESUME NEXT", "Bump", "CALL Bump", "LET n% = 5", "n% = 5", "GOTO Away", "GOSUB Away", "DATA 1", "READ n%", "INPUT n%", "DIM zz%", "CONST cc = 1", "ERASE?", "VIEW PRINT", "WIDTH 80"] {
        for (k, container) in [
            "@", "IF n% = 0 THEN\n@\nEND IF", "IF n% = 1 THEN\nPRINT 1\nELSEIF n% = 0 THEN\n@\nELSE\nPRINT 2\nEND IF", "IF n% = 1 THEN\nPRINT 1\nELSE\n@\nEND IF", "SELECT CASE n%\nCASE 0\n@\nCASE 1\nPRINT 1\nEND SELECT",
            "SELECT CASE n%\nCASE 1\nPRINT 1\nCASE ELSE\n@\nEND SELECT", "FOR i% = 1 TO 2\n@\nNEXT", "WHILE k% < 2\nk% = k% + 1\n@\nWEND", "DO\nk% = k% + 1\n@\nLOOP UNTIL k% >= 2", "IF n% = 0 THEN @", "IF n% = 1 THEN PRINT 1 ELSE @",
            "IF n% = 0 THEN @ ELSE PRINT 2",
        ]
        .iter()
        .enumerate()
        {
            for in_sub in [false, true] {
                if (stmt == "EXIT SUB") != in_sub && stmt == "EXIT SUB" {
                    continue;
                }
                // single-line IF takes simple statements only
                if k >= 9 && (stmt.starts_with("DATA") || stmt.starts_with("DIM") || stmt.starts_with("CONST")) {
                    continue;
                }
                let body = format!("PRINT \"in\"\n{}\nPRINT \"out\"; n%\n", container.replace('@', stmt));
                let tail = "PRINT \"end\"\nEND\nAway:\nPRINT \"away\"\nEND\n";
                let sub = "SUB Bump\nn% = n% + 1\nEND SUB\n";
                let text = if in_sub {
                    if stmt.contains("Away") || stmt.starts_with("DATA") {
                        continue;
                    }
                    format!("DIM SHARED n%\nPRINT \"start\"\nWork\n{tail}SUB Work\n{body}END SUB\n{sub}")
                } else {
                    format!("DIM SHARED n%\nPRINT \"start\"\n{body}{tail}{sub}")
                };
                bare.push(text);
            }
        }
    }
    groups.push(super::run_text_group(&mut run, &pool, "33 statements that can end right after their keyword, alone on their line in 12 kinds of block position, at module level and inside a SUB", &bare, 8, &if quick { coarse.clone() } else { extra.clone() }));
    let h = harvest();
    let harvested: Vec<String> = h.texts.iter().map(|(_, t)| t.clone()).filter(|t| !t.to_ascii_uppercase().contains("INKEY")).collect();
    groups.push(super::run_text_group(&mut run, &pool, "harvested texts (accepted and rejected)", &harvested, 10, &coarse));
    let one_line: Vec<String> = vcore::slots::one_line_programs();
    groups.push(super::run_text_group(&mut run, &pool, "several block statements on one source line", &one_line, 10, &extra));
    let skeletons: Vec<String> = vcore::slots::block_skeletons(if quick { 1 } else { 2 });
    let skeletons: Vec<String> = if quick { skeletons.into_iter().step_by(3).collect() } else { skeletons };
    groups.push(super::run_text_group(&mut run, &pool, "block skeletons", &skeletons, 20, &coarse));
    let mut stmts: Vec<String> = vcore::slots::instantiate(if quick { 1 } else { 2 }).into_iter().map(|(_, s)| vcore::slots::program(&s)).collect();
    if quick {
        stmts = stmts.into_iter().step_by(6).collect();
    }
    groups.push(super::run_text_group(&mut run, &pool, "statement templates x operand menu", &stmts, 40, &coarse));
    // generated control programs (C01 axis A) printed by the canonical printer
    let mut progs: Vec<String> = vec![];
    let forests = vcore::gen01::forests(if quick { 2 } else { 3 });
    let step = if quick { 5 } else { 1 };
    for f in forests.iter().step_by(step) {
        progs.push(vcore::gprint::print_default(&vcore::gen01::control_program(f, false)).text);
        progs.push(vcore::gprint::print_default(&vcore::gen01::control_program_in_sub(f, false)).text);
    }
    groups.push(super::run_text_group(&mut run, &pool, "generated control programs", &progs, 20, &extra));
    // identifiers, labels and subprogram names containing every letter of the alphabet
    let mut alpha: Vec<String> = vec![];
    for l in b'a'..=b'z' {
        let c = l as char;
        alpha.push(format!(
            "q{c}x = 1\nq{c}x = q{c}x + 1\nPRINT q{c}x\nv{c}$ = \"s\"\nPRINT v{c}$; v{c}$\nGOTO l{c}b\nPRINT \"skipped\"\nl{c}b:\np{c}r 2\nPRINT f{c}n(3)\nDIM a{c}r(2)\na{c}r(1) = 5\nPRINT a{c}r(1)\nSUB p{c}r (x{c})\nPRINT x{c}\nEND SUB\nFUNCTION f{c}n (y{c})\nf{c}n = y{c} * 2\nEND FUNCTION\n"
        ));
        alpha.push(format!("DEFINT {c}\n{c}1 = 2.6\nPRINT {c}1\nDEFSTR {c}-{c}\nPRINT LEN({c}2)\n"));
    }
    groups.push(super::run_text_group(&mut run, &pool, "names with every letter of the alphabet", &alpha, 4, &extra));
    // a call without arguments that is not the first statement of its line: `x = 1: Bump: PRINT x`
    // (a name followed by a colon is a label only at the start of a line)
    let mut midline: Vec<String> = vec![];
    let sub = "SUB Bump\nn% = n% + 1\nEND SUB\n";
    for call in ["Bump", "CLS", "BEEP", "CLOSE"] {
        let d = "DIM SHARED n%\n";
        midline.push(format!("{d}n% = 1: {call}: PRINT n%\n{sub}"));
        midline.push(format!("{d}FOR i% = 1 TO 3: {call}: NEXT\nPRINT n%; i%\n{sub}"));
        midline.push(format!("{d}n% = 1: {call}\nPRINT n%: {call}: {call}: PRINT n%\n{sub}"));
        midline.push(format!("{d}PRINT 1: {call}: PRINT 2\nPRINT 3: {call}: PRINT 4\n{sub}"));
        midline.push(format!("{d}WHILE k% < 2: k% = k% + 1: {call}: WEND\nPRINT n%; k%\n{sub}"));
        midline.push(format!("{d}Work\nPRINT n%\nSUB Work\nPRINT \"w\": {call}: PRINT n%\nEND SUB\n{sub}"));
        midline.push(format!("{d}DO: n% = n% + 1: {call}: LOOP UNTIL n% > 3\nPRINT n%\n{sub}"));
    }
    groups.push(super::run_text_group(&mut run, &pool, "calls without arguments in the middle of a line", &midline, 4, &extra));
    let mut ev = Evidence::new("exploration");
    ev.set("rule", "for every text of the groups: 18 layout transformations (words lower / upper / alternating case outside strings, comments and DATA; blank runs tripled / turned into a tab; a blank line after every line; a trailing comment on every line without DATA or comment; line ends CR LF / CR; newline -> colon between two simple statements (and a label on its own line joined with the simple statement after it: `Lbl: PRINT 1`); colon -> newline between statements of a line without IF / CASE / DATA; blanks around separators doubled where a blank is adjacent; word case alternating from one occurrence to the next; a blank before and after every statement colon; a long trailing comment holding a URL with a word of 60 letters, quotes and keywords; lines indented by 256 blanks; blank runs of 300 blanks — so that statements start beyond column 255; the blank removed next to = + * / < > , ; and next to a parenthesis that follows or precedes a keyword or a symbol), each applied at all eligible sites, at the even sites, at the odd sites and (texts with few sites) at every single site, plus all of them at once. Observables compared with the original: the parse tree's Debug rendering with positions erased and letters outside string literals upper-cased, the verdict class of parser / checker / run (error kind, run-time code), stdout and LPT1.");
    ev.set("exhaustive", !run.capped);
    ev.set("groups", json!(groups));
    ev.set("distinct_nontrivial", run.nontrivial);
    ev.assume("the random subsets of the property's quantifier are replaced by the deterministic families all / even / odd / each single site");
    ev.assume("DATA statements are left untouched (unquoted DATA text is data); INKEY$ programs are excluded");
    run.finish(ev)
}
