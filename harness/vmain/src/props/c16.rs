//! C16 — PRINT lays text out by the column rules on screen, printer and files alike.
//! Histories of PRINT statements over several devices are run on the implementation and on the
//! column model (`vcore::pmodel`); the bytes of every device are compared.

use std::collections::{BTreeMap, HashMap, VecDeque};

use serde_json::{Value, json};
use vcore::Evidence;
use vcore::outcome::{End, latin1};
use vcore::pmodel::*;

use super::Run;
use crate::bind::{RunOpts, run_pipeline};
use crate::pool::Pool;

/// (format, index into UVALUES) for the formats held by fixed-length strings
const FORM_FORMATS: [(&str, usize); 6] = [("##.##", 3), ("\\  \\", 7), ("!", 1), ("#,###", 5), ("x#y", 0), ("###", 2)];

const WIDE_LENGTHS: [usize; 16] = [27, 28, 29, 41, 42, 43, 69, 70, 71, 79, 80, 81, 255, 256, 257, 1000];

#[derive(Clone, Debug)]
enum Op {
    Print(usize, Vec<Tok>),
    /// bytes of one string written to a device, then optionally the end of the line
    Raw(usize, Vec<u8>, bool),
}

#[derive(Clone, Debug)]
struct Case {
    label: String,
    sigkey: String,
    lines: Vec<String>,
    ops: Vec<Op>,
    /// subprogram definitions this case needs
    defs: String,
    expect_err: Option<i32>,
    undecided: Option<&'static str>,
}

const NDEV: usize = 4;

/// (format, indices into UVALUES); an empty format = a plain PRINT of VALUES[idx]
const UEVENTS: [(&str, &[usize]); 7] = [
    ("#x", &[0]),
    ("##x", &[0, 2]),
    ("\\\\y!", &[1, 1]),
    ("\\\\y!", &[1]),
    ("x#.#y#", &[0]),
    ("", &[1]),
    ("", &[0]),
];

fn apply(m: &mut PModel, ops: &[Op]) {
    for op in ops {
        match op {
            Op::Print(d, t) => m.print(*d, t),
            Op::Raw(d, b, nl) => {
                m.devs[*d].put_str(b);
                if *nl {
                    m.devs[*d].put_str(b"\n");
                }
            }
        }
    }
}

/// After every case each device's hidden column is made visible (`, "|"` pads to the next zone)
/// and its line is ended.
fn probe_lines() -> String {
    let mut s = String::new();
    for d in 0..NDEV {
        s.push_str(&format!("{} , \"|\"\n", head(d)));
    }
    s
}

fn probe_apply(m: &mut PModel) {
    for d in 0..NDEV {
        let dev = &mut m.devs[d];
        let n = 14 - dev.col % 14;
        dev.put_str(&vec![b' '; n]);
        dev.put_str(b"|\n");
    }
}

fn program(cases: &[&Case]) -> String {
    let mut s = String::from("OPEN \"f1.txt\" FOR OUTPUT AS #1\nOPEN \"f2.txt\" FOR OUTPUT AS #2\n");
    s.push_str(SETUP);
    for c in cases {
        for l in &c.lines {
            s.push_str(l);
            s.push('\n');
        }
        s.push_str(&probe_lines());
    }
    s.push_str("CLOSE\n");
    let mut seen = std::collections::BTreeSet::new();
    for c in cases {
        if !c.defs.is_empty() && seen.insert(c.defs.clone()) {
            s.push_str(&c.defs);
        }
    }
    s
}

fn expected(cases: &[&Case]) -> PModel {
    let mut m = PModel::default();
    for c in cases {
        apply(&mut m, &c.ops);
        probe_apply(&mut m);
    }
    m
}

/// Runs the cases as one program; None = agrees.
fn run_and_compare(cases: &[&Case]) -> Option<(String, String, String)> {
    let text = program(cases);
    let o = run_pipeline(&text, &RunOpts { budget: 2_000_000, collect_files: true, ..RunOpts::default() });
    let expect_err = cases.iter().find_map(|c| c.expect_err);
    match (&o.end, expect_err) {
        (End::Normal, None) => {}
        (End::RuntimeError { code, .. }, Some(want)) => {
            return if *code == Some(want) {
                None
            } else {
                Some(("end".into(), format!("expected run-time error {}, got {}", want, o.end.class()), text))
            };
        }
        (e, Some(want)) => return Some((format!("end|{}", e.class()), format!("expected run-time error {}, got {}", want, e.class()), text)),
        (e, None) => return Some((format!("end|{}", e.class()), format!("expected a normal end, got {}", e.class()), text)),
    }
    let m = expected(cases);
    let f1 = o.files.get("f1.txt").cloned().unwrap_or_default();
    let f2 = o.files.get("f2.txt").cloned().unwrap_or_default();
    let got: [String; 4] = [o.stdout_str(), o.lpt1_str(), f1, f2];
    for d in 0..NDEV {
        let want = latin1(&m.devs[d].out);
        if want != got[d] {
            // first differing line
            let wl: Vec<&str> = want.split("\r\n").collect();
            let gl: Vec<&str> = got[d].split("\r\n").collect();
            let k = wl.iter().zip(gl.iter()).position(|(a, b)| a != b).unwrap_or(wl.len().min(gl.len()));
            return Some((
                DEVICES[d].to_string(),
                format!("{}: line {} expected {:?}, got {:?}", DEVICES[d], k + 1, wl.get(k).unwrap_or(&"<nothing>"), gl.get(k).unwrap_or(&"<nothing>")),
                text,
            ));
        }
    }
    None
}

// ---------------------------------------------------------------------------
// generators
// ---------------------------------------------------------------------------

struct Gen {
    quick: bool,
    single_lists: Vec<Vec<Tok>>,
    hist_forms: Vec<Vec<Tok>>,
    formats: Vec<Vec<u8>>,
    vlists: Vec<Vec<usize>>,
}

impl Gen {
    fn new(quick: bool) -> Gen {
        Gen {
            quick,
            single_lists: if quick { token_lists(10, 3) } else { token_lists(16, 4) },
            hist_forms: token_lists(5, 2),
            formats: {
                // every short format, and a few longer numeric fields with decimals (a sign and a whole part of 0 need room)
                let mut f = formats(if quick { 3 } else { 5 });
                for extra in ["##.#", "##.##", "###.#", "###.##", "#,###.##", "x##.#y", "##.## ##.#"] {
                    if !f.iter().any(|g| g.as_slice() == extra.as_bytes()) {
                        f.push(extra.as_bytes().to_vec());
                    }
                }
                f
            },
            vlists: value_lists(false),
        }
    }

    fn hist_depth(&self) -> usize {
        if self.quick { 2 } else { 3 }
    }

    fn events(&self) -> usize {
        3 * self.hist_forms.len()
    }

    fn total(&self, g: &str) -> u64 {
        match g {
            "single" => (self.single_lists.len() * START_COLS.len() * 3) as u64,
            "hist" => {
                let e = self.events() as u64;
                (1..=self.hist_depth() as u32).map(|d| e.pow(d)).sum()
            }
            "using" => (self.formats.len() * self.vlists.len() * 3 * 2) as u64,
            "nested" => 3 * 4 * 4 * 3 * 2,
            "wide" => (WIDE_LENGTHS.len() * 4 * 3) as u64,
            "forms" => (FORM_FORMATS.len() * 3 * 2 + 12 * 3) as u64,
            "uhist" => {
                let e = (UEVENTS.len() * 2 * 3) as u64;
                (1..=(if self.quick { 2u32 } else { 3u32 })).map(|d| e.pow(d)).sum()
            }
            _ => 0,
        }
    }

    fn event_case(&self, events: &[usize], label: String, sigkey: String) -> Case {
        let mut lines = vec![];
        let mut ops = vec![];
        for e in events {
            let dev = e % 3;
            let form = &self.hist_forms[e / 3];
            lines.push(stmt_text(dev, form));
            ops.push(Op::Print(dev, form.clone()));
        }
        Case { label, sigkey, lines, ops, defs: String::new(), expect_err: None, undecided: None }
    }

    fn case(&self, g: &str, idx: u64) -> Option<Case> {
        match g {
            "single" => {
                let n = self.single_lists.len() as u64;
                let toks = &self.single_lists[(idx % n) as usize];
                let rest = idx / n;
                let col = START_COLS[(rest % START_COLS.len() as u64) as usize];
                let dev = (rest / START_COLS.len() as u64) as usize;
                let mut lines = vec![];
                let mut ops = vec![];
                if let Some((l, t)) = preamble(dev, col) {
                    lines.push(l);
                    ops.push(Op::Print(dev, t));
                }
                lines.push(stmt_text(dev, toks));
                ops.push(Op::Print(dev, toks.clone()));
                Some(Case {
                    label: format!("{} from column {}: {}", DEVICES[dev], col, stmt_text(dev, toks)),
                    sigkey: format!("col{}", col),
                    lines,
                    ops,
                    defs: String::new(),
                    expect_err: None,
                    undecided: None,
                })
            }
            "hist" => {
                let e = self.events() as u64;
                let mut idx = idx;
                let mut depth = 1;
                loop {
                    let n = e.pow(depth as u32);
                    if idx < n {
                        break;
                    }
                    idx -= n;
                    depth += 1;
                    if depth > self.hist_depth() {
                        return None;
                    }
                }
                let mut events = vec![];
                for _ in 0..depth {
                    events.push((idx % e) as usize);
                    idx /= e;
                }
                Some(self.event_case(&events, format!("history {:?}", events), format!("depth{}", depth)))
            }
            "using" => {
                let semi = idx % 2 == 1;
                let idx = idx / 2;
                let dev = (idx % 3) as usize;
                let idx = idx / 3;
                let vl = &self.vlists[(idx % self.vlists.len() as u64) as usize];
                let f = &self.formats[(idx / self.vlists.len() as u64) as usize];
                // other devices only for the shorter formats (the device does not enter the rendering)
                if dev != 0 && f.len() > 2 {
                    return None;
                }
                let vals: Vec<UVal> = vl.iter().map(|i| UVALUES[*i].1).collect();
                let line = using_text(dev, f, vl, semi);
                let (ops, expect_err, undecided) = match using_render(f, &vals) {
                    UOut::Bytes(b) => (vec![Op::Raw(dev, b, !semi)], None, None),
                    UOut::Error(c) => (vec![], Some(c), None),
                    UOut::Undecided(w) => (vec![], None, Some(w)),
                };
                Some(Case {
                    label: line.clone(),
                    sigkey: format!("{}", if expect_err.is_some() { "error" } else { "render" }),
                    lines: vec![line],
                    ops,
                    defs: String::new(),
                    expect_err,
                    undecided,
                })
            }
            "uhist" => {
                // histories of PRINT USING (and plain PRINT) statements: the format cursor and the
                // newline flag are per statement, the column per device
                let e = (UEVENTS.len() * 2 * 3) as u64;
                let max = if self.quick { 2 } else { 3 };
                let mut idx = idx;
                let mut depth = 1;
                loop {
                    let n = e.pow(depth as u32);
                    if idx < n {
                        break;
                    }
                    idx -= n;
                    depth += 1;
                    if depth > max {
                        return None;
                    }
                }
                let mut lines = vec![];
                let mut ops = vec![];
                for _ in 0..depth {
                    let ev = (idx % e) as usize;
                    idx /= e;
                    let semi = ev % 2 == 1;
                    let dev = (ev / 2) % 3;
                    let (fmt, vals) = UEVENTS[ev / 6];
                    if fmt.is_empty() {
                        let toks: Vec<Tok> = if semi { vec![Tok::Val(vals[0]), Tok::Semi] } else { vec![Tok::Val(vals[0])] };
                        lines.push(stmt_text(dev, &toks));
                        ops.push(Op::Print(dev, toks));
                    } else {
                        let uv: Vec<UVal> = vals.iter().map(|i| UVALUES[*i].1).collect();
                        lines.push(using_text(dev, fmt.as_bytes(), vals, semi));
                        match using_render(fmt.as_bytes(), &uv) {
                            UOut::Bytes(b) => ops.push(Op::Raw(dev, b, !semi)),
                            _ => return None,
                        }
                    }
                }
                Some(Case {
                    label: lines.join(" : "),
                    sigkey: format!("depth{}", depth),
                    lines,
                    ops,
                    defs: String::new(),
                    expect_err: None,
                    undecided: None,
                })
            }
            "forms" => {
                let nfix = (FORM_FORMATS.len() * 3 * 2) as u64;
                if idx < nfix {
                    // the format of PRINT USING held by a STRING * n variable / a field of a record
                    let holder = (idx % 2) as usize;
                    let dev = ((idx / 2) % 3) as usize;
                    let (fmt, vi) = FORM_FORMATS[(idx / 6) as usize];
                    let vals = [UVALUES[vi].1];
                    let bytes = match using_render(fmt.as_bytes(), &vals) {
                        UOut::Bytes(b) => b,
                        _ => return None,
                    };
                    let head = match dev {
                        0 => "PRINT USING",
                        1 => "LPRINT USING",
                        _ => "PRINT #1, USING",
                    };
                    let var = if holder == 0 { format!("FS{}", idx) } else { format!("FR{}.F", idx) };
                    let decl = if holder == 0 {
                        format!("DIM FS{} AS STRING * {}", idx, fmt.len())
                    } else {
                        format!("TYPE FixT{}\n  F AS STRING * {}\nEND TYPE\nDIM FR{} AS FixT{}", idx, fmt.len(), idx, idx)
                    };
                    let lines = vec![decl, format!("{} = \"{}\"", var, fmt), format!("{} {}; {}", head, var, UVALUES[vi].0)];
                    return Some(Case {
                        label: format!("{}: format {:?} held by {}", DEVICES[dev], fmt, if holder == 0 { "a STRING * n variable" } else { "a STRING * n field of a record" }),
                        sigkey: "fixed-length format".into(),
                        lines,
                        ops: vec![Op::Raw(dev, bytes, true)],
                        defs: String::new(),
                        expect_err: None,
                        undecided: None,
                    });
                }
                // PRINT with a trailing separator, or bare, as the THEN part of a single-line IF that has an ELSE part
                let k = idx - nfix;
                let dev = (k % 3) as usize;
                let (then_toks, else_toks, cond): (Vec<Tok>, Vec<Tok>, u8) = match k / 3 {
                    0 => (vec![Tok::Val(1), Tok::Semi], vec![Tok::Val(0)], 1),
                    1 => (vec![Tok::Val(1), Tok::Semi], vec![Tok::Val(0)], 0),
                    2 => (vec![Tok::Val(1), Tok::Comma], vec![Tok::Val(0), Tok::Semi], 1),
                    3 => (vec![Tok::Val(1), Tok::Comma], vec![Tok::Val(0), Tok::Semi], 0),
                    4 => (vec![], vec![Tok::Val(1)], 1),
                    5 => (vec![], vec![Tok::Val(1)], 0),
                    6 => (vec![Tok::Val(0), Tok::Comma, Tok::Val(1), Tok::Semi], vec![], 1),
                    7 => (vec![Tok::Val(0), Tok::Comma, Tok::Val(1), Tok::Semi], vec![], 0),
                    8 => (vec![Tok::Semi], vec![Tok::Comma], 1),
                    9 => (vec![Tok::Semi], vec![Tok::Comma], 0),
                    10 => (vec![Tok::Val(5), Tok::Semi], vec![Tok::Val(6), Tok::Comma], 1),
                    _ => (vec![Tok::Val(5), Tok::Semi], vec![Tok::Val(6), Tok::Comma], 0),
                };
                let line = format!("IF {} THEN {} ELSE {}", cond, stmt_text(dev, &then_toks), stmt_text(dev, &else_toks));
                let taken = if cond == 1 { then_toks } else { else_toks };
                Some(Case {
                    label: format!("{}: {}", DEVICES[dev], line),
                    sigkey: "single-line IF".into(),
                    lines: vec![line],
                    ops: vec![Op::Print(dev, taken)],
                    defs: String::new(),
                    expect_err: None,
                    undecided: None,
                })
            }
            "wide" => {
                // strings far wider than a zone (and than a screen line): the comma still pads to the next multiple of 14
                let form = (idx % 4) as usize;
                let rest = idx / 4;
                let dev = (rest % 3) as usize;
                let len = *WIDE_LENGTHS.get((rest / 3) as usize)?;
                let w: Vec<u8> = (0..len).map(|i| b'a' + (i % 10) as u8).collect();
                let mut lines = vec![format!("P$ = \"abcdefghij\": WHILE LEN(P$) < {}: P$ = P$ + P$: WEND: W$ = LEFT$(P$, {})", len, len)];
                // the bytes the statements write, starting from column 0
                let mut out: Vec<u8> = vec![];
                let comma = |out: &mut Vec<u8>| {
                    let n = 14 - out.len() % 14;
                    out.extend(std::iter::repeat_n(b' ', n));
                };
                let h = head(dev);
                let newline;
                match form {
                    0 => {
                        lines.push(format!("{} W$, 1", h));
                        out.extend(&w);
                        comma(&mut out);
                        out.extend(b" 1 ");
                        newline = true;
                    }
                    1 => {
                        lines.push(format!("{} W$;", h));
                        lines.push(format!("{} , \"z\"", h));
                        out.extend(&w);
                        comma(&mut out);
                        out.extend(b"z");
                        newline = true;
                    }
                    2 => {
                        lines.push(format!("{} 1, W$, 2;", h));
                        out.extend(b" 1 ");
                        comma(&mut out);
                        out.extend(&w);
                        comma(&mut out);
                        out.extend(b" 2 ");
                        newline = false;
                    }
                    _ => {
                        lines.push(format!("{} W$; W$, \"e\",", h));
                        out.extend(&w);
                        out.extend(&w);
                        comma(&mut out);
                        out.extend(b"e");
                        comma(&mut out);
                        newline = false;
                    }
                }
                Some(Case {
                    label: format!("{}: a string of {} characters, form {}", DEVICES[dev], len, form),
                    sigkey: format!("form{}", form),
                    lines,
                    ops: vec![Op::Raw(dev, out, newline)],
                    defs: String::new(),
                    expect_err: None,
                    undecided: None,
                })
            }
            "nested" => {
                // PRINT list with a FUNCTION call whose body PRINTs to another (or the same) device
                let using = idx % 2 == 1;
                let idx = idx / 2;
                let pos = (idx % 3) as usize;
                let idx = idx / 3;
                let inner_end = (idx % 4) as usize;
                let idx = idx / 4;
                let inner_dev = (idx % 4) as usize;
                let outer_dev = (idx / 4) as usize;
                if outer_dev >= 3 {
                    return None;
                }
                let fname = format!("FN{}{}$", inner_dev, inner_end);
                let inner_toks = match inner_end {
                    0 => vec![Tok::Val(1)],
                    1 | 3 => vec![Tok::Val(1), Tok::Semi],
                    _ => vec![Tok::Val(1), Tok::Comma],
                };
                // inner_end 3: the inner PRINT fails after its first item (a division by zero in the second), the error is
                // trapped inside the FUNCTION, which returns into the outer statement: what was written stays, the line is open
                let defs = if inner_end == 3 {
                    format!("FUNCTION {}\nON ERROR RESUME NEXT\n{} 1 / ZZ%; \"q\"\nON ERROR GOTO 0\n{} = \"v\"\nEND FUNCTION\n", fname, stmt_text(inner_dev, &inner_toks), fname)
                } else {
                    format!("FUNCTION {}\n{}\n{} = \"v\"\nEND FUNCTION\n", fname, stmt_text(inner_dev, &inner_toks), fname)
                };
                let mut ops = vec![];
                let line;
                if using {
                    // three string fields of width 2
                    let items: Vec<String> = (0..3).map(|k| if k == pos { fname.clone() } else { "\"ab\"".to_string() }).collect();
                    line = format!("{} USING \"\\\\x\"; {}", head(outer_dev), items.join("; "));
                    for k in 0..3 {
                        // the value is computed first (the function runs), then the literal text that
                        // precedes its field is copied together with the value
                        if k == pos {
                            ops.push(Op::Print(inner_dev, inner_toks.clone()));
                        }
                        if k > 0 {
                            ops.push(Op::Raw(outer_dev, b"x".to_vec(), false));
                        }
                        ops.push(Op::Raw(outer_dev, if k == pos { b"v ".to_vec() } else { b"ab".to_vec() }, false));
                    }
                    // literal text after the last field used
                    ops.push(Op::Raw(outer_dev, b"x".to_vec(), true));
                } else {
                    let items: Vec<String> = (0..3).map(|k| if k == pos { fname.clone() } else { "\"ab\"".to_string() }).collect();
                    line = format!("{} {}", head(outer_dev), items.join("; "));
                    for k in 0..3 {
                        if k == pos {
                            ops.push(Op::Print(inner_dev, inner_toks.clone()));
                            ops.push(Op::Raw(outer_dev, b"v".to_vec(), false));
                        } else {
                            ops.push(Op::Raw(outer_dev, b"ab".to_vec(), false));
                        }
                    }
                    ops.push(Op::Raw(outer_dev, vec![], true));
                }
                Some(Case {
                    label: format!("{}  where {} does {}", line, fname, stmt_text(inner_dev, &inner_toks)),
                    sigkey: format!("{}|outer {}|inner {}", if using { "using" } else { "plain" }, DEVICES[outer_dev], DEVICES[inner_dev]),
                    lines: vec![line],
                    ops,
                    defs,
                    expect_err: None,
                    undecided: None,
                })
            }
            _ => None,
        }
    }
}

/// Judges a list of cases: batches of agreeing-by-expectation cases, bisecting a failing batch.
fn judge(g: &str, cases: &[Case], hist: &mut BTreeMap<String, u64>, bads: &mut Vec<Value>, replay_of: &dyn Fn(usize) -> Value) -> (u64, u64) {
    let mut n = 0u64;
    let mut nontrivial = 0u64;
    let mut batch: Vec<usize> = vec![];
    let mut solo: Vec<usize> = vec![];
    for (i, c) in cases.iter().enumerate() {
        if let Some(w) = c.undecided {
            *hist.entry(format!("undecided:{}", w)).or_insert(0) += 1;
            continue;
        }
        n += 1;
        nontrivial += 1;
        if c.expect_err.is_some() {
            solo.push(i);
        } else {
            batch.push(i);
        }
    }
    let mut report = |i: usize, class: String, msg: String, text: String, bads: &mut Vec<Value>| {
        if bads.len() < 30 {
            let c = &cases[i];
            bads.push(json!({
                "sig": format!("C16|{}|{}|{}", g, c.sigkey, class),
                "summary": format!("{} — {}", msg, c.label),
                "text": text,
                "case": replay_of(i),
            }));
        }
    };
    for chunk in batch.chunks(40) {
        let group: Vec<&Case> = chunk.iter().map(|i| &cases[*i]).collect();
        match run_and_compare(&group) {
            None => {
                *hist.entry("agree".into()).or_insert(0) += chunk.len() as u64;
            }
            Some((class, msg, text)) => {
                let mut found = false;
                for i in chunk {
                    match run_and_compare(&[&cases[*i]]) {
                        None => *hist.entry("agree".into()).or_insert(0) += 1,
                        Some((class, msg, text)) => {
                            found = true;
                            *hist.entry("differ".into()).or_insert(0) += 1;
                            report(*i, class, msg, text, bads);
                        }
                    }
                }
                if !found {
                    // the cases agree one by one but not in sequence: hidden state crosses the probes
                    *hist.entry("differ-in-sequence-only".into()).or_insert(0) += 1;
                    report(chunk[0], format!("sequence-only|{}", class), msg, text, bads);
                }
            }
        }
    }
    for i in solo {
        match run_and_compare(&[&cases[i]]) {
            None => *hist.entry(format!("agree:error{}", cases[i].expect_err.unwrap_or(0))).or_insert(0) += 1,
            Some((class, msg, text)) => {
                *hist.entry("differ".into()).or_insert(0) += 1;
                report(i, class, msg, text, bads);
            }
        }
    }
    (n, nontrivial)
}

pub fn worker(case: &Value) -> Value {
    let g = case["g"].as_str().unwrap_or("");
    let quick = case["quick"].as_bool().unwrap_or(true);
    let genr = Gen::new(quick);
    let mut hist: BTreeMap<String, u64> = BTreeMap::new();
    let mut bads = vec![];
    let mut cases: Vec<Case> = vec![];
    let mut replays: Vec<Value> = vec![];
    if g == "bfs" {
        for h in case["items"].as_array().cloned().unwrap_or_default() {
            let ev: Vec<usize> = h.as_array().map(|a| a.iter().map(|x| x.as_u64().unwrap_or(0) as usize).collect()).unwrap_or_default();
            cases.push(genr.event_case(&ev, format!("history {:?} (shortest path to the state, then one event)", ev), "transition".into()));
            replays.push(json!({"g": "bfs", "quick": quick, "items": [ev]}));
        }
    } else {
        let lo = case["lo"].as_u64().unwrap_or(0);
        let hi = case["hi"].as_u64().unwrap_or(0);
        for idx in lo..hi {
            match genr.case(g, idx) {
                Some(c) => {
                    cases.push(c);
                    replays.push(json!({"g": g, "quick": quick, "lo": idx, "hi": idx + 1}));
                }
                None => *hist.entry("not-generated".into()).or_insert(0) += 1,
            }
        }
    }
    let sample = cases.first().map(|c| json!({"group": g, "label": c.label, "text": program(&[c])})).unwrap_or(Value::Null);
    let (n, nontrivial) = judge(g, &cases, &mut hist, &mut bads, &|i| replays[i].clone());
    json!({"n": n, "nontrivial": nontrivial, "hist": hist, "bad": bads, "sample": sample})
}

/// Breadth-first search over the model's canonical states (column residues of three devices);
/// returns for every (state, event) transition the shortest history reaching the state plus the event.
/// Breadth-first search over the model's states, whole levels at a time: the search stops before a level whose
/// expansion would take the number of expanded states beyond `max_expanded`, or when no new state appears
/// (then the reachable state space — at most 14^3 residue vectors — is covered completely).
struct Bfs {
    discovered: usize,
    expanded: usize,
    levels: Vec<usize>,
    complete: bool,
    transitions: Vec<Vec<usize>>,
}

fn bfs_transitions(genr: &Gen, max_expanded: usize) -> Bfs {
    let e = genr.events();
    let mut seen: HashMap<[usize; 4], Vec<usize>> = HashMap::new();
    let state_of = |h: &[usize]| {
        let mut m = PModel::default();
        for ev in h {
            m.print(ev % 3, &genr.hist_forms[ev / 3]);
        }
        m.canon()
    };
    seen.insert(state_of(&[]), vec![]);
    let mut frontier: Vec<Vec<usize>> = vec![vec![]];
    let mut r = Bfs { discovered: 1, expanded: 0, levels: vec![], complete: false, transitions: vec![] };
    loop {
        if frontier.is_empty() {
            r.complete = true;
            break;
        }
        if r.expanded + frontier.len() > max_expanded {
            break;
        }
        r.levels.push(frontier.len());
        let mut next = vec![];
        for h in frontier {
            r.expanded += 1;
            for ev in 0..e {
                let mut h2 = h.clone();
                h2.push(ev);
                r.transitions.push(h2.clone());
                let s = state_of(&h2);
                if !seen.contains_key(&s) {
                    seen.insert(s, h2.clone());
                    next.push(h2);
                }
            }
        }
        frontier = next;
    }
    r.discovered = seen.len();
    r
}

pub fn drive(tier: &str) -> i32 {
    let quick = tier == "quick";
    let mut run = Run::new("C16", tier);
    run.crash_is_violation = true;
    let mut pool = Pool::new("C16");
    pool.timeout_ms = 120_000;
    let genr = Gen::new(quick);
    let mut cases = vec![];
    let mut plan = vec![];
    for g in ["nested", "wide", "forms", "uhist", "single", "hist", "using"] {
        let t = genr.total(g);
        let chunk = if g == "using" { 400 } else { 200 };
        let mut lo = 0;
        while lo < t {
            cases.push(json!({"g": g, "quick": quick, "lo": lo, "hi": (lo + chunk).min(t)}));
            lo += chunk;
        }
        plan.push(json!({"group": g, "cases": t}));
    }
    // explicit-state search on the model, every transition replayed
    let b = bfs_transitions(&genr, if quick { 250 } else { 100_000 });
    let (states, transitions) = (b.discovered, b.transitions);
    let (bfs_expanded, bfs_levels, bfs_complete) = (b.expanded, b.levels, b.complete);
    // the same state space enumerated by stateright on the residues themselves: the counts agree only if the
    // residue vector is a sound canonical form (the successor residues depend on the residues alone)
    let sr = vcore::srcheck::check_column_space(&genr.hist_forms, if bfs_complete { None } else { Some(bfs_levels.len()) });
    if sr.unique_states != states {
        run.machinery.push(format!("state-space cross-check: the driver's search discovered {} column states in {} levels, stateright {}", states, bfs_levels.len(), sr.unique_states));
    }
    for v in &sr.invariant_violations {
        run.machinery.push(format!("state-space cross-check: the column model violates its own invariant '{}'", v));
    }
    for v in &sr.not_reached {
        run.machinery.push(format!("non-vacuity: no explored model state satisfies '{}'", v));
    }
    plan.push(json!({"group": "bfs", "model_states_discovered": states, "model_states_expanded": bfs_expanded, "states_per_level": bfs_levels,
        "reachable_state_space_covered_completely": bfs_complete, "transitions": transitions.len()}));
    for chunk in transitions.chunks(200) {
        cases.push(json!({"g": "bfs", "quick": quick, "items": chunk}));
    }
    let total_cases = cases.len();
    let cap = run.wall_cap_s;
    let t0 = run.reporter.start;
    let it = cases.into_iter().take_while(|_| t0.elapsed().as_secs_f64() < cap);
    run.run_pool(&pool, it, |_, _, _, _| {});
    if (run.cases as usize) < total_cases {
        run.capped = true;
    }
    let mut ev = Evidence::new("model_checking");
    ev.set("rule", "single: every PRINT list of up to 3 (thorough 4) tokens over the value menu (numbers of every type and sign, strings incl. empty, of 13/14/15 characters and with embedded CR, LF, CR LF) and the two separators, no two values adjacent, on screen / LPT1 / file #1 starting at columns 0, 2, 13, 14, 15, 27. hist: the full tree of histories of depth <= 2 (thorough 3) over 32 statement forms x 3 devices. bfs: breadth-first search over the model's states (column residue mod 14 of each device; at most 14^3), whole levels at a time (quick: as many whole levels as fit in 250 expanded states; thorough: until no new state appears), every (state, event) transition replayed on the implementation after the shortest history reaching the state. using: every format string up to length 3 (thorough 5) over {# . , \\ blank ! x} and 7 longer numeric fields with decimals x value lists (12 values: whole numbers, fractions below one of both signs, strings; (1-3 values, format reuse) x trailing semicolon. uhist: the full tree of histories of depth <= 2 (thorough 3) over 5 PRINT USING statements (formats that are left in the middle, several values, literal tails) and 2 plain ones x trailing semicolon x 3 devices. nested: a PRINT / PRINT USING list on each device whose first, middle or last item calls a FUNCTION that itself PRINTs to each device (ending with nothing, semicolon, comma, or failing after its first item with the error trapped inside the FUNCTION). After every case each device's hidden column is exposed by `, \"|\"`. Oracle: exact bytes of stdout, LPT1 and both files against the column model. wide: strings of 27 .. 1000 characters (every length within one of 28, 42, 70, 80, 256) in four statement forms (string then comma, the comma in the next statement, between two numbers, twice and a trailing comma) on screen, LPT1 and a file: the comma pads to the next multiple of 14 whatever the width. forms: the format of PRINT USING held by a STRING * n variable and by a STRING * n field of a record (6 formats x 3 devices); a PRINT that ends in a separator, or a bare PRINT, as the THEN part of a single-line IF with an ELSE part (6 pairs x both branches x 3 devices).");
    ev.set("exhaustive", !run.capped);
    ev.set("plan", json!(plan));
    ev.set("states", states as u64);
    ev.set("transitions", transitions.len() as u64);
    ev.set("states_expanded", bfs_expanded as u64);
    ev.set("bfs_levels_fully_expanded", bfs_levels.len() as u64);
    ev.set("bfs_reachable_state_space_covered_completely", bfs_complete);
    ev.set("stateright_cross_check", json!({"checker": "stateright 0.31 breadth-first, one thread, on residue vectors", "unique_states": sr.unique_states,
        "agrees_with_driver_search": sr.unique_states == states, "transitions_generated": sr.generated_transitions, "max_depth": sr.max_depth,
        "model_invariants_violated": sr.invariant_violations, "reachability_witnessed": sr.reached, "reachability_not_witnessed": sr.not_reached}));
    ev.set("traces_validated_against_impl", run.evaluations);
    ev.set("distinct_nontrivial", run.nontrivial);
    ev.assume("the line width (80 columns on the screen) is not modelled: the property text states no wrapping rule");
    ev.assume("PRINT USING: ties when rounding to the field (R1), a comma not at the thousands position with four or more digits, values that do not fit the field, ! with an empty string and malformed fields are not judged");
    ev.assume("numbers are rendered as sign-or-blank, shortest decimal digits, blank (whole numbers and 2.5 only)");
    run.finish(ev)
}
