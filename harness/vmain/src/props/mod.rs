//! One module per property. Each has a `worker` (runs in the child process, on the
//! real code) and a `drive` (runs in the parent: enumeration, oracle bookkeeping, evidence).

use serde_json::{Value, json};

use crate::pool::{Pool, Resp};

pub mod c01;
pub mod c02;
pub mod c03;
pub mod c04;
pub mod c05;
pub mod c11;
pub mod c12;
pub mod c13;
pub mod c14;
pub mod c16;
pub mod c18;
pub mod c06;
pub mod c07;
pub mod snipbatch;
pub mod c08;
pub mod c09;
pub mod c10;
pub mod c15;
pub mod c17;
pub mod c19;
pub mod c20;
pub mod genpool;
pub mod disturbw;

pub fn worker(prop: &str, case: &Value) -> Value {
    if case["g"].as_str() == Some("disturb") {
        return disturbw::worker(prop, case);
    }
    match prop {
        "C01" => c01::worker(case),
        "C02" => c02::worker(case),
        "C03" => c03::worker(case),
        "C04" => c04::worker(case),
        "C05" => c05::worker(case),
        "C11" => c11::worker(case),
        "C12" => c12::worker(case),
        "C13" => c13::worker(case),
        "C14" => c14::worker(case),
        "C16" => c16::worker(case),
        "C18" => c18::worker(case),
        "C06" => c06::worker(case),
        "C07" => c07::worker(case),
        "C08" => c08::worker(case),
        "C09" => c09::worker(case),
        "C10" => c10::worker(case),
        "C15" => c15::worker(case),
        "C17" => c17::worker(case),
        "C19" => c19::worker(case),
        "C20" => c20::worker(case),
        _ => json!({"machinery": format!("no worker for {}", prop)}),
    }
}

pub fn drive(prop: &str, tier: &str) -> i32 {
    match prop {
        "C01" => c01::drive(tier),
        "C02" => c02::drive(tier),
        "C03" => c03::drive(tier),
        "C04" => c04::drive(tier),
        "C05" => c05::drive(tier),
        "C11" => c11::drive(tier),
        "C12" => c12::drive(tier),
        "C13" => c13::drive(tier),
        "C14" => c14::drive(tier),
        "C16" => c16::drive(tier),
        "C18" => c18::drive(tier),
        "C06" => c06::drive(tier),
        "C07" => c07::drive(tier),
        "C08" => c08::drive(tier),
        "C09" => c09::drive(tier),
        "C10" => c10::drive(tier),
        "C15" => c15::drive(tier),
        "C17" => c17::drive(tier),
        "C19" => c19::drive(tier),
        "C20" => c20::drive(tier),
        _ => {
            eprintln!("MACHINERY: no driver for property {}", prop);
            2
        }
    }
}

/// Bookkeeping shared by all drivers. Worker responses follow one convention:
/// `n` (evaluations in the case), `nontrivial` (count, distinct by construction),
/// `keys` (strings de-duplicated globally for distinct_nontrivial), `hist`
/// ({class: count}), `bad` ([{sig, summary, detail}]), `sample`, `machinery`.
pub struct Run {
    pub reporter: vcore::Reporter,
    pub evaluations: u64,
    pub nontrivial: u64,
    pub keys: std::collections::HashSet<u64>,
    pub hist: std::collections::BTreeMap<String, u64>,
    pub samples: Vec<Value>,
    pub machinery: Vec<String>,
    pub crash_is_violation: bool,
    pub crashes: u64,
    pub hangs: u64,
    pub cases: u64,
    pub wall_cap_s: f64,
    pub capped: bool,
    /// cases kept for the determinism self-check: (case, fingerprint of the first answer)
    pub recheck: Vec<(Value, String)>,
    pub rechecked: u64,
}

/// What must be identical when a case is executed a second time.
fn fingerprint(v: &Value) -> String {
    let mut sigs: Vec<String> = v["bad"].as_array().map(|a| a.iter().map(|b| b["sig"].as_str().unwrap_or("?").to_string()).collect()).unwrap_or_default();
    sigs.sort();
    json!({"n": v["n"], "nontrivial": v["nontrivial"], "hist": v["hist"], "sigs": sigs}).to_string()
}

impl Run {
    pub fn new(prop: &str, tier: &str) -> Self {
        let wall_cap_s = std::env::var("VERIF_MAX_WALL")
            .ok()
            .and_then(|s| s.parse::<f64>().ok())
            .unwrap_or(if tier == "quick" { 300.0 } else { 1500.0 });
        Self {
            reporter: vcore::Reporter::new(prop, tier),
            evaluations: 0,
            nontrivial: 0,
            keys: Default::default(),
            hist: Default::default(),
            samples: vec![],
            machinery: vec![],
            crash_is_violation: false,
            crashes: 0,
            hangs: 0,
            cases: 0,
            wall_cap_s,
            capped: false,
            recheck: vec![],
            rechecked: 0,
        }
    }

    pub fn over_cap(&self) -> bool {
        self.reporter.wall_s() > self.wall_cap_s
    }

    /// Runs the cases on the pool and folds the conventional response fields.
    /// `extra` sees every (index, case, ok-response) for driver-specific bookkeeping.
    pub fn run_pool<I, F>(&mut self, pool: &Pool, cases: I, mut extra: F)
    where
        I: Iterator<Item = Value> + Send,
        F: FnMut(&mut Run, u64, &Value, &Value),
    {
        let prop = self.reporter.prop.clone();
        pool.run(cases, |idx, case, resp| {
            self.cases += 1;
            match resp {
                Resp::Ok(v) => {
                    if let Some(m) = v.get("machinery") {
                        if self.machinery.len() < 20 {
                            self.machinery.push(format!("case #{}: {}", idx, m));
                        }
                        return;
                    }
                    self.evaluations += v["n"].as_u64().unwrap_or(1);
                    self.nontrivial += v["nontrivial"].as_u64().unwrap_or(0);
                    let has_bad = v["bad"].as_array().map(|a| !a.is_empty()).unwrap_or(false);
                    if (idx < 8 && self.recheck.len() < 40) || (has_bad && self.recheck.len() < 40) {
                        self.recheck.push((case.clone(), fingerprint(&v)));
                    }
                    if let Some(keys) = v["keys"].as_array() {
                        for k in keys {
                            if let Some(s) = k.as_str() {
                                self.keys.insert(vcore::fnv1a(s));
                            } else if let Some(n) = k.as_u64() {
                                self.keys.insert(n);
                            }
                        }
                    }
                    if let Some(h) = v["hist"].as_object() {
                        for (k, c) in h {
                            *self.hist.entry(k.clone()).or_insert(0) += c.as_u64().unwrap_or(0);
                        }
                    }
                    if let Some(bad) = v["bad"].as_array() {
                        for (j, b) in bad.iter().enumerate() {
                            let sig = b["sig"].as_str().unwrap_or("?").to_string();
                            let summary = b["summary"].as_str().unwrap_or("").to_string();
                            let mut replay = b.clone();
                            if replay.get("case").is_none() {
                                replay["case"] = case.clone();
                            }
                            self.reporter
                                .violation(idx * 1_000_000 + j as u64, sig, summary, replay);
                        }
                    }
                    if let Some(s) = v.get("sample")
                        && (self.samples.len() < 3 || idx % 997 == 0)
                        && self.samples.len() < 12
                    {
                        self.samples.push(s.clone());
                    }
                    extra(self, idx, &case, &v);
                }
                Resp::Crash(sig) => {
                    self.crashes += 1;
                    if self.crash_is_violation {
                        self.reporter.violation(
                            idx * 1_000_000,
                            match case["texts"].as_array() {
                                Some(t) if t.len() == 1 => format!("{}|crash:{}|{}", prop, sig, text_shape(t[0].as_str().unwrap_or(""))),
                                _ => format!("{}|crash:{}", prop, sig),
                            },
                            format!("worker process died with signal/status {} while running the case", sig),
                            json!({"case": case}),
                        );
                    } else if self.machinery.len() < 20 {
                        self.machinery
                            .push(format!("case #{}: worker died with {} on {}", idx, sig, case));
                    }
                }
                Resp::Hang => {
                    self.hangs += 1;
                    if self.crash_is_violation {
                        self.reporter.violation(
                            idx * 1_000_000,
                            format!("{}|hang", prop),
                            "no answer within the watchdog period".to_string(),
                            json!({"case": case}),
                        );
                    } else if self.machinery.len() < 20 {
                        self.machinery
                            .push(format!("case #{}: worker hung on {}", idx, case));
                    }
                }
            }
        });
    }

    /// Common tail: machinery failures are exit 2, otherwise evidence + protocol lines.
    /// Determinism self-check: the first cases and every case that reported a violation are executed
    /// a second time in fresh workers; a different answer is a machinery failure, not a verdict.
    fn recheck_determinism(&mut self) {
        if self.recheck.is_empty() || std::env::var("VERIF_NO_RECHECK").is_ok() {
            return;
        }
        let mut pool = Pool::new(&self.reporter.prop);
        pool.timeout_ms = 900_000;
        let kept: Vec<(Value, String)> = std::mem::take(&mut self.recheck);
        let cases: Vec<Value> = kept.iter().map(|(c, _)| c.clone()).collect();
        let mut second: Vec<Option<String>> = vec![None; kept.len()];
        pool.run(cases.into_iter(), |idx, _case, resp| {
            if let Resp::Ok(v) = resp {
                second[idx as usize] = Some(fingerprint(&v));
            }
        });
        for (k, (case, first)) in kept.iter().enumerate() {
            self.rechecked += 1;
            match &second[k] {
                Some(f) if f == first => {}
                Some(f) => self.machinery.push(format!("nondeterministic case: first answer {} second answer {} for {}", truncate_text(first, 300), truncate_text(f, 300), truncate_text(&case.to_string(), 300))),
                None => {
                    // a crash or hang the second time only
                    if !first.contains("crash") {
                        self.machinery.push(format!("case answered the first time but not the second: {}", truncate_text(&case.to_string(), 300)));
                    }
                }
            }
        }
    }

    pub fn finish(mut self, mut evidence: vcore::Evidence) -> i32 {
        self.recheck_determinism();
        evidence.set("determinism_rechecked_cases", self.rechecked);
        // a run that found violations (crashing or hanging inputs use up the wall clock) may not have
        // reached every class of input: the non-vacuity assertions are about clean, complete runs
        if self.reporter.violation_count() > 0 || self.capped {
            self.machinery.retain(|m| !m.starts_with("non-vacuity"));
        }
        if !self.machinery.is_empty() {
            for m in &self.machinery {
                eprintln!("MACHINERY: {}", m);
            }
            // kept for post-mortems (the evidence file is not rewritten by a machinery failure)
            if let Ok(root) = std::env::var("VERIF_ROOT") {
                use std::io::Write;
                if let Ok(mut f) = std::fs::OpenOptions::new().create(true).append(true).open(format!("{}/target/machinery.log", root)) {
                    for m in &self.machinery {
                        let _ = writeln!(f, "{} {}: {}", self.reporter.prop, self.reporter.tier, m);
                    }
                }
            }
            return 2;
        }
        evidence.set("evaluations", self.evaluations);
        if !evidence.coverage.contains_key("distinct_nontrivial") {
            evidence.set("distinct_nontrivial", self.nontrivial + self.keys.len() as u64);
        }
        if !evidence.coverage.contains_key("samples") {
            evidence.set("samples", Value::Array(self.samples.clone()));
        }
        evidence.set("cases_dispatched", self.cases);
        evidence.set("outcome_histogram", json!(self.hist));
        evidence.set("worker_crashes", self.crashes);
        evidence.set("worker_hangs", self.hangs);
        evidence.set("wall_cap_s", self.wall_cap_s);
        evidence.set("capped_by_wall_clock", self.capped);
        if self.capped {
            evidence.set("exhaustive", false);
        }
        self.reporter.finish(evidence)
    }
}

/// The shape of a text for the signature of a crash: identifiers I, numbers N, strings S, binary operators `op`,
/// keywords as they are, immediate repetitions of up to four tokens collapsed to `(...)*`; at most 80 characters.
pub fn text_shape(text: &str) -> String {
    use vcore::btok::{TokKind, tokenize};
    const KEYWORDS: [&str; 30] = ["PRINT", "IF", "THEN", "ELSE", "END", "FOR", "TO", "STEP", "NEXT", "WHILE", "WEND", "DO", "LOOP", "UNTIL", "SELECT", "CASE", "SUB", "FUNCTION", "DIM", "NOT", "GOTO", "GOSUB", "RETURN", "DATA", "READ", "INPUT", "CALL", "LET", "CONST", "ELSEIF"];
    let mut toks: Vec<String> = vec![];
    for t in tokenize(text) {
        let up = t.text.to_ascii_uppercase();
        toks.push(match t.kind {
            TokKind::Blank => continue,
            TokKind::Eol => "/".to_string(),
            TokKind::Str => "S".to_string(),
            TokKind::Comment => "'".to_string(),
            TokKind::Number => "N".to_string(),
            TokKind::Word if matches!(up.as_str(), "AND" | "OR" | "MOD") => "op".to_string(),
            TokKind::Word if KEYWORDS.contains(&up.as_str()) => up,
            TokKind::Word => "I".to_string(),
            _ if matches!(t.text.as_str(), "+" | "-" | "*" | "/" | "<" | ">" | "<=" | ">=" | "<>") => "op".to_string(),
            _ => t.text.clone(),
        });
    }
    // collapse immediate repetitions of a block of 1..4 tokens
    let mut out: Vec<String> = vec![];
    let mut i = 0;
    while i < toks.len() {
        let mut done = false;
        for w in 1..=4usize {
            if i + 2 * w <= toks.len() && toks[i..i + w] == toks[i + w..i + 2 * w] {
                let mut j = i + 2 * w;
                while j + w <= toks.len() && toks[i..i + w] == toks[j..j + w] {
                    j += w;
                }
                out.push(format!("({})*", toks[i..i + w].join(" ")));
                i = j;
                done = true;
                break;
            }
        }
        if !done {
            out.push(toks[i].clone());
            i += 1;
        }
    }
    let s = out.join(" ");
    s.chars().take(80).collect()
}

/// Runs a group of texts in chunks (`{"texts": [...], ..extra}` per case). A chunk whose
/// worker dies or hangs is bisected: its texts are re-run one per case, so that the
/// crash is attributed to a single text. Returns the group's report for the evidence.
pub fn run_text_group(
    run: &mut Run,
    pool: &Pool,
    name: &str,
    texts: &[String],
    chunk: usize,
    extra: &Value,
) -> Value {
    let total = texts.len();
    if run.over_cap() {
        run.capped = true;
        return json!({"group": name, "generated": total, "evaluated": 0, "completed": false});
    }
    let make = |c: &[String]| -> Value {
        let mut v = extra.clone();
        if !v.is_object() {
            v = json!({});
        }
        v["texts"] = json!(c);
        v
    };
    let before = run.evaluations;
    let cap = run.wall_cap_s;
    let t0 = run.reporter.start;
    let prev = run.crash_is_violation;
    run.crash_is_violation = false;
    let machinery_before = run.machinery.len();
    let crashes_before = (run.crashes, run.hangs);
    let mut dispatched: Vec<Value> = vec![];
    let mut answered: std::collections::HashSet<u64> = Default::default();
    {
        let mut chunks = texts.chunks(chunk.max(1));
        let it = std::iter::from_fn(|| {
            if t0.elapsed().as_secs_f64() > cap {
                return None;
            }
            chunks.next().map(make)
        })
        .inspect(|c| dispatched.push(c.clone()));
        run.run_pool(pool, it, |_, idx, _, _| {
            answered.insert(idx);
        });
    }
    run.machinery.truncate(machinery_before);
    run.crashes = crashes_before.0;
    run.hangs = crashes_before.1;
    run.crash_is_violation = prev;
    let mut retry: Vec<String> = vec![];
    let mut bisected = 0;
    for (i, c) in dispatched.iter().enumerate() {
        if !answered.contains(&(i as u64)) {
            bisected += 1;
            for t in c["texts"].as_array().unwrap() {
                retry.push(t.as_str().unwrap().to_string());
            }
        }
    }
    let dispatched_texts: usize = dispatched
        .iter()
        .map(|c| c["texts"].as_array().map(|a| a.len()).unwrap_or(0))
        .sum();
    if dispatched_texts < total {
        run.capped = true;
    }
    if !retry.is_empty() {
        let singles: Vec<Value> = retry.iter().map(|t| make(std::slice::from_ref(t))).collect();
        run.run_pool(pool, singles.into_iter(), |_, _, _, _| {});
    }
    json!({
        "group": name,
        "generated": total,
        "dispatched": dispatched_texts,
        "completed": dispatched_texts >= total,
        "evaluations": run.evaluations - before,
        "chunks_bisected_after_a_crash": bisected,
    })
}

pub fn truncate_text(s: &str, n: usize) -> String {
    if s.chars().count() <= n {
        s.to_string()
    } else {
        let t: String = s.chars().take(n).collect();
        format!("{}…", t)
    }
}

/// Re-runs the case stored in a replay file through the same worker code and oracle.
pub fn replay(prop: &str, file: &str) -> i32 {
    let text = match std::fs::read_to_string(file) {
        Ok(t) => t,
        Err(e) => {
            eprintln!("MACHINERY: cannot read {}: {}", file, e);
            return 2;
        }
    };
    let doc: Value = match serde_json::from_str(&text) {
        Ok(v) => v,
        Err(e) => {
            eprintln!("MACHINERY: bad replay file: {}", e);
            return 2;
        }
    };
    let case = doc["case"]["case"].clone();
    if case.is_null() {
        eprintln!("MACHINERY: replay file carries no case");
        return 2;
    }
    let pool = Pool::new(prop);
    let mut code = 0;
    pool.run(std::iter::once(case), |_, case, resp| match resp {
        Resp::Ok(v) => {
            println!("case: {}", case);
            println!("response: {}", serde_json::to_string_pretty(&v).unwrap());
            if v.get("machinery").is_some() {
                code = 2;
            } else if v["bad"].as_array().map(|a| !a.is_empty()).unwrap_or(false) {
                println!("VIOLATION property={} replay={}", prop, file);
                code = 1;
            }
        }
        Resp::Crash(sig) => {
            println!("worker crashed with signal {}", sig);
            println!("VIOLATION property={} replay={}", prop, file);
            code = 1;
        }
        Resp::Hang => {
            println!("worker hung");
            println!("VIOLATION property={} replay={}", prop, file);
            code = 1;
        }
    });
    code
}
