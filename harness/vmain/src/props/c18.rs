//! C18 — files read back what was written; handles follow the open/close protocol.
//! Histories of file operations are enumerated with the store + handle-table model
//! (`vcore::fmodel`) and every one of them is replayed on the implementation in a scratch directory.

use std::collections::{BTreeMap, HashMap, VecDeque};

use serde_json::{Value, json};
use vcore::Evidence;
use vcore::fmodel::*;
use vcore::outcome::{End, latin1};

use super::Run;
use crate::bind::{RunOpts, run_pipeline};
use crate::pool::Pool;

const HANDLES: usize = 2;
/// marker in the expected output: "some file error number"
const ANY_FILE_ERROR: u8 = 1;

fn op_kind(op: &Op) -> &'static str {
    match op {
        Op::Open(_, Mode::Random, _) => "OPEN RANDOM",
        Op::Open(_, Mode::Input, _) => "OPEN INPUT",
        Op::Open(_, Mode::Output, _) => "OPEN OUTPUT",
        Op::Open(_, Mode::Append, _) => "OPEN APPEND",
        Op::Print(..) => "PRINT #",
        Op::LineInput(_) => "LINE INPUT #",
        Op::Input1(_) | Op::Input2(_) | Op::InputNum(_) => "INPUT #",
        Op::Eof(_) => "EOF",
        Op::Close(_) | Op::CloseAll => "CLOSE",
        Op::Kill(_) => "KILL",
        Op::Name(..) => "NAME",
        Op::Put(..) => "PUT",
        Op::Get(..) => "GET",
    }
}

struct Built {
    text: String,
    /// expected stdout (may contain the ANY_FILE_ERROR marker)
    stdout: Vec<u8>,
    /// expected end: None = normal, Some((code or None for any file error, row))
    end: Option<(Option<i32>, u32)>,
    model: FModel,
    undecided: Option<&'static str>,
}

/// Builds the program of a history. `resume` = run under a handler that reports the error and
/// continues with the next statement.
fn build(alpha: &[Op], hist: &[usize], resume: bool) -> Built {
    let mut m = FModel::initial();
    let mut text = String::new();
    let mut row = 0u32;
    let mut stdout = vec![];
    let mut end = None;
    let mut undecided = None;
    if resume {
        text.push_str("ON ERROR GOTO Trap\n");
        row += 1;
    }
    for i in hist {
        let op = &alpha[*i];
        let random_open = match op {
            Op::Put(h, ..) => m.handles.get(h).map(|x| x.mode == Mode::Random).unwrap_or(false),
            _ => false,
        };
        let mut lines = op_lines(op, random_open);
        // under the trap an INPUT # with two targets shows both targets afterwards whatever happened: a target read before
        // the failing one holds its field, the others keep what they held (targets are read one at a time)
        let mut after_line: Option<Vec<u8>> = None;
        if resume && let Op::Input2(h) = op {
            let mut probe = m.clone();
            let mut field = |d: &str| -> Vec<u8> {
                match probe.step(&Op::Input1(*h)) {
                    Step::Ok(o) if o.len() >= 4 => o[1..o.len() - 3].to_vec(),
                    _ => d.as_bytes().to_vec(),
                }
            };
            let f1 = field("?a");
            let f2 = if f1 == b"?a" { b"?b".to_vec() } else { field("?b") };
            lines.insert(0, "A$ = \"?a\": B$ = \"?b\"".to_string());
            let mut want = b"<".to_vec();
            want.extend(f1);
            want.push(b'|');
            want.extend(f2);
            want.extend_from_slice(b">\r\n");
            after_line = Some(want);
        }
        let step = m.step(op);
        // which line can fail: the last statement that touches the file (PUT after LSET), else the first
        let fail_line = if (matches!(op, Op::Put(..)) && random_open) || after_line.is_some() { 1 } else { 0 };
        if resume {
            text.push_str("F% = 0\n");
            row += 1;
        }
        let first_row = row + 1;
        for (k, l) in lines.iter().enumerate() {
            if resume && k > fail_line {
                text.push_str(&format!("IF F% = 0 THEN {}\n", l));
            } else {
                text.push_str(l);
                text.push('\n');
            }
            row += 1;
        }
        if after_line.is_some() && !matches!(step, Step::Undecided(_)) {
            text.push_str("PRINT \"<\"; A$; \"|\"; B$; \">\"\n");
            row += 1;
        }
        let after = if matches!(step, Step::Undecided(_)) { None } else { after_line };
        match step {
            Step::Ok(out) => stdout.extend(out),
            Step::Code(c) => {
                if resume {
                    stdout.extend_from_slice(format!("E {} \r\n", c).as_bytes());
                } else {
                    end = Some((Some(c), first_row + fail_line as u32));
                    break;
                }
            }
            Step::FileError => {
                if resume {
                    stdout.extend_from_slice(b"E ");
                    stdout.push(ANY_FILE_ERROR);
                    stdout.extend_from_slice(b" \r\n");
                } else {
                    end = Some((None, first_row + fail_line as u32));
                    break;
                }
            }
            Step::Undecided(w) => {
                undecided = Some(w);
                break;
            }
        }
        if let Some(a) = after {
            stdout.extend(a);
        }
    }
    if end.is_none() {
        text.push_str("PRINT \"end\"\n");
        stdout.extend_from_slice(b"end\r\n");
    }
    if resume {
        text.push_str("END\nTrap:\nPRINT \"E\"; ERR\nF% = 1\nRESUME NEXT\n");
    }
    Built { text, stdout, end, model: m, undecided }
}

fn norm(s: &str) -> String {
    s.replace('\0', " ")
}

/// Compares the expected output (with markers) with the actual one.
fn stdout_matches(want: &[u8], g: &[u8]) -> bool {
    let mut i = 0;
    let mut j = 0;
    while i < want.len() {
        if want[i] == ANY_FILE_ERROR {
            let s = j;
            while j < g.len() && g[j].is_ascii_digit() {
                j += 1;
            }
            let code: i32 = std::str::from_utf8(&g[s..j]).ok().and_then(|t| t.parse().ok()).unwrap_or(-1);
            if !is_file_error(code) {
                return false;
            }
            i += 1;
        } else if want[i] == ANY_RECORD {
            // up to the closing brace
            while j < g.len() && g[j] != b'}' {
                j += 1;
            }
            i += 1;
        } else {
            // NUL bytes (record space never written) count as blanks on both sides
            let w = if want[i] == 0 { b' ' } else { want[i] };
            if j >= g.len() || g[j] != w {
                return false;
            }
            i += 1;
            j += 1;
        }
    }
    j == g.len()
}

fn run_history(alpha: &[Op], hist: &[usize], resume: bool) -> Result<(), (String, String, String)> {
    let b = build(alpha, hist, resume);
    if let Some(w) = b.undecided {
        return Err(("undecided".into(), w.to_string(), String::new()));
    }
    let opts = RunOpts {
        budget: 300_000,
        collect_files: true,
        files_in: vec![("pre.txt".to_string(), PRE_CONTENT.to_vec())],
        ..RunOpts::default()
    };
    let o = run_pipeline(&b.text, &opts);
    let got = norm(&o.stdout_str());
    let shown = |w: &[u8]| latin1(w).replace('\u{1}', "<file error>").replace('\u{2}', "<any record>");
    match (&o.end, &b.end) {
        (End::Normal, None) => {}
        (End::RuntimeError { code, rows, .. }, Some((want, row))) => {
            let code_ok = match want {
                Some(c) => *code == Some(*c),
                None => code.map(is_file_error).unwrap_or(false),
            };
            if !code_ok {
                return Err(("error-code".into(), format!("expected {}, got {}", want.map(|c| format!("error {}", c)).unwrap_or("a file error".into()), o.end.class()), b.text));
            }
            if rows.first() != Some(row) {
                return Err(("error-row".into(), format!("error {} expected at row {}, reported at {:?}", o.end.class(), row, rows), b.text));
            }
        }
        (e, want) => {
            return Err((
                format!("end|{}", if matches!(e, End::Normal) { "normal".to_string() } else { e.class() }),
                format!(
                    "expected {}, got {}",
                    match want {
                        None => "a normal end".to_string(),
                        Some((Some(c), r)) => format!("error {} at row {}", c, r),
                        Some((None, r)) => format!("a file error at row {}", r),
                    },
                    e.class()
                ),
                b.text,
            ));
        }
    }
    // byte for byte (a character above 127 is one byte of output); NUL bytes of unwritten record space count as blanks
    let got_bytes: Vec<u8> = o.stdout.iter().map(|c| if *c == 0 { b' ' } else { *c }).collect();
    if !stdout_matches(&b.stdout, &got_bytes) {
        return Err(("stdout".into(), format!("expected output {:?}, got {:?}", shown(&b.stdout), got), b.text));
    }
    // the store
    for (n, name) in NAMES.iter().enumerate() {
        let want = b.model.store.get(&n);
        let got = o.files.get(*name);
        match (want, got) {
            (None, None) => {}
            (Some(w), Some(g)) => {
                if norm(&latin1(w)) != norm(g) {
                    return Err(("file-content".into(), format!("{} should contain {:?}, contains {:?}", name, latin1(w), g), b.text));
                }
            }
            (Some(_), None) => return Err(("file-missing".into(), format!("{} should exist", name), b.text)),
            (None, Some(_)) => return Err(("file-unexpected".into(), format!("{} should not exist", name), b.text)),
        }
    }
    Ok(())
}

// ---------------------------------------------------------------------------
// console vs file splitting
// ---------------------------------------------------------------------------

/// 0xA0 (a no-break space in Latin-1 / Unicode) is an ordinary character for BASIC: only the blank is skipped and trimmed
const SPLIT_ALPHABET: [u8; 6] = [b'a', b',', b' ', b'\r', b'\n', 0xA0];
const SPLIT_BASE: u64 = SPLIT_ALPHABET.len() as u64;

fn split_string(mut idx: u64, max: usize) -> Option<Vec<u8>> {
    let mut len = 1;
    loop {
        let n = SPLIT_BASE.pow(len as u32);
        if idx < n {
            break;
        }
        idx -= n;
        len += 1;
        if len > max {
            return None;
        }
    }
    let mut s = vec![];
    for _ in 0..len {
        s.push(SPLIT_ALPHABET[(idx % SPLIT_BASE) as usize]);
        idx /= SPLIT_BASE;
    }
    Some(s)
}

fn split_total(max: usize) -> u64 {
    (1..=max as u32).map(|l| SPLIT_BASE.pow(l)).sum()
}

fn run_split(data: &[u8]) -> Result<(), (String, String, String)> {
    let lines = split_lines_fields(data);
    for form in 0..4 {
        // 0 = INPUT #, 1 = console INPUT, 2 = LINE INPUT #, 3 = console LINE INPUT
        let from_file = form % 2 == 0;
        let by_line = form >= 2;
        let mut text = String::new();
        let mut want: Vec<u8> = vec![];
        if from_file {
            text.push_str("OPEN \"in.txt\" FOR INPUT AS #1\n");
        }
        for (line, fields) in &lines {
            if by_line {
                text.push_str(if from_file { "LINE INPUT #1, L$\n" } else { "LINE INPUT L$\n" });
                text.push_str("PRINT \"[\"; L$; \"]\"\n");
                want.push(b'[');
                want.extend(line);
                want.extend_from_slice(b"]\r\n");
            } else {
                let vars: Vec<String> = (0..fields.len()).map(|k| format!("V{}$", k + 1)).collect();
                text.push_str(&format!("{}{}\n", if from_file { "INPUT #1, " } else { "INPUT " }, vars.join(", ")));
                let items: Vec<String> = vars.iter().map(|v| format!("\"[\"; {}; \"]\"", v)).collect();
                text.push_str(&format!("PRINT {}\n", items.join("; ")));
                for f in fields {
                    want.push(b'[');
                    want.extend(f);
                    want.push(b']');
                }
                want.extend_from_slice(b"\r\n");
            }
        }
        if from_file {
            text.push_str("PRINT EOF(1)\n");
            want.extend_from_slice(b"-1 \r\n");
        }
        let opts = RunOpts {
            budget: 300_000,
            stdin: if from_file { vec![] } else { data.to_vec() },
            files_in: if from_file { vec![("in.txt".to_string(), data.to_vec())] } else { vec![] },
            ..RunOpts::default()
        };
        let o = run_pipeline(&text, &opts);
        let name = ["INPUT #", "console INPUT", "LINE INPUT #", "console LINE INPUT"][form];
        if !matches!(o.end, End::Normal) {
            return Err((format!("{}|end", name), format!("{} on the bytes {:?}: expected a normal end, got {}", name, latin1(data), o.end.class()), text));
        }
        if o.stdout != want {
            return Err((format!("{}|stdout", name), format!("{} on the bytes {:?}: expected {:?}, got {:?}", name, latin1(data), latin1(&want), o.stdout_str()), text));
        }
    }
    Ok(())
}

// ---------------------------------------------------------------------------
// long lines, many lines, large records: sizes around the powers of two a buffered reader or writer may use
// ---------------------------------------------------------------------------

const LONG_LENGTHS: [usize; 31] = [126, 127, 128, 129, 254, 255, 256, 257, 258, 510, 511, 512, 513, 1022, 1023, 1024, 1025, 2047, 2048, 4095, 4096, 4097, 8190, 8191, 8192, 8193, 16383, 16384, 16385, 65535, 65536];
const LONG_ENDS: [&[u8]; 3] = [b"\r\n", b"\n", b"\r"];
const LONG_VARIANTS: usize = 6;

/// position-dependent letters: a shifted or dropped byte changes the string
fn pattern(n: usize, salt: usize) -> Vec<u8> {
    (0..n).map(|i| b'a' + ((i * 7 + i / 26 + salt) % 26) as u8).collect()
}

fn long_total() -> u64 {
    (LONG_LENGTHS.len() * LONG_ENDS.len() * LONG_VARIANTS) as u64
}

/// The bytes of long-input case `idx`.
fn long_data(idx: u64) -> (Vec<u8>, String) {
    let idx = idx as usize;
    let v = idx % LONG_VARIANTS;
    let e = LONG_ENDS[(idx / LONG_VARIANTS) % LONG_ENDS.len()];
    let l = LONG_LENGTHS[idx / LONG_VARIANTS / LONG_ENDS.len()];
    let mut d = vec![];
    let what = match v {
        0 => {
            d.extend(pattern(l, 0));
            d.extend(e);
            d.extend(b"second");
            d.extend(e);
            d.extend(b"third,4");
            d.extend(e);
            "a line of that length, then two short lines"
        }
        1 => {
            d.extend(b"x");
            d.extend(e);
            d.extend(pattern(l, 3));
            d.extend(e);
            d.extend(b"last");
            d.extend(e);
            "a short line, then a line of that length"
        }
        2 => {
            d.extend(pattern(l, 5));
            d.extend(b",b");
            d.extend(e);
            d.extend(b"c,d");
            d.extend(e);
            "a field of that length followed by a comma"
        }
        3 => {
            d.extend(pattern(l, 1));
            d.extend(e);
            d.extend(pattern(l, 2));
            d.extend(e);
            "two lines of that length"
        }
        4 => {
            d.extend(b"  ");
            d.extend(pattern(l - 2, 4));
            d.extend(b" ,  z");
            d.extend(e);
            d.extend(b"w");
            d.extend(e);
            "blanks around a field that fills the line up to that length"
        }
        _ => {
            // the line end itself straddles the position: the line is one character shorter
            d.extend(pattern(l - 1, 6));
            d.extend(e);
            d.extend(b"after");
            "a line one character shorter (its line end sits at that position), last line without a line end"
        }
    };
    (d, format!("length {} with line end {:?}: {}", l, latin1(e), what))
}

struct TextCase {
    label: String,
    text: String,
    want_stdout: Vec<u8>,
    /// expected content of files after the run
    want_files: Vec<(String, Vec<u8>)>,
    budget: u64,
}

fn text_cases() -> Vec<TextCase> {
    let mut out = vec![];
    let rep = "R$ = \"abcdefghijklmnopqrstuvwxyz0123456789\"\nWHILE LEN(R$) < 40000\nR$ = R$ + R$\nWEND\n";
    let rep_bytes: Vec<u8> = {
        let mut r = b"abcdefghijklmnopqrstuvwxyz0123456789".to_vec();
        while r.len() < 40000 {
            let c = r.clone();
            r.extend(c);
        }
        r
    };
    // (a) one long string written with PRINT # and read back with LINE INPUT #
    for l in [255usize, 256, 257, 1023, 1024, 1025, 4096, 8191, 8192, 8193, 16384, 32767] {
        let text = format!(
            "{rep}A$ = MID$(R$, 3, {l})\nOPEN \"f.txt\" FOR OUTPUT AS #1\nPRINT #1, A$\nPRINT #1, \"tail\"\nCLOSE #1\nOPEN \"f.txt\" FOR INPUT AS #1\nLINE INPUT #1, B$\nLINE INPUT #1, C$\nPRINT LEN(B$); B$ = A$; C$; EOF(1)\nCLOSE #1\n"
        );
        let mut file = rep_bytes[2..2 + l].to_vec();
        file.extend(b"\r\ntail\r\n");
        out.push(TextCase { label: format!("one string of {} characters through PRINT # / LINE INPUT #", l), text, want_stdout: format!(" {} -1 tail-1 \r\n", l).into_bytes(), want_files: vec![("f.txt".into(), file)], budget: 3_000_000 });
    }
    // (b) many lines, appended in two sessions, read back by LINE INPUT # under WHILE NOT EOF and by INPUT #
    for n in [10usize, 100, 300, 1000, 3000] {
        let half = n / 2;
        let text = format!(
            "OPEN \"m.txt\" FOR OUTPUT AS #1\nFOR I% = 1 TO {half}\nPRINT #1, \"line\"; I%\nNEXT\nCLOSE #1\nOPEN \"m.txt\" FOR APPEND AS #1\nFOR I% = {h1} TO {n}\nPRINT #1, \"line\"; I%\nNEXT\nCLOSE #1\nOPEN \"m.txt\" FOR INPUT AS #2\nC% = 0\nBAD% = 0\nWHILE NOT EOF(2)\nLINE INPUT #2, L$\nC% = C% + 1\nIF L$ <> \"line\" + STR$(C%) + \" \" THEN BAD% = BAD% + 1\nWEND\nCLOSE #2\nPRINT C%; BAD%; L$\n",
            half = half,
            h1 = half + 1,
            n = n
        );
        let mut file = vec![];
        for i in 1..=n {
            file.extend(format!("line {} \r\n", i).into_bytes());
        }
        out.push(TextCase { label: format!("{} lines written in two sessions (OUTPUT, APPEND), read back under WHILE NOT EOF", n), text, want_stdout: format!(" {}  0 line {} \r\n", n, n).into_bytes(), want_files: vec![("m.txt".into(), file)], budget: 3_000_000 });
        let text = format!(
            "OPEN \"n.txt\" FOR OUTPUT AS #1\nFOR I% = 1 TO {n}\nPRINT #1, I%; \",\"; -I%\nNEXT\nCLOSE #1\nOPEN \"n.txt\" FOR INPUT AS #1\nS& = 0\nT& = 0\nC% = 0\nWHILE NOT EOF(1)\nINPUT #1, V%, W%\nS& = S& + V%\nT& = T& + W%\nC% = C% + 1\nWEND\nCLOSE #1\nPRINT C%; S&; T&\n",
            n = n
        );
        let sum = (n * (n + 1) / 2) as i64;
        out.push(TextCase { label: format!("{} lines of two numbers read back by INPUT # under WHILE NOT EOF", n), text, want_stdout: format!(" {}  {} -{} \r\n", n, sum, sum).into_bytes(), want_files: vec![], budget: 3_000_000 });
    }
    // (c) RANDOM files: record lengths around 128 / 256 / 512 / 1024, 40 records written upwards, read downwards,
    // one in the middle overwritten
    for len in [16usize, 127, 128, 129, 255, 256, 257, 512, 1000, 1024] {
        let n = 40usize;
        let text = format!(
            "{rep}OPEN \"r.dat\" FOR RANDOM AS #1 LEN = {len}\nFIELD #1, {len} AS F$\nFOR I% = 1 TO {n}\nLSET F$ = MID$(R$, I%, {len})\nPUT #1, I%\nNEXT\nBAD% = 0\nFOR I% = {n} TO 1 STEP -1\nGET #1, I%\nIF F$ <> MID$(R$, I%, {len}) THEN BAD% = BAD% + 1\nNEXT\nLSET F$ = MID$(R$, 7, {len})\nPUT #1, 20\nGET #1, 19\nA% = F$ = MID$(R$, 19, {len})\nGET #1, 21\nB% = F$ = MID$(R$, 21, {len})\nGET #1, 20\nC% = F$ = MID$(R$, 7, {len})\nCLOSE #1\nPRINT BAD%; A%; B%; C%\n",
            rep = rep,
            len = len,
            n = n
        );
        let mut file = vec![];
        for i in 1..=n {
            let start = if i == 20 { 6 } else { i - 1 };
            file.extend(&rep_bytes[start..start + len]);
        }
        out.push(TextCase { label: format!("RANDOM file with records of {} bytes: {} records up, read down, one overwritten", len, n), text, want_stdout: b" 0 -1 -1 -1 \r\n".to_vec(), want_files: vec![("r.dat".into(), file)], budget: 3_000_000 });
    }
    // (d) two files interleaved, each line longer than the last
    {
        let text = format!(
            "{rep}OPEN \"a.txt\" FOR OUTPUT AS #1\nOPEN \"b.txt\" FOR OUTPUT AS #2\nFOR I% = 1 TO 60\nPRINT #1, LEFT$(R$, I% * 9)\nPRINT #2, MID$(R$, 2, I% * 11);\nPRINT #2, \"\"\nNEXT\nCLOSE\nOPEN \"b.txt\" FOR INPUT AS #1\nOPEN \"a.txt\" FOR INPUT AS #2\nBAD% = 0\nFOR I% = 1 TO 60\nLINE INPUT #2, X$\nLINE INPUT #1, Y$\nIF X$ <> LEFT$(R$, I% * 9) THEN BAD% = BAD% + 1\nIF Y$ <> MID$(R$, 2, I% * 11) THEN BAD% = BAD% + 1\nNEXT\nPRINT BAD%; EOF(1); EOF(2)\nCLOSE\n",
            rep = rep
        );
        let mut fa = vec![];
        let mut fb = vec![];
        for i in 1..=60usize {
            fa.extend(&rep_bytes[..i * 9]);
            fa.extend(b"\r\n");
            fb.extend(&rep_bytes[1..1 + i * 11]);
            fb.extend(b"\r\n");
        }
        out.push(TextCase { label: "two files written and read interleaved, 60 lines of growing length each".into(), text, want_stdout: b" 0 -1 -1 \r\n".to_vec(), want_files: vec![("a.txt".into(), fa), ("b.txt".into(), fb)], budget: 3_000_000 });
    }
    out
}

fn run_text_case(c: &TextCase) -> Result<(), (String, String, String)> {
    let opts = RunOpts { budget: c.budget, collect_files: true, ..RunOpts::default() };
    let o = run_pipeline(&c.text, &opts);
    if !matches!(o.end, End::Normal) {
        return Err(("end".into(), format!("{}: expected a normal end, got {}", c.label, o.end.class()), c.text.clone()));
    }
    if o.stdout != c.want_stdout {
        return Err(("stdout".into(), format!("{}: expected {:?}, got {:?}", c.label, latin1(&c.want_stdout), super::truncate_text(&o.stdout_str(), 300)), c.text.clone()));
    }
    for (name, want) in &c.want_files {
        match o.files.get(name) {
            None => return Err(("file-missing".into(), format!("{}: {} should exist", c.label, name), c.text.clone())),
            Some(g) => {
                let got = vcore::outcome::unlatin1(g);
                if &got != want {
                    let at = got.iter().zip(want.iter()).position(|(a, b)| a != b).unwrap_or(got.len().min(want.len()));
                    return Err(("file-content".into(), format!("{}: {} has {} bytes, expected {}; first difference at offset {}", c.label, name, got.len(), want.len(), at), c.text.clone()));
                }
            }
        }
    }
    Ok(())
}

// ---------------------------------------------------------------------------

pub fn worker(case: &Value) -> Value {
    let g = case["g"].as_str().unwrap_or("");
    let mut hist: BTreeMap<String, u64> = BTreeMap::new();
    let mut bads = vec![];
    let mut n = 0u64;
    let mut sample = Value::Null;
    if g == "split" {
        let max = case["max"].as_u64().unwrap_or(4) as usize;
        for idx in case["lo"].as_u64().unwrap_or(0)..case["hi"].as_u64().unwrap_or(0) {
            let Some(s) = split_string(idx, max) else { continue };
            n += 1;
            match run_split(&s) {
                Ok(()) => *hist.entry("agree".into()).or_insert(0) += 1,
                Err((class, msg, text)) => {
                    *hist.entry("differ".into()).or_insert(0) += 1;
                    if bads.len() < 30 {
                        bads.push(json!({"sig": format!("C18|split|{}", class), "summary": msg, "text": text, "case": {"g": "split", "max": max, "lo": idx, "hi": idx + 1}}));
                    }
                }
            }
        }
        return json!({"n": n, "nontrivial": n, "hist": hist, "bad": bads, "sample": sample});
    }
    if g == "long" {
        for idx in case["lo"].as_u64().unwrap_or(0)..case["hi"].as_u64().unwrap_or(0) {
            let (data, label) = long_data(idx);
            n += 1;
            match run_split(&data) {
                Ok(()) => *hist.entry("agree".into()).or_insert(0) += 1,
                Err((class, msg, text)) => {
                    *hist.entry("differ".into()).or_insert(0) += 1;
                    if bads.len() < 30 {
                        bads.push(json!({"sig": format!("C18|long|{}", class), "summary": format!("{} — {}", label, super::truncate_text(&msg, 400)), "text": text, "case": {"g": "long", "lo": idx, "hi": idx + 1}}));
                    }
                }
            }
        }
        return json!({"n": n, "nontrivial": n, "hist": hist, "bad": bads, "sample": sample});
    }
    if g == "sizes" {
        let all = text_cases();
        for idx in case["lo"].as_u64().unwrap_or(0)..case["hi"].as_u64().unwrap_or(0) {
            let Some(c) = all.get(idx as usize) else { continue };
            n += 1;
            if sample.is_null() {
                sample = json!({"group": "sizes", "label": c.label, "text": c.text});
            }
            match run_text_case(c) {
                Ok(()) => *hist.entry("agree".into()).or_insert(0) += 1,
                Err((class, msg, text)) => {
                    *hist.entry("differ".into()).or_insert(0) += 1;
                    if bads.len() < 30 {
                        bads.push(json!({"sig": format!("C18|sizes|{}|{}", class, c.label.split(':').next().unwrap_or("").chars().filter(|ch| !ch.is_ascii_digit()).collect::<String>()), "summary": msg, "text": text, "case": {"g": "sizes", "lo": idx, "hi": idx + 1}}));
                    }
                }
            }
        }
        return json!({"n": n, "nontrivial": n, "hist": hist, "bad": bads, "sample": sample});
    }
    let alpha = alphabet(HANDLES);
    let resume = case["resume"].as_bool().unwrap_or(false);
    for h in case["items"].as_array().cloned().unwrap_or_default() {
        let hv: Vec<usize> = h.as_array().map(|a| a.iter().map(|x| x.as_u64().unwrap_or(0) as usize).collect()).unwrap_or_default();
        n += 1;
        if sample.is_null() {
            sample = json!({"group": g, "history": format!("{:?}", hv.iter().map(|i| &alpha[*i]).collect::<Vec<_>>()), "text": build(&alpha, &hv, resume).text});
        }
        match run_history(&alpha, &hv, resume) {
            Ok(()) => *hist.entry("agree".into()).or_insert(0) += 1,
            Err((class, why, _)) if class == "undecided" => *hist.entry(format!("undecided:{}", why)).or_insert(0) += 1,
            Err((class, msg, text)) => {
                *hist.entry("differ".into()).or_insert(0) += 1;
                if bads.len() < 30 {
                    let last = hv.last().map(|i| op_kind(&alpha[*i])).unwrap_or("");
                    bads.push(json!({
                        "sig": format!("C18|{}|{}|{}", g, last, class),
                        "summary": format!("{} — history {:?}", msg, hv.iter().map(|i| &alpha[*i]).collect::<Vec<_>>()),
                        "text": text,
                        "case": {"g": g, "resume": resume, "items": [hv]},
                    }));
                }
            }
        }
    }
    json!({"n": n, "nontrivial": n, "hist": hist, "bad": bads, "sample": sample})
}

/// All histories of length 1..=depth whose proper prefixes succeed in the model
/// (`violations` > 0: under the error trap, failing operations are allowed inside the history).
fn tree(alpha: &[Op], depth: usize, violations: usize, out: &mut Vec<Vec<usize>>, undecided: &mut u64) {
    fn rec(alpha: &[Op], m: &FModel, hist: &mut Vec<usize>, depth: usize, left: usize, out: &mut Vec<Vec<usize>>, undecided: &mut u64) {
        for (i, op) in alpha.iter().enumerate() {
            let mut m2 = m.clone();
            let step = m2.step(op);
            hist.push(i);
            match step {
                Step::Undecided(_) => *undecided += 1,
                Step::Ok(_) => {
                    out.push(hist.clone());
                    if hist.len() < depth {
                        rec(alpha, &m2, hist, depth, left, out, undecided);
                    }
                }
                Step::Code(_) | Step::FileError => {
                    out.push(hist.clone());
                    if left > 0 && hist.len() < depth {
                        rec(alpha, &m2, hist, depth, left - 1, out, undecided);
                    }
                }
            }
            hist.pop();
        }
    }
    rec(alpha, &FModel::initial(), &mut vec![], depth, violations, out, undecided);
}

/// Breadth-first search over model states, level by level; every (state, operation) transition is a history
/// to replay. A level is expanded only as a whole: the search stops before a level whose expansion would take
/// the number of expanded states beyond `max_expanded` (or at `max_depth`), so that "every state reachable by
/// at most d successful operations has had every operation applied to it" is true for the reported d.
struct Bfs {
    discovered: usize,
    expanded: usize,
    depth_fully_expanded: usize,
    levels: Vec<usize>,
    stopped_by: &'static str,
    trans: Vec<Vec<usize>>,
}

fn bfs(alpha: &[Op], max_depth: usize, max_expanded: usize) -> Bfs {
    let mut seen: HashMap<FModel, usize> = HashMap::new();
    seen.insert(FModel::initial(), 0);
    let mut frontier: Vec<(FModel, Vec<usize>)> = vec![(FModel::initial(), vec![])];
    let mut r = Bfs { discovered: 1, expanded: 0, depth_fully_expanded: 0, levels: vec![], stopped_by: "no new states", trans: vec![] };
    let mut depth = 0;
    while !frontier.is_empty() {
        if depth == max_depth {
            r.stopped_by = "depth bound";
            break;
        }
        if r.expanded + frontier.len() > max_expanded {
            r.stopped_by = "bound on expanded states (the next level is not started)";
            break;
        }
        r.levels.push(frontier.len());
        let mut next = vec![];
        for (m, h) in frontier {
            r.expanded += 1;
            for (i, op) in alpha.iter().enumerate() {
                let mut m2 = m.clone();
                let step = m2.step(op);
                if matches!(step, Step::Undecided(_)) {
                    continue;
                }
                let mut h2 = h.clone();
                h2.push(i);
                r.trans.push(h2.clone());
                if matches!(step, Step::Ok(_)) && !seen.contains_key(&m2) {
                    seen.insert(m2.clone(), h2.len());
                    next.push((m2, h2));
                }
            }
        }
        depth += 1;
        r.depth_fully_expanded = depth;
        frontier = next;
    }
    r.discovered = seen.len();
    r
}

pub fn drive(tier: &str) -> i32 {
    let quick = tier == "quick";
    let mut run = Run::new("C18", tier);
    run.crash_is_violation = true;
    let mut pool = Pool::new("C18");
    pool.timeout_ms = 120_000;
    let alpha = alphabet(HANDLES);
    let mut cases = vec![];
    let mut plan = vec![];
    // full tree
    let depth = if quick { 3 } else { 4 };
    let mut hs = vec![];
    let mut und = 0u64;
    tree(&alpha, depth, 0, &mut hs, &mut und);
    plan.push(json!({"group": "tree", "depth": depth, "histories": hs.len(), "undecided_transitions_skipped": und}));
    for c in hs.chunks(100) {
        cases.push(json!({"g": "tree", "resume": false, "items": c}));
    }
    // histories with protocol violations inside, under an error trap
    let rdepth = if quick { 2 } else { 3 };
    let mut rs = vec![];
    let mut und2 = 0u64;
    tree(&alpha, rdepth, 2, &mut rs, &mut und2);
    // and the histories in which an INPUT # with two targets finds one field only (files with an odd number of fields):
    // the first target is read, the second one fails
    {
        let ix = |op: Op| alpha.iter().position(|o| *o == op);
        for h in 1..=HANDLES {
            let seqs: Vec<Vec<Op>> = vec![
                vec![Op::Open(h, Mode::Input, 2), Op::Input2(h), Op::Input2(h), Op::Eof(h)],
                vec![Op::Open(h, Mode::Input, 2), Op::LineInput(h), Op::Input2(h), Op::Input2(h)],
                vec![Op::Open(h, Mode::Output, 0), Op::Print(h, 0), Op::Close(h), Op::Open(h, Mode::Input, 0), Op::Input2(h), Op::Eof(h)],
                vec![Op::Open(h, Mode::Output, 0), Op::Print(h, 1), Op::Print(h, 0), Op::Close(h), Op::Open(h, Mode::Input, 0), Op::Input2(h), Op::Input2(h)],
                vec![Op::Open(h, Mode::Output, 0), Op::Print(h, 2), Op::Close(h), Op::Open(h, Mode::Input, 0), Op::Input2(h), Op::InputNum(h)],
            ];
            for seq in seqs {
                let idx: Option<Vec<usize>> = seq.into_iter().map(ix).collect();
                if let Some(v) = idx {
                    rs.push(v);
                }
            }
        }
    }
    plan.push(json!({"group": "trap", "depth": rdepth, "violations_allowed": 2, "histories": rs.len()}));
    for c in rs.chunks(100) {
        cases.push(json!({"g": "trap", "resume": true, "items": c}));
    }
    // explicit-state search
    let b = bfs(&alpha, if quick { 3 } else { 7 }, if quick { 700 } else { 12000 });
    let (states, trans) = (b.discovered, b.trans);
    let (bfs_expanded, bfs_depth, bfs_stop) = (b.expanded, b.depth_fully_expanded, b.stopped_by);
    // the same model state space enumerated by stateright: state counts must agree, model invariants must hold
    let sr = vcore::srcheck::check_file_space(&alpha, bfs_depth);
    if sr.unique_states != states {
        run.machinery.push(format!("state-space cross-check: the driver's search discovered {} model states within {} operations, stateright {}", states, bfs_depth, sr.unique_states));
    }
    for v in &sr.invariant_violations {
        run.machinery.push(format!("state-space cross-check: the file model violates its own invariant '{}'", v));
    }
    for v in &sr.not_reached {
        run.machinery.push(format!("non-vacuity: no explored model state satisfies '{}'", v));
    }
    plan.push(json!({"group": "bfs", "model_states_discovered": b.discovered, "model_states_expanded": b.expanded, "states_per_level": b.levels,
        "every_state_within_this_many_successful_operations_was_expanded": b.depth_fully_expanded, "stopped_by": b.stopped_by, "transitions": trans.len()}));
    for c in trans.chunks(100) {
        cases.push(json!({"g": "bfs", "resume": false, "items": c}));
    }
    // console vs file splitting
    let max = if quick { 4 } else { 6 };
    let total = split_total(max);
    plan.push(json!({"group": "split", "max_length": max, "strings": total, "forms": 4}));
    let mut lo = 0;
    while lo < total {
        cases.push(json!({"g": "split", "max": max, "lo": lo, "hi": (lo + 100).min(total)}));
        lo += 100;
    }
    // sizes around buffer boundaries
    let lt = long_total();
    plan.push(json!({"group": "long", "lengths": LONG_LENGTHS.to_vec(), "line_ends": 3, "variants": LONG_VARIANTS, "inputs": lt, "forms": 4}));
    let mut lo = 0;
    while lo < lt {
        cases.push(json!({"g": "long", "lo": lo, "hi": (lo + 6).min(lt)}));
        lo += 6;
    }
    let st = text_cases().len() as u64;
    plan.push(json!({"group": "sizes", "programs": st}));
    for i in 0..st {
        cases.push(json!({"g": "sizes", "lo": i, "hi": i + 1}));
    }
    let total_cases = cases.len();
    let cap = run.wall_cap_s;
    let t0 = run.reporter.start;
    let it = cases.into_iter().take_while(|_| t0.elapsed().as_secs_f64() < cap);
    run.run_pool(&pool, it, |_, _, _, _| {});
    if (run.cases as usize) < total_cases {
        run.capped = true;
    }
    let mut ev = Evidence::new("model_checking");
    ev.set("rule", "alphabet: for handles 1 and 2 — OPEN of {a.txt, b.txt, pre.txt (exists, two lines), nodir/x.txt (cannot be created)} FOR INPUT / OUTPUT / APPEND, OPEN FOR RANDOM LEN=4 + FIELD, PRINT # of 5 items (one with a comma, a number, one without line end, one with a character above 127), LINE INPUT #, INPUT # of one string / two strings / an INTEGER, PRINT EOF, CLOSE #h, LSET + PUT of 3 values to records 1-2, GET of records 1-2 — plus CLOSE, KILL of each name, NAME a->b, b->a, pre->b (74 operations). tree: every history of length <= 3 (thorough 4) whose prefix succeeds in the model, including the failing last operation. trap: histories of length <= 2 (thorough 3) with up to two failing operations inside, run under ON ERROR GOTO + RESUME NEXT. bfs: breadth-first search over model states (store contents, handle table with read positions), whole levels at a time up to the depth in bfs_depth_fully_expanded (the model's state space is infinite — files grow — so the search is bounded by depth and by the number of expanded states; a level is never expanded partially), every (state, operation) transition replayed after the shortest history reaching the state. split: every byte string up to length 4 (thorough 6) over {a , blank CR LF CHR$(160)} read by INPUT #, console INPUT, LINE INPUT #, console LINE INPUT. long: the same four forms on inputs whose lines / fields have 126 .. 65536 characters (every length within one or two of 128, 256, 512, 1024, 2048, 4096, 8192, 16384, 65536) x three line-end conventions x 6 arrangements (long line first / second / twice, a long field before a comma, blanks around a field, the line end itself at the boundary and no final line end). sizes: strings of 255 .. 32767 characters through PRINT # / LINE INPUT #, 10 .. 3000 lines written in two sessions (OUTPUT then APPEND) and read back under WHILE NOT EOF by LINE INPUT # and INPUT #, RANDOM files with 40 records of 16 .. 1024 bytes written upwards, read downwards, one overwritten, two files written and read interleaved; file bytes compared with the expected content. Oracle: the printed trace, the end (normal, or the error code at the row of the failing statement; 'a file error' = any code in 50..76 where the property names no number), and the bytes of every file afterwards.");
    ev.set("exhaustive", !run.capped);
    ev.set("plan", json!(plan));
    ev.set("states", states as u64);
    ev.set("transitions", trans.len() as u64);
    ev.set("states_expanded", bfs_expanded as u64);
    ev.set("bfs_depth_fully_expanded", bfs_depth as u64);
    ev.set("bfs_stopped_by", bfs_stop);
    ev.set("stateright_cross_check", json!({"checker": "stateright 0.31 breadth-first, one thread, depth target = bfs_depth_fully_expanded + 1", "unique_states": sr.unique_states,
        "agrees_with_driver_search": sr.unique_states == states, "transitions_generated": sr.generated_transitions, "max_depth": sr.max_depth,
        "model_invariants_violated": sr.invariant_violations, "reachability_witnessed": sr.reached, "reachability_not_witnessed": sr.not_reached}));
    ev.set("traces_validated_against_impl", run.evaluations);
    ev.set("distinct_nontrivial", run.nontrivial);
    ev.assume("not decided by the property text and therefore not generated: the same file open on two handles unless both read it, KILL / NAME of an open file, NAME onto an existing file, EOF of a file not open for input, text read into a numeric variable");
    ev.assume("bytes of a gap left by PUT beyond the end and records never written have no specified value: GET of them is matched by a wildcard, and NUL / blank are identified in file contents");
    ev.assume("LSET padding (blank vs NUL) is not compared: NUL and blank are identified in record contents");
    run.finish(ev)
}
