//! C18 — files read back what was written; handles follow the open/close protocol.
//! Histories of file operations are enumerated with the store + handle-table model
//! (`vcore::fmodel`) and every one of them is replayed on the implementation in a scratch directory.

use std::collections::{BTreeMap, HashMap, VecDeque};

use serde_json::{Value, json};
use vcore::Evidence;
use vcore::fmodel::*;
use vcore::outcome::{End, latin1};

use super::Run;
use crate::bind::{RunOpts, run_pipeline};
use crate::pool::Pool;

const HANDLES: usize = 2;
/// marker in the expected output: "some file error number"
const ANY_FILE_ERROR: u8 = 1;

fn op_kind(op: &Op) -> &'static str {
    match op {
        Op::Open(_, Mode::Random, _) => "OPEN RANDOM",
        Op::Open(_, Mode::Input, _) => "OPEN INPUT",
        Op::Open(_, Mode::Output, _) => "OPEN OUTPUT",
        Op::Open(_, Mode::Append, _) => "OPEN APPEND",
        Op::Print(..) => "PRINT #",
        Op::LineInput(_) => "LINE INPUT #",
        Op::Input1(_) | Op::Input2(_) | Op::InputNum(_) => "INPUT #",
        Op::Eof(_) => "EOF",
        Op::Close(_) | Op::CloseAll => "CLOSE",
        Op::Kill(_) => "KILL",
        Op::Name(..) => "NAME",
        Op::Put(..) => "PUT",
        Op::Get(..) => "GET",
    }
}

struct Built {
    text: String,
    /// expected stdout (may contain the ANY_FILE_ERROR marker)
    stdout: Vec<u8>,
    /// expected end: None = normal, Some((code or None for any file error, row))
    end: Option<(Option<i32>, u32)>,
    model: FModel,
    undecided: Option<&'static str>,
}

/// Builds the program of a history. `resume` = run under a handler that reports the error and
/// continues with the next statement.
fn build(alpha: &[Op], hist: &[usize], resume: bool) -> Built {
    let mut m = FModel::initial();
    let mut text = String::new();
    let mut row = 0u32;
    let mut stdout = vec![];
    let mut end = None;
    let mut undecided = None;
    if resume {
        text.push_str("ON ERROR GOTO Trap\n");
        row += 1;
    }
    for i in hist {
        let op = &alpha[*i];
        let random_open = match op {
            Op::Put(h, ..) => m.handles.get(h).map(|x| x.mode == Mode::Random).unwrap_or(false),
            _ => false,
        };
        let lines = op_lines(op, random_open);
        let step = m.step(op);
        // which line can fail: the last statement that touches the file (PUT after LSET), else the first
        let fail_line = if matches!(op, Op::Put(..)) && random_open { 1 } else { 0 };
        if resume {
            text.push_str("F% = 0\n");
            row += 1;
        }
        let first_row = row + 1;
        for (k, l) in lines.iter().enumerate() {
            if resume && k > fail_line {
                text.push_str(&format!("IF F% = 0 THEN {}\n", l));
            } else {
                text.push_str(l);
                text.push('\n');
            }
            row += 1;
        }
        match step {
            Step::Ok(out) => stdout.extend(out),
            Step::Code(c) => {
                if resume {
                    stdout.extend_from_slice(format!("E {} \r\n", c).as_bytes());
                } else {
                    end = Some((Some(c), first_row + fail_line as u32));
                    break;
                }
            }
            Step::FileError => {
                if resume {
                    stdout.extend_from_slice(b"E ");
                    stdout.push(ANY_FILE_ERROR);
                    stdout.extend_from_slice(b" \r\n");
                } else {
                    end = Some((None, first_row + fail_line as u32));
                    break;
                }
            }
            Step::Undecided(w) => {
                undecided = Some(w);
                break;
            }
        }
    }
    if end.is_none() {
        text.push_str("PRINT \"end\"\n");
        stdout.extend_from_slice(b"end\r\n");
    }
    if resume {
        text.push_str("END\nTrap:\nPRINT \"E\"; ERR\nF% = 1\nRESUME NEXT\n");
    }
    Built { text, stdout, end, model: m, undecided }
}

fn norm(s: &str) -> String {
    s.replace('\0', " ")
}

/// Compares the expected output (with markers) with the actual one.
fn stdout_matches(want: &[u8], got: &str) -> bool {
    let g = got.as_bytes();
    let mut i = 0;
    let mut j = 0;
    while i < want.len() {
        if want[i] == ANY_FILE_ERROR {
            let s = j;
            while j < g.len() && g[j].is_ascii_digit() {
                j += 1;
            }
            let code: i32 = std::str::from_utf8(&g[s..j]).ok().and_then(|t| t.parse().ok()).unwrap_or(-1);
            if !is_file_error(code) {
                return false;
            }
            i += 1;
        } else if want[i] == ANY_RECORD {
            // up to the closing brace
            while j < g.len() && g[j] != b'}' {
                j += 1;
            }
            i += 1;
        } else {
            if j >= g.len() || g[j] != want[i] {
                return false;
            }
            i += 1;
            j += 1;
        }
    }
    j == g.len()
}

fn run_history(alpha: &[Op], hist: &[usize], resume: bool) -> Result<(), (String, String, String)> {
    let b = build(alpha, hist, resume);
    if let Some(w) = b.undecided {
        return Err(("undecided".into(), w.to_string(), String::new()));
    }
    let opts = RunOpts {
        budget: 300_000,
        collect_files: true,
        files_in: vec![("pre.txt".to_string(), PRE_CONTENT.to_vec())],
        ..RunOpts::default()
    };
    let o = run_pipeline(&b.text, &opts);
    let got = norm(&o.stdout_str());
    let shown = |w: &[u8]| latin1(w).replace('\u{1}', "<file error>").replace('\u{2}', "<any record>");
    match (&o.end, &b.end) {
        (End::Normal, None) => {}
        (End::RuntimeError { code, rows, .. }, Some((want, row))) => {
            let code_ok = match want {
                Some(c) => *code == Some(*c),
                None => code.map(is_file_error).unwrap_or(false),
            };
            if !code_ok {
                return Err(("error-code".into(), format!("expected {}, got {}", want.map(|c| format!("error {}", c)).unwrap_or("a file error".into()), o.end.class()), b.text));
            }
            if rows.first() != Some(row) {
                return Err(("error-row".into(), format!("error {} expected at row {}, reported at {:?}", o.end.class(), row, rows), b.text));
            }
        }
        (e, want) => {
            return Err((
                format!("end|{}", if matches!(e, End::Normal) { "normal".to_string() } else { e.class() }),
                format!(
                    "expected {}, got {}",
                    match want {
                        None => "a normal end".to_string(),
                        Some((Some(c), r)) => format!("error {} at row {}", c, r),
                        Some((None, r)) => format!("a file error at row {}", r),
                    },
                    e.class()
                ),
                b.text,
            ));
        }
    }
    if !stdout_matches(&b.stdout, &got) {
        return Err(("stdout".into(), format!("expected output {:?}, got {:?}", shown(&b.stdout), got), b.text));
    }
    // the store
    for (n, name) in NAMES.iter().enumerate() {
        let want = b.model.store.get(&n);
        let got = o.files.get(*name);
        match (want, got) {
            (None, None) => {}
            (Some(w), Some(g)) => {
                if norm(&latin1(w)) != norm(g) {
                    return Err(("file-content".into(), format!("{} should contain {:?}, contains {:?}", name, latin1(w), g), b.text));
                }
            }
            (Some(_), None) => return Err(("file-missing".into(), format!("{} should exist", name), b.text)),
            (None, Some(_)) => return Err(("file-unexpected".into(), format!("{} should not exist", name), b.text)),
        }
    }
    Ok(())
}

// ---------------------------------------------------------------------------
// console vs file splitting
// ---------------------------------------------------------------------------

/// 0xA0 (a no-break space in Latin-1 / Unicode) is an ordinary character for BASIC: only the blank is skipped and trimmed
const SPLIT_ALPHABET: [u8; 6] = [b'a', b',', b' ', b'\r', b'\n', 0xA0];
const SPLIT_BASE: u64 = SPLIT_ALPHABET.len() as u64;

fn split_string(mut idx: u64, max: usize) -> Option<Vec<u8>> {
    let mut len = 1;
    loop {
        let n = SPLIT_BASE.pow(len as u32);
        if idx < n {
            break;
        }
        idx -= n;
        len += 1;
        if len > max {
            return None;
        }
    }
    let mut s = vec![];
    for _ in 0..len {
        s.push(SPLIT_ALPHABET[(idx % SPLIT_BASE) as usize]);
        idx /= SPLIT_BASE;
    }
    Some(s)
}

fn split_total(max: usize) -> u64 {
    (1..=max as u32).map(|l| SPLIT_BASE.pow(l)).sum()
}

fn run_split(data: &[u8]) -> Result<(), (String, String, String)> {
    let lines = split_lines_fields(data);
    for form in 0..4 {
        // 0 = INPUT #, 1 = console INPUT, 2 = LINE INPUT #, 3 = console LINE INPUT
        let from_file = form % 2 == 0;
        let by_line = form >= 2;
        let mut text = String::new();
        let mut want: Vec<u8> = vec![];
        if from_file {
            text.push_str("OPEN \"in.txt\" FOR INPUT AS #1\n");
        }
        for (line, fields) in &lines {
            if by_line {
                text.push_str(if from_file { "LINE INPUT #1, L$\n" } else { "LINE INPUT L$\n" });
                text.push_str("PRINT \"[\"; L$; \"]\"\n");
                want.push(b'[');
                want.extend(line);
                want.extend_from_slice(b"]\r\n");
            } else {
                let vars: Vec<String> = (0..fields.len()).map(|k| format!("V{}$", k + 1)).collect();
                text.push_str(&format!("{}{}\n", if from_file { "INPUT #1, " } else { "INPUT " }, vars.join(", ")));
                let items: Vec<String> = vars.iter().map(|v| format!("\"[\"; {}; \"]\"", v)).collect();
                text.push_str(&format!("PRINT {}\n", items.join("; ")));
                for f in fields {
                    want.push(b'[');
                    want.extend(f);
                    want.push(b']');
                }
                want.extend_from_slice(b"\r\n");
            }
        }
        if from_file {
            text.push_str("PRINT EOF(1)\n");
            want.extend_from_slice(b"-1 \r\n");
        }
        let opts = RunOpts {
            budget: 300_000,
            stdin: if from_file { vec![] } else { data.to_vec() },
            files_in: if from_file { vec![("in.txt".to_string(), data.to_vec())] } else { vec![] },
            ..RunOpts::default()
        };
        let o = run_pipeline(&text, &opts);
        let name = ["INPUT #", "console INPUT", "LINE INPUT #", "console LINE INPUT"][form];
        if !matches!(o.end, End::Normal) {
            return Err((format!("{}|end", name), format!("{} on the bytes {:?}: expected a normal end, got {}", name, latin1(data), o.end.class()), text));
        }
        if o.stdout != want {
            return Err((format!("{}|stdout", name), format!("{} on the bytes {:?}: expected {:?}, got {:?}", name, latin1(data), latin1(&want), o.stdout_str()), text));
        }
    }
    Ok(())
}

// ---------------------------------------------------------------------------

pub fn worker(case: &Value) -> Value {
    let g = case["g"].as_str().unwrap_or("");
    let mut hist: BTreeMap<String, u64> = BTreeMap::new();
    let mut bads = vec![];
    let mut n = 0u64;
    let mut sample = Value::Null;
    if g == "split" {
        let max = case["max"].as_u64().unwrap_or(4) as usize;
        for idx in case["lo"].as_u64().unwrap_or(0)..case["hi"].as_u64().unwrap_or(0) {
            let Some(s) = split_string(idx, max) else { continue };
            n += 1;
            match run_split(&s) {
                Ok(()) => *hist.entry("agree".into()).or_insert(0) += 1,
                Err((class, msg, text)) => {
                    *hist.entry("differ".into()).or_insert(0) += 1;
                    if bads.len() < 30 {
                        bads.push(json!({"sig": format!("C18|split|{}", class), "summary": msg, "text": text, "case": {"g": "split", "max": max, "lo": idx, "hi": idx + 1}}));
                    }
                }
            }
        }
        return json!({"n": n, "nontrivial": n, "hist": hist, "bad": bads, "sample": sample});
    }
    let alpha = alphabet(HANDLES);
    let resume = case["resume"].as_bool().unwrap_or(false);
    for h in case["items"].as_array().cloned().unwrap_or_default() {
        let hv: Vec<usize> = h.as_array().map(|a| a.iter().map(|x| x.as_u64().unwrap_or(0) as usize).collect()).unwrap_or_default();
        n += 1;
        if sample.is_null() {
            sample = json!({"group": g, "history": format!("{:?}", hv.iter().map(|i| &alpha[*i]).collect::<Vec<_>>()), "text": build(&alpha, &hv, resume).text});
        }
        match run_history(&alpha, &hv, resume) {
            Ok(()) => *hist.entry("agree".into()).or_insert(0) += 1,
            Err((class, why, _)) if class == "undecided" => *hist.entry(format!("undecided:{}", why)).or_insert(0) += 1,
            Err((class, msg, text)) => {
                *hist.entry("differ".into()).or_insert(0) += 1;
                if bads.len() < 30 {
                    let last = hv.last().map(|i| op_kind(&alpha[*i])).unwrap_or("");
                    bads.push(json!({
                        "sig": format!("C18|{}|{}|{}", g, last, class),
                        "summary": format!("{} — history {:?}", msg, hv.iter().map(|i| &alpha[*i]).collect::<Vec<_>>()),
                        "text": text,
                        "case": {"g": g, "resume": resume, "items": [hv]},
                    }));
                }
            }
        }
    }
    json!({"n": n, "nontrivial": n, "hist": hist, "bad": bads, "sample": sample})
}

/// All histories of length 1..=depth whose proper prefixes succeed in the model
/// (`violations` > 0: under the error trap, failing operations are allowed inside the history).
fn tree(alpha: &[Op], depth: usize, violations: usize, out: &mut Vec<Vec<usize>>, undecided: &mut u64) {
    fn rec(alpha: &[Op], m: &FModel, hist: &mut Vec<usize>, depth: usize, left: usize, out: &mut Vec<Vec<usize>>, undecided: &mut u64) {
        for (i, op) in alpha.iter().enumerate() {
            let mut m2 = m.clone();
            let step = m2.step(op);
            hist.push(i);
            match step {
                Step::Undecided(_) => *undecided += 1,
                Step::Ok(_) => {
                    out.push(hist.clone());
                    if hist.len() < depth {
                        rec(alpha, &m2, hist, depth, left, out, undecided);
                    }
                }
                Step::Code(_) | Step::FileError => {
                    out.push(hist.clone());
                    if left > 0 && hist.len() < depth {
                        rec(alpha, &m2, hist, depth, left - 1, out, undecided);
                    }
                }
            }
            hist.pop();
        }
    }
    rec(alpha, &FModel::initial(), &mut vec![], depth, violations, out, undecided);
}

/// Breadth-first search over model states; every (state, operation) transition is a history to replay.
fn bfs(alpha: &[Op], max_depth: usize, max_states: usize) -> (usize, Vec<Vec<usize>>) {
    let mut seen: HashMap<FModel, usize> = HashMap::new();
    let mut queue: VecDeque<(FModel, Vec<usize>)> = VecDeque::new();
    seen.insert(FModel::initial(), 0);
    queue.push_back((FModel::initial(), vec![]));
    let mut out = vec![];
    while let Some((m, h)) = queue.pop_front() {
        for (i, op) in alpha.iter().enumerate() {
            let mut m2 = m.clone();
            let step = m2.step(op);
            if matches!(step, Step::Undecided(_)) {
                continue;
            }
            let mut h2 = h.clone();
            h2.push(i);
            out.push(h2.clone());
            if matches!(step, Step::Ok(_)) && h2.len() < max_depth && seen.len() < max_states && !seen.contains_key(&m2) {
                seen.insert(m2.clone(), h2.len());
                queue.push_back((m2, h2));
            }
        }
    }
    (seen.len(), out)
}

pub fn drive(tier: &str) -> i32 {
    let quick = tier == "quick";
    let mut run = Run::new("C18", tier);
    run.crash_is_violation = true;
    let mut pool = Pool::new("C18");
    pool.timeout_ms = 120_000;
    let alpha = alphabet(HANDLES);
    let mut cases = vec![];
    let mut plan = vec![];
    // full tree
    let depth = if quick { 3 } else { 4 };
    let mut hs = vec![];
    let mut und = 0u64;
    tree(&alpha, depth, 0, &mut hs, &mut und);
    plan.push(json!({"group": "tree", "depth": depth, "histories": hs.len(), "undecided_transitions_skipped": und}));
    for c in hs.chunks(100) {
        cases.push(json!({"g": "tree", "resume": false, "items": c}));
    }
    // histories with protocol violations inside, under an error trap
    let rdepth = if quick { 2 } else { 3 };
    let mut rs = vec![];
    let mut und2 = 0u64;
    tree(&alpha, rdepth, 2, &mut rs, &mut und2);
    plan.push(json!({"group": "trap", "depth": rdepth, "violations_allowed": 2, "histories": rs.len()}));
    for c in rs.chunks(100) {
        cases.push(json!({"g": "trap", "resume": true, "items": c}));
    }
    // explicit-state search
    let (states, trans) = bfs(&alpha, if quick { 3 } else { 7 }, if quick { 150 } else { 4000 });
    plan.push(json!({"group": "bfs", "model_states": states, "transitions": trans.len()}));
    for c in trans.chunks(100) {
        cases.push(json!({"g": "bfs", "resume": false, "items": c}));
    }
    // console vs file splitting
    let max = if quick { 4 } else { 6 };
    let total = split_total(max);
    plan.push(json!({"group": "split", "max_length": max, "strings": total, "forms": 4}));
    let mut lo = 0;
    while lo < total {
        cases.push(json!({"g": "split", "max": max, "lo": lo, "hi": (lo + 100).min(total)}));
        lo += 100;
    }
    let total_cases = cases.len();
    let cap = run.wall_cap_s;
    let t0 = run.reporter.start;
    let it = cases.into_iter().take_while(|_| t0.elapsed().as_secs_f64() < cap);
    run.run_pool(&pool, it, |_, _, _, _| {});
    if (run.cases as usize) < total_cases {
        run.capped = true;
    }
    let mut ev = Evidence::new("model_checking");
    ev.set("rule", "alphabet: for handles 1 and 2 — OPEN of {a.txt, b.txt, pre.txt (exists, two lines), nodir/x.txt (cannot be created)} FOR INPUT / OUTPUT / APPEND, OPEN FOR RANDOM LEN=4 + FIELD, PRINT # of 5 items (one with a comma, a number, one without line end, one with a character above 127), LINE INPUT #, INPUT # of one string / two strings / an INTEGER, PRINT EOF, CLOSE #h, LSET + PUT of 3 values to records 1-2, GET of records 1-2 — plus CLOSE, KILL of each name, NAME a->b, b->a, pre->b (74 operations). tree: every history of length <= 3 (thorough 4) whose prefix succeeds in the model, including the failing last operation. trap: histories of length <= 2 (thorough 3) with up to two failing operations inside, run under ON ERROR GOTO + RESUME NEXT. bfs: breadth-first search over model states (store contents, handle table with read positions), every (state, operation) transition replayed after the shortest history reaching the state. split: every byte string up to length 4 (thorough 6) over {a , blank CR LF CHR$(160)} read by INPUT #, console INPUT, LINE INPUT #, console LINE INPUT. Oracle: the printed trace, the end (normal, or the error code at the row of the failing statement; 'a file error' = any code in 50..76 where the property names no number), and the bytes of every file afterwards.");
    ev.set("exhaustive", !run.capped);
    ev.set("plan", json!(plan));
    ev.set("states", states as u64);
    ev.set("transitions", trans.len() as u64);
    ev.set("traces_validated_against_impl", run.evaluations);
    ev.set("distinct_nontrivial", run.nontrivial);
    ev.assume("not decided by the property text and therefore not generated: the same file open on two handles unless both read it, KILL / NAME of an open file, NAME onto an existing file, EOF of a file not open for input, text read into a numeric variable");
    ev.assume("bytes of a gap left by PUT beyond the end and records never written have no specified value: GET of them is matched by a wildcard, and NUL / blank are identified in file contents");
    ev.assume("LSET padding (blank vs NUL) is not compared: NUL and blank are identified in record contents");
    run.finish(ev)
}
