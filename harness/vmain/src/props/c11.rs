//! C11 — every diagnostic names the right place in the source.
//! One fault is injected at every site of base programs (any nesting depth, call depth 0..3),
//! printed under every layout; the position map of the printer is the oracle for the reported
//! row, column and call-site rows.

use std::collections::BTreeMap;

use serde_json::{Value, json};
use vcore::Evidence;
use vcore::btok::split_lines;
use vcore::gen11::*;
use vcore::gprint::print;
use vcore::outcome::End;

use super::{Run, truncate_text};
use crate::bind::{RunOpts, run_pipeline};
use crate::pool::Pool;

fn total_sites() -> usize {
    build(0, usize::MAX, "").sites
}

struct Case {
    variant: usize,
    site: usize,
    fault: usize,
    layout: usize,
}

fn decode(mut idx: u64, sites: usize, nlayouts: usize) -> Case {
    let layout = (idx % nlayouts as u64) as usize;
    idx /= nlayouts as u64;
    let fault = (idx % FAULTS.len() as u64) as usize;
    idx /= FAULTS.len() as u64;
    let site = (idx % sites as u64) as usize;
    let variant = (idx / sites as u64) as usize;
    Case { variant, site, fault, layout }
}

/// quick runs four of the eight variants (each feature in both settings)
fn variant_of(k: usize, quick: bool) -> usize {
    if quick { [0, 3, 5, 6].get(k).copied().unwrap_or(usize::MAX) } else { k }
}

const TRAPPED: [&str; 4] = ["KILL \"NOSUCH.FIL\"", "ZS9$ = LEFT$(\"a\", -1)", "ZQ9% = 1 / ZERO9%", "OPEN \"NOSUCH.FIL\" FOR INPUT AS #3"];

fn check(c: &Case, quick: bool, far: (u32, u32)) -> Result<String, (String, String, String)> {
    check_hist(c, quick, far, None)
}

/// `trapped`: a statement that fails and is trapped (ON ERROR GOTO at the top of the module, RESUME NEXT) stands right
/// before the injected statement, followed by ON ERROR GOTO 0: the report of the injected fault must be the same.
fn check_hist(c: &Case, quick: bool, far: (u32, u32), trapped: Option<usize>) -> Result<String, (String, String, String)> {
    let ls = layouts(quick);
    let (lname, layout) = &ls[c.layout];
    let (kind, raw) = FAULTS[c.fault];
    let b = build(c.variant, c.site, raw);
    let Some(fid) = b.fault_id else { return Err(("machinery".into(), format!("site {} does not exist", c.site), String::new())) };
    let printed = print(&b.prog, layout);
    let Some(pos) = printed.pos.get(&fid).copied() else { return Err(("machinery".into(), "no position for the injected statement".into(), printed.text)) };
    // self-check of the oracle: the text at the mapped position is the fault's text
    let lines = split_lines(&printed.text);
    let line = lines.get(pos.row as usize - 1).cloned().unwrap_or_default();
    let span: String = line.chars().skip(pos.col_first as usize - 1).take((pos.col_last + 1 - pos.col_first) as usize).collect();
    if !span.eq_ignore_ascii_case(raw) {
        return Err(("machinery".into(), format!("position map says row {} cols {}..{} = {:?}, expected {:?}", pos.row, pos.col_first, pos.col_last, span, raw), printed.text));
    }
    // far: the same program pushed down by `far.0` comment / blank lines and, where the injected statement stands alone
    // on its line, pushed right by a string assignment of `far.1` columns before it on the same line
    let mut printed = printed;
    let mut pos = pos;
    if far.1 > 0 {
        if line.trim() != raw && !line.trim().eq_ignore_ascii_case(raw) {
            return Ok("not-generated:the statement shares its line".into());
        }
        let indent: String = line.chars().take(pos.col_first as usize - 1).collect();
        let filler = format!("{}ZZ$ = \"{}\": ", indent, "x".repeat(far.1 as usize - indent.chars().count() - 9));
        let mut out = String::new();
        let mut rest = printed.text.as_str();
        // rebuild the text line by line, keeping the line ends
        let mut row = 1u32;
        while !rest.is_empty() {
            let end = rest.find(['\r', '\n']).map(|i| if rest[i..].starts_with("\r\n") { i + 2 } else { i + 1 }).unwrap_or(rest.len());
            if row == pos.row {
                out.push_str(&filler);
                out.push_str(&rest[pos.col_first as usize - 1..end]);
            } else {
                out.push_str(&rest[..end]);
            }
            rest = &rest[end..];
            row += 1;
        }
        let shift = filler.chars().count() as u32 - (pos.col_first - 1);
        pos.col_first += shift;
        pos.col_last += shift;
        printed.text = out;
    }
    // rows of the original text -> rows of the text that is run
    let mut inserted_before: Vec<u32> = vec![]; // a line inserted before original row r
    if let Some(t) = trapped {
        if far != (0, 0) {
            return Err(("machinery".into(), "history and far are exclusive".into(), String::new()));
        }
        if !line.trim().eq_ignore_ascii_case(raw) {
            return Ok("not-generated:the statement shares its line".into());
        }
        let eol = layout.eol;
        let lines_now = split_lines(&printed.text);
        // the handler goes before the first subprogram (or at the end of the text)
        let first_sub = lines_now.iter().position(|l| {
            let u = l.trim_start().to_ascii_uppercase();
            u.starts_with("SUB ") || u.starts_with("FUNCTION ")
        });
        let mut out = String::new();
        out.push_str("ON ERROR GOTO Trap9");
        out.push_str(eol);
        inserted_before.push(1);
        for (i, l) in lines_now.iter().enumerate() {
            let row = i as u32 + 1;
            if Some(i) == first_sub {
                for h in ["END", "Trap9:", "RESUME NEXT"] {
                    out.push_str(h);
                    out.push_str(eol);
                    inserted_before.push(row);
                }
            }
            if row == pos.row {
                let indent: String = l.chars().take_while(|ch| *ch == ' ' || *ch == '\t').collect();
                for h in [TRAPPED[t], "ON ERROR GOTO 0"] {
                    out.push_str(&indent);
                    out.push_str(h);
                    out.push_str(eol);
                    inserted_before.push(row);
                }
            }
            out.push_str(l);
            out.push_str(eol);
        }
        if first_sub.is_none() {
            for h in ["END", "Trap9:", "RESUME NEXT"] {
                out.push_str(h);
                out.push_str(eol);
            }
        }
        printed.text = out;
    }
    let map_row = |r: u32| -> u32 { r + far.0 + inserted_before.iter().filter(|b| **b <= r).count() as u32 };
    let orig_row = pos.row;
    if trapped.is_some() {
        pos.row = map_row(orig_row);
    }
    if far.0 > 0 {
        let eol = layout.eol;
        let mut pre = String::with_capacity(far.0 as usize * 3);
        for i in 0..far.0 {
            if i % 2 == 0 {
                pre.push('\'');
            }
            pre.push_str(eol);
        }
        printed.text = format!("{}{}", pre, printed.text);
        pos.row += far.0;
    }
    let o = run_pipeline(&printed.text, &RunOpts { budget: 300_000, ..RunOpts::default() });
    let label = format!("{} `{}` at {} (variant {}, layout {}{})", kind, raw, b.site_desc, c.variant, lname, if far != (0, 0) { format!(", moved down {} rows and right {} columns", far.0, far.1) } else if let Some(t) = trapped { format!(", after the trapped failure of `{}`", TRAPPED[t]) } else { String::new() });
    let (family, row, col, stack): (&str, u32, u32, Option<Vec<u32>>) = match &o.end {
        End::ParseError { row, col, .. } => ("parse", *row, *col, None),
        End::LintError { row, col, .. } => ("lint", *row, *col, None),
        End::RuntimeError { rows, cols, .. } => ("runtime", rows.first().copied().unwrap_or(0), cols.first().copied().unwrap_or(0), Some(rows.clone())),
        other => {
            return Err((format!("{}|not-reported|{}", kind, other.class()), format!("{}: the run ended with {} (output {:?})", label, other.class(), truncate_text(&o.stdout_str(), 80)), printed.text));
        }
    };
    let want_family = match kind {
        "syntax" => "parse",
        "type mismatch" | "undefined label" | "argument count" => "lint",
        _ => "runtime",
    };
    if family != want_family {
        return Err((format!("{}|wrong-stage|{}", kind, family), format!("{}: expected a {} error, got {}", label, want_family, o.end.class()), printed.text));
    }
    // the kind of the error
    let class = o.end.class();
    let kind_ok = match kind {
        "syntax" => true,
        "type mismatch" => class.contains("TypeMismatch"),
        "undefined label" => class.contains("LabelNotDefined"),
        "argument count" => class.contains("ArgumentCountMismatch"),
        "division by zero" => class == "error11",
        "subscript out of range" => class == "error9",
        _ => class == "error6",
    };
    if !kind_ok {
        return Err((format!("{}|wrong-error|{}", kind, class), format!("{}: reported as {}", label, class), printed.text));
    }
    if row != pos.row {
        return Err((format!("{}|row", kind), format!("{}: the statement is on row {}, the error says row {} (col {})", label, pos.row, row, col), printed.text));
    }
    // a syntax error may be detected one position after a blank that follows the statement
    let slack = if kind == "syntax" { 2 } else { 0 };
    if col < pos.col_first || col > pos.col_last + slack {
        return Err((format!("{}|column", kind), format!("{}: the statement occupies columns {}..{} of row {}, the error says column {}", label, pos.col_first, pos.col_last, row, col), printed.text));
    }
    if let Some(rows) = stack {
        let mut want = vec![pos.row];
        for id in &b.chain {
            match printed.pos.get(id) {
                Some(p) => want.push(map_row(p.row)),
                None => return Err(("machinery".into(), "no position for a call site".into(), printed.text)),
            }
        }
        if rows != want {
            return Err((format!("{}|call-stack|depth{}", kind, b.chain.len()), format!("{}: expected the rows {:?} (statement, then call sites innermost first), got {:?}", label, want, rows), printed.text));
        }
    }
    Ok(format!("{}:{}", kind, family))
}

// ---------------------------------------------------------------------------
// faults that are only detected at the end of the text (a block without its closing line): the
// property does not say which statement offends, but the reported place must not depend on the
// line-ending convention and must lie inside the text or immediately at its end
// ---------------------------------------------------------------------------

const CLOSERS: [&str; 7] = ["NEXT", "WEND", "LOOP", "END IF", "END SELECT", "END SUB", "END FUNCTION"];

fn unterminated_texts(variant: usize) -> Vec<(String, Vec<String>)> {
    let base = print(&build(variant, usize::MAX, "").prog, &vcore::gprint::Layout::default()).text;
    let lines: Vec<&str> = base.lines().collect();
    let mut out = vec![];
    for (i, l) in lines.iter().enumerate() {
        let t = l.trim().to_ascii_uppercase();
        let Some(closer) = CLOSERS.iter().find(|c| t == **c || t.starts_with(&format!("{} ", c))) else { continue };
        let kept: Vec<&str> = lines.iter().enumerate().filter(|(j, _)| *j != i).map(|(_, l)| *l).collect();
        out.push((format!("{} of row {} removed (variant {})", closer, i + 1, variant), kept.iter().map(|s| s.to_string()).collect()));
    }
    out
}

fn check_unterminated(label: &str, lines: &[String], hist: &mut BTreeMap<String, u64>, bads: &mut Vec<Value>, replay: Value) -> u64 {
    let mut n = 0;
    for final_eol in [true, false] {
        let mut seen: Vec<(String, String, (String, u32, u32))> = vec![];
        for (ename, eol) in [("LF", "\n"), ("CR LF", "\r\n"), ("CR", "\r")] {
            let mut text = lines.join(eol);
            if final_eol {
                text.push_str(eol);
            }
            let o = run_pipeline(&text, &RunOpts { budget: 100_000, ..RunOpts::default() });
            n += 1;
            match &o.end {
                End::ParseError { kind, row, col } => {
                    if *row < 1 || *row as usize > lines.len() + 1 || *col < 1 {
                        *hist.entry("differ".into()).or_insert(0) += 1;
                        bads.push(json!({"sig": "C11|unterminated|outside-the-text", "summary": format!("{} ({} line ends, final line end: {}): the error is reported at {}:{}, the text has {} lines", label, ename, final_eol, row, col, lines.len()), "text": text, "case": replay.clone()}));
                    }
                    seen.push((ename.to_string(), text, (kind.clone(), *row, *col)));
                }
                other => {
                    *hist.entry("differ".into()).or_insert(0) += 1;
                    bads.push(json!({"sig": format!("C11|unterminated|not-a-syntax-error|{}", other.class()), "summary": format!("{} ({} line ends): expected a syntax error, got {}", label, ename, other.class()), "text": text, "case": replay.clone()}));
                }
            }
        }
        if let Some((_, _, first)) = seen.first() {
            if let Some((ename, text, other)) = seen.iter().find(|(_, _, p)| p != first) {
                *hist.entry("differ".into()).or_insert(0) += 1;
                bads.push(json!({"sig": format!("C11|unterminated|place-depends-on-line-ends|{}", ename), "summary": format!("{} (final line end: {}): with LF line ends the error is {:?}, with {} line ends it is {:?}", label, final_eol, first, ename, other), "text": text, "case": replay.clone()}));
            } else {
                *hist.entry("located:unterminated block, same place under LF / CR LF / CR".into()).or_insert(0) += 1;
            }
        }
    }
    n
}

/// `callsites` group: a run-time error inside a FUNCTION (directly, or one FUNCTION deeper) that was called from every
/// kind of expression position — conditions of IF / ELSEIF / WHILE / DO / LOOP, SELECT subjects and CASE tests, FOR
/// bounds, PRINT items, arguments, subscripts, single-line IF parts — each preceded by statements of an earlier branch or
/// body, at module level and inside a SUB. Returns (label, lines, expected rows: failing statement, call sites innermost first).
fn callsite_programs() -> Vec<(String, Vec<String>, Vec<u32>)> {
    // (label, lines before the call line, the call line with {} for the call, lines after)
    let positions: Vec<(&str, Vec<&str>, &str, Vec<&str>)> = vec![
        ("IF condition", vec![], "IF {} > 1 THEN", vec!["PRINT \"t\"", "END IF"]),
        ("ELSEIF condition", vec!["IF Z% <> 0 THEN", "PRINT \"a\"", "PRINT \"b\""], "ELSEIF {} > 1 THEN", vec!["PRINT \"c\"", "ELSE", "PRINT \"d\"", "END IF"]),
        ("second ELSEIF condition", vec!["IF Z% <> 0 THEN", "PRINT \"a\"", "ELSEIF Z% = 5 THEN", "PRINT \"b\"", "PRINT \"b2\""], "ELSEIF {} > 1 THEN", vec!["PRINT \"c\"", "END IF"]),
        ("SELECT CASE subject", vec!["PRINT \"before\""], "SELECT CASE {}", vec!["CASE 1", "PRINT \"one\"", "END SELECT"]),
        ("second CASE test", vec!["SELECT CASE 5", "CASE 1", "PRINT \"one\"", "PRINT \"one2\""], "CASE {}", vec!["PRINT \"two\"", "CASE ELSE", "PRINT \"else\"", "END SELECT"]),
        ("CASE range limit", vec!["SELECT CASE 5", "CASE 1", "PRINT \"one\""], "CASE 2 TO {}", vec!["PRINT \"two\"", "END SELECT"]),
        ("CASE IS test", vec!["SELECT CASE 5", "CASE 1", "PRINT \"one\""], "CASE IS < {}", vec!["PRINT \"two\"", "END SELECT"]),
        ("third item of a CASE list", vec!["SELECT CASE 5", "CASE 1", "PRINT \"one\""], "CASE 2, 3, {}", vec!["PRINT \"two\"", "END SELECT"]),
        ("WHILE condition", vec!["PRINT \"before\""], "WHILE {} > 1", vec!["PRINT \"w\"", "WEND"]),
        ("DO WHILE condition", vec!["PRINT \"before\""], "DO WHILE {} > 1", vec!["PRINT \"w\"", "LOOP"]),
        ("DO UNTIL condition", vec!["PRINT \"before\""], "DO UNTIL {} < 1", vec!["PRINT \"w\"", "LOOP"]),
        ("LOOP WHILE condition", vec!["DO", "PRINT \"body\"", "PRINT \"body2\""], "LOOP WHILE {} > 1", vec![]),
        ("LOOP UNTIL condition", vec!["DO", "PRINT \"body\"", "Z% = Z% + 1"], "LOOP UNTIL {} < 1", vec![]),
        ("LOOP UNTIL after a nested block", vec!["DO", "IF Z% = 0 THEN", "PRINT \"in\"", "END IF"], "LOOP UNTIL {} < 1", vec![]),
        ("FOR start", vec!["PRINT \"before\""], "FOR I% = {} TO 3", vec!["NEXT"]),
        ("FOR limit", vec!["PRINT \"before\""], "FOR I% = 1 TO {}", vec!["NEXT"]),
        ("FOR step", vec!["PRINT \"before\""], "FOR I% = 1 TO 3 STEP {}", vec!["NEXT"]),
        ("PRINT item", vec!["PRINT \"before\""], "PRINT 1; {}", vec![]),
        ("assignment", vec!["PRINT \"before\""], "X% = 1 + {}", vec![]),
        ("argument of a SUB call", vec!["PRINT \"before\""], "Show {}", vec![]),
        ("array subscript", vec!["PRINT \"before\""], "PRINT AR%({})", vec![]),
        ("argument of a built-in function", vec!["PRINT \"before\""], "PRINT LEN(STR$({}))", vec![]),
        ("single-line IF condition", vec!["PRINT \"before\""], "IF {} > 1 THEN PRINT \"t\" ELSE PRINT \"f\"", vec![]),
        ("single-line IF, THEN part", vec!["PRINT \"before\""], "IF Z% = 0 THEN X% = {} ELSE PRINT \"f\"", vec![]),
        ("single-line IF, ELSE part", vec!["PRINT \"before\""], "IF Z% <> 0 THEN PRINT \"t\" ELSE X% = {}", vec![]),
        ("condition of an IF inside a FOR body after a statement", vec!["FOR I% = 1 TO 2", "PRINT \"i\"; I%"], "IF {} > 1 THEN PRINT \"t\"", vec!["NEXT"]),
        ("ELSEIF condition inside a WHILE body", vec!["WHILE Z% = 0", "Z% = 1", "IF Z% = 0 THEN", "PRINT \"a\""], "ELSEIF {} > 1 THEN", vec!["PRINT \"c\"", "END IF", "WEND"]),
    ];
    let mut out = vec![];
    for (label, before, call_line, after) in &positions {
        for depth in 1..=2 {
            for in_sub in [false, true] {
                let mut lines: Vec<String> = vec!["DECLARE FUNCTION Fail% (A%)".into(), "DECLARE FUNCTION Via% (A%)".into(), "DECLARE SUB Show (V%)".into(), "DECLARE SUB Work ()".into(), "DIM SHARED AR%(3)".into(), "PRINT \"start\"".into()];
                let call = if depth == 1 { "Fail%(0)" } else { "Via%(0)" };
                let mut body: Vec<String> = before.iter().map(|s| s.to_string()).collect();
                body.push(call_line.replace("{}", call));
                body.extend(after.iter().map(|s| s.to_string()));
                let call_row_in_body = before.len();
                let (call_row, work_call_row): (u32, Option<u32>);
                if in_sub {
                    lines.push("Work".into());
                    let wr = lines.len() as u32;
                    lines.push("PRINT \"not reached\"".into());
                    lines.push("END".into());
                    lines.push("SUB Work".into());
                    lines.push("PRINT \"in work\"".into());
                    call_row = (lines.len() + call_row_in_body + 1) as u32;
                    lines.extend(body);
                    lines.push("END SUB".into());
                    work_call_row = Some(wr);
                } else {
                    call_row = (lines.len() + call_row_in_body + 1) as u32;
                    lines.extend(body);
                    lines.push("PRINT \"not reached\"".into());
                    lines.push("END".into());
                    work_call_row = None;
                }
                lines.push("FUNCTION Via% (A%)".into());
                lines.push("PRINT \"via\"".into());
                lines.push("Via% = Fail%(A%) + 1".into());
                let via_row = lines.len() as u32;
                lines.push("END FUNCTION".into());
                lines.push("FUNCTION Fail% (A%)".into());
                lines.push("PRINT \"fail\"".into());
                lines.push("Fail% = 10 / A%".into());
                let fail_row = lines.len() as u32;
                lines.push("END FUNCTION".into());
                lines.push("SUB Show (V%)".into());
                lines.push("PRINT V%".into());
                lines.push("END SUB".into());
                let mut rows = vec![fail_row];
                if depth == 2 {
                    rows.push(via_row);
                }
                rows.push(call_row);
                if let Some(w) = work_call_row {
                    rows.push(w);
                }
                out.push((format!("{} | depth {} | {}", label, depth, if in_sub { "inside a SUB" } else { "module level" }), lines, rows));
            }
        }
    }
    out
}

fn check_callsites() -> Value {
    let mut hist: BTreeMap<String, u64> = BTreeMap::new();
    let mut bads = vec![];
    let mut n = 0u64;
    for (label, lines, want_rows) in callsite_programs() {
        for (ename, eol) in [("LF", "\n"), ("CR LF", "\r\n")] {
            let text = lines.join(eol) + eol;
            let o = run_pipeline(&text, &RunOpts { budget: 100_000, ..RunOpts::default() });
            n += 1;
            let verdict = match &o.end {
                End::RuntimeError { code: Some(11), rows, cols, .. } => {
                    if rows != &want_rows {
                        Some(format!("rows {:?}, expected {:?} (the failing statement, then the call sites innermost first)", rows, want_rows))
                    } else if let Some((r, c)) = rows.iter().zip(cols.iter()).find(|(r, c)| **c < 1 || **c as usize > lines[**r as usize - 1].len() + 1) {
                        Some(format!("column {} of row {} lies outside that row's text {:?}", c, r, lines[*r as usize - 1]))
                    } else {
                        None
                    }
                }
                other => Some(format!("expected Division by zero (11), got {:?}", other)),
            };
            match verdict {
                None => *hist.entry("located:call site of an expression position".into()).or_insert(0) += 1,
                Some(m) => {
                    *hist.entry("differ".into()).or_insert(0) += 1;
                    if bads.len() < 30 {
                        let pos = label.split(" | ").next().unwrap_or("");
                        bads.push(json!({"sig": format!("C11|callsites|{}", pos), "summary": format!("an error inside a FUNCTION called from: {} ({} line ends) — {} — program: {:?}", label, ename, m, super::truncate_text(&text, 700)), "text": text, "case": {"callsites": true}}));
                    }
                }
            }
        }
    }
    json!({"n": n, "nontrivial": n, "hist": hist, "bad": bads})
}

/// Deep call chains: a recursion of `depth` activations (through one SUB, or alternating between a SUB and a FUNCTION)
/// fails at the bottom: the list of rows is the failing statement, then every call site innermost first, then the
/// call in the main module.
fn check_deep(quick: bool) -> Value {
    let mut hist: BTreeMap<String, u64> = BTreeMap::new();
    let mut bads = vec![];
    let mut n = 0u64;
    let depths: &[usize] = if quick { &[1, 2, 9, 10, 11, 63, 64, 65, 99, 100, 101, 127, 128, 129, 255, 256, 257, 300] } else { &[1, 2, 9, 10, 11, 31, 32, 33, 63, 64, 65, 99, 100, 101, 127, 128, 129, 199, 200, 201, 255, 256, 257, 300, 511, 512, 513, 1000] };
    for &depth in depths {
        for shape in 0..2 {
            for (eol, ename) in [("\n", "LF"), ("\r\n", "CR LF")] {
                // rows: 1 DECLARE.. ; the main call is on row 4
                let (lines, fail_row, sites): (Vec<String>, u32, Vec<u32>) = if shape == 0 {
                    (
                        vec![
                            "DECLARE SUB Down (N%)".into(), "PRINT \"start\"".into(), "Z% = 0".into(), format!("Down {}", depth - 1), "PRINT \"not reached\"".into(), "SUB Down (N%)".into(), "  IF N% = 0 THEN".into(), "    X% = 1 / Z%".into(), "  END IF".into(),
                            "  Down N% - 1".into(), "END SUB".into(),
                        ],
                        8,
                        std::iter::repeat(10u32).take(depth - 1).chain(std::iter::once(4)).collect(),
                    )
                } else {
                    // SUB Down calls FUNCTION Hop%, which calls Down: two activations per round
                    let mut sites = vec![];
                    // activations from the innermost outwards: Down(0) fails; it was called by Hop% (row 16) or by main
                    let mut k = 0;
                    while k + 1 < depth {
                        sites.push(if k % 2 == 0 { 16u32 } else { 11 });
                        k += 1;
                    }
                    sites.push(4);
                    (
                        vec![
                            "DECLARE SUB Down (N%)".into(), "DECLARE FUNCTION Hop% (N%)".into(), "PRINT \"start\"".into(), format!("Down {}", depth - 1), "PRINT \"not reached\"".into(), "SUB Down (N%)".into(), "  IF N% = 0 THEN".into(), "    X% = 1 / Z%".into(),
                            "  END IF".into(), "  ' the FUNCTION is an operand".into(), "  Y% = 1 + Hop%(N% - 1)".into(), "END SUB".into(), "FUNCTION Hop% (N%)".into(), "  IF N% < 0 THEN EXIT FUNCTION".into(), "  ' a SUB call".into(), "  Down N%".into(), "  Hop% = 1".into(),
                            "END FUNCTION".into(),
                        ],
                        8,
                        sites,
                    )
                };
                // in shape 1 the chain alternates Down -> Hop% -> Down: Down(N) calls Hop%(N-1) calls Down(N-1): the depth counts activations
                let text = lines.join(eol) + eol;
                let text = if shape == 1 { text.replacen(&format!("Down {}", depth - 1), &format!("Down {}", (depth - 1) / 2), 1) } else { text };
                let o = run_pipeline(&text, &RunOpts { budget: 5_000_000, ..RunOpts::default() });
                n += 1;
                let want: Vec<u32> = if shape == 1 {
                    // Down(k) is reached after 2k + 1 activations counted from the main call
                    let rounds = (depth - 1) / 2;
                    let mut v = vec![fail_row];
                    for _ in 0..rounds {
                        v.push(16);
                        v.push(11);
                    }
                    v.push(4);
                    v
                } else {
                    std::iter::once(fail_row).chain(sites.iter().copied()).collect()
                };
                let ok = match &o.end {
                    End::RuntimeError { code: Some(11), rows, .. } => *rows == want,
                    _ => false,
                };
                if ok {
                    *hist.entry("deep chain listed completely".into()).or_insert(0) += 1;
                } else {
                    *hist.entry("differ".into()).or_insert(0) += 1;
                    if bads.len() < 20 {
                        let got = match &o.end {
                            End::RuntimeError { rows, code, .. } => format!("error {:?}, {} rows, first {:?}, last {:?}", code, rows.len(), rows.iter().take(4).collect::<Vec<_>>(), rows.iter().rev().take(3).collect::<Vec<_>>()),
                            other => other.class(),
                        };
                        bads.push(json!({"sig": format!("C11|deep|{}", if shape == 0 { "one SUB" } else { "SUB and FUNCTION alternating" }), "summary": format!("a division by zero {} activations deep ({} line ends): expected {} rows ending in the main module's call on row 4, got {} — program: {:?}", want.len() - 1, ename, want.len(), got, super::truncate_text(&text, 500)), "text": text, "case": {"deep": true, "quick": quick}}));
                    }
                }
            }
        }
    }
    json!({"n": n, "nontrivial": n, "hist": hist, "bad": bads})
}

pub fn worker(case: &Value) -> Value {
    let quick = case["quick"].as_bool().unwrap_or(true);
    if case["deep"].as_bool() == Some(true) {
        return check_deep(quick);
    }
    if case["callsites"].as_bool() == Some(true) {
        return check_callsites();
    }
    if let Some(v) = case["unterminated"].as_u64() {
        let mut hist: BTreeMap<String, u64> = BTreeMap::new();
        let mut bads = vec![];
        let mut n = 0;
        for (label, lines) in unterminated_texts(v as usize) {
            n += check_unterminated(&label, &lines, &mut hist, &mut bads, case.clone());
        }
        bads.truncate(30);
        return json!({"n": n, "nontrivial": n, "hist": hist, "bad": bads});
    }
    if let Some(t) = case["trapped"].as_u64() {
        let mut hist: BTreeMap<String, u64> = BTreeMap::new();
        let mut bads = vec![];
        let mut n = 0;
        for site in 0..total_sites() {
            let c = Case { variant: case["variant"].as_u64().unwrap_or(0) as usize, site, fault: case["fault"].as_u64().unwrap_or(0) as usize, layout: case["layout"].as_u64().unwrap_or(0) as usize };
            match check_hist(&c, quick, (0, 0), Some(t as usize)) {
                Ok(k) if k.starts_with("not-generated") => *hist.entry(k).or_insert(0) += 1,
                Ok(k) => {
                    n += 1;
                    *hist.entry(format!("located after a trapped failure:{}", k)).or_insert(0) += 1
                }
                Err((class, msg, _)) if class == "machinery" => return json!({"machinery": msg}),
                Err((class, msg, text)) => {
                    n += 1;
                    *hist.entry("differ".into()).or_insert(0) += 1;
                    if bads.len() < 20 {
                        bads.push(json!({"sig": format!("C11|history|{}", class), "summary": msg, "text": text, "case": case.clone()}));
                    }
                }
            }
        }
        return json!({"n": n, "nontrivial": n, "hist": hist, "bad": bads});
    }
    if let Some(far) = case["far"].as_array() {
        let far = (far[0].as_u64().unwrap_or(0) as u32, far[1].as_u64().unwrap_or(0) as u32);
        let mut hist: BTreeMap<String, u64> = BTreeMap::new();
        let mut bads = vec![];
        let mut n = 0;
        let c = Case { variant: case["variant"].as_u64().unwrap_or(0) as usize, site: case["site"].as_u64().unwrap_or(0) as usize, fault: case["fault"].as_u64().unwrap_or(0) as usize, layout: case["layout"].as_u64().unwrap_or(0) as usize };
        match check(&c, quick, far) {
            Ok(k) if k.starts_with("not-generated") => *hist.entry(k).or_insert(0) += 1,
            Ok(k) => {
                n += 1;
                *hist.entry(format!("located far away:{}", k)).or_insert(0) += 1
            }
            Err((class, msg, _)) if class == "machinery" => return json!({"machinery": msg}),
            Err((class, msg, text)) => {
                n += 1;
                *hist.entry("differ".into()).or_insert(0) += 1;
                bads.push(json!({"sig": format!("C11|far|{}", class), "summary": msg, "text": truncate_text(&text, 2000), "case": case.clone()}));
            }
        }
        return json!({"n": n, "nontrivial": n, "hist": hist, "bad": bads});
    }
    let sites = total_sites();
    let nl = layouts(quick).len();
    let mut hist: BTreeMap<String, u64> = BTreeMap::new();
    let mut bads = vec![];
    let mut machinery = vec![];
    let mut n = 0u64;
    let mut sample = Value::Null;
    for idx in case["lo"].as_u64().unwrap_or(0)..case["hi"].as_u64().unwrap_or(0) {
        let mut c = decode(idx, sites, nl);
        c.variant = variant_of(c.variant, quick);
        if c.variant >= VARIANTS {
            continue;
        }
        n += 1;
        match check(&c, quick, (0, 0)) {
            Ok(k) => *hist.entry(format!("located:{}", k)).or_insert(0) += 1,
            Err((class, msg, text)) if class == "machinery" => machinery.push(format!("{} — {}", msg, truncate_text(&text, 200))),
            Err((class, msg, text)) => {
                *hist.entry("differ".into()).or_insert(0) += 1;
                if sample.is_null() {
                    sample = json!({"text": text});
                }
                if bads.len() < 40 {
                    bads.push(json!({"sig": format!("C11|{}", class), "summary": msg, "text": text, "case": {"quick": quick, "lo": idx, "hi": idx + 1}}));
                }
            }
        }
    }
    let mut out = json!({"n": n, "nontrivial": n, "hist": hist, "bad": bads, "sample": sample});
    if !machinery.is_empty() {
        out["machinery"] = json!(machinery[0]);
    }
    out
}

pub fn drive(tier: &str) -> i32 {
    let quick = tier == "quick";
    let mut run = Run::new("C11", tier);
    run.crash_is_violation = true;
    let mut pool = Pool::new("C11");
    pool.timeout_ms = 120_000;
    let sites = total_sites();
    let nl = layouts(quick).len();
    let variants = if quick { 4 } else { VARIANTS };
    let total = (variants * sites * FAULTS.len() * nl) as u64;
    let mut cases = vec![];
    let mut lo = 0;
    while lo < total {
        cases.push(json!({"quick": quick, "lo": lo, "hi": (lo + 150).min(total)}));
        lo += 150;
    }
    for k in 0..variants {
        cases.push(json!({"quick": quick, "unterminated": variant_of(k, quick)}));
    }
    cases.push(json!({"quick": quick, "callsites": true}));
    cases.push(json!({"quick": quick, "deep": true}));
    // far away: the fault beyond row 65 535 / beyond column 255 and 65 535
    let mut far_programs = 0u64;
    {
        let shifts: Vec<(u32, u32)> = if quick { vec![(65535, 0), (65536, 0), (0, 256), (0, 65536), (300, 300)] } else { vec![(254, 0), (65534, 0), (65535, 0), (65536, 0), (70001, 0), (0, 255), (0, 256), (0, 257), (0, 65535), (0, 65536), (0, 70001), (300, 300), (65536, 65536)] };
        let fault_menu: Vec<usize> = if quick { vec![0, 4, 6, 8, 10, 12, 14] } else { (0..FAULTS.len()).collect() };
        for site in (0..sites).step_by(if quick { 3 } else { 1 }) {
            for (fi, &fault) in fault_menu.iter().enumerate() {
                for (si, far) in shifts.iter().enumerate() {
                    // the three line-end conventions in rotation
                    let layout = (site + fi + si) % 3 * (nl / 3);
                    cases.push(json!({"quick": quick, "far": [far.0, far.1], "variant": if quick { 0 } else { (site + fi) % VARIANTS }, "site": site, "fault": fault.min(FAULTS.len() - 1), "layout": layout}));
                    far_programs += 1;
                }
            }
        }
    }
    // history: a trapped failure right before the injected run-time fault
    {
        let runtime_faults: Vec<usize> = (0..FAULTS.len()).filter(|f| matches!(FAULTS[*f].0, "division by zero" | "subscript out of range" | "overflow")).collect();
        for v in 0..variants {
            for (fi, f) in runtime_faults.iter().enumerate() {
                if quick && fi % 2 == 1 {
                    continue;
                }
                for t in 0..TRAPPED.len() {
                    cases.push(json!({"quick": quick, "trapped": t, "variant": variant_of(v, quick), "fault": f, "layout": (v + fi + t) % 3 * (nl / 3)}));
                }
            }
        }
    }
    let total_cases = cases.len();
    let cap = run.wall_cap_s;
    let t0 = run.reporter.start;
    let it = cases.into_iter().take_while(|_| t0.elapsed().as_secs_f64() < cap);
    run.run_pool(&pool, it, |_, _, _, _| {});
    if (run.cases as usize) < total_cases {
        run.capped = true;
    }
    let mut ev = Evidence::new("exploration");
    ev.set("rule", "base programs (IF > FOR > SELECT and WHILE > DO at module level; SUB Outer -> SUB Inner -> FUNCTION Deep% called from inside blocks; 8 variants: NEXT with / without counter, DO forms, textual order of the subprograms, ordinary / STATIC subprograms) x every injection site (first / inner / last statement of the module, of every block and of every subprogram, single-line IF bodies; call depth 0..3) x 16 fault statements of 7 kinds (syntax, type mismatch, undefined label, argument count, division by zero, subscript out of range, overflow) x layouts (LF / CR LF / CR x blank lines x trailing comments x colon-joined statements x keyword case x indentation). Oracle: the printer's position map (self-checked against the text): stage and kind of the error, row = row of the injected statement, column inside its text (syntax errors: up to two columns after it), and for run-time errors the rows of the active call sites, innermost first. far: the same programs pushed down by 65 535 / 65 536 (thorough also 254, 65 534, 70 001) comment and blank lines and / or pushed right by a string assignment of 256 / 65 536 (thorough also 255, 257, 65 535, 70 001) columns on the line of the injected statement — rows, columns and call-site rows must follow. history: at every site a statement that fails and is trapped (KILL / OPEN of a missing file, LEFT$ with a negative count, a division by zero; ON ERROR GOTO at the top of the module, RESUME NEXT) stands right before the injected run-time fault, followed by ON ERROR GOTO 0: the fault is reported with the same row, column and call-site rows as without that history. unterminated: every base program with one closing line (NEXT, WEND, LOOP, END IF, END SELECT, END SUB, END FUNCTION) removed, under LF / CR LF / CR line ends with and without a final line end: a syntax error whose row and column are the same under the three conventions and lie inside the text or immediately at its end. callsites: a division by zero inside a FUNCTION (directly, or one FUNCTION deeper) called from 27 expression positions (IF / ELSEIF / second ELSEIF / WHILE / DO WHILE / DO UNTIL / LOOP WHILE / LOOP UNTIL conditions, SELECT CASE subject, second CASE test, CASE range / IS / list item, FOR start / limit / step, PRINT item, assignment, argument of a SUB and of a built-in, array subscript, the three parts of a single-line IF, conditions inside loop bodies), each after statements of an earlier branch or body, at module level and inside a SUB, under LF and CR LF: the rows are exactly the failing statement, then the call sites innermost first (the row of the header / statement that holds the call), every column inside its row. deep: a recursion of 1 .. 300 (thorough 1000) activations around the powers of two and 100 (one SUB; a SUB and a FUNCTION alternating) that fails at the bottom: the rows are the failing statement, every call site innermost first, and the call in the main module last.");
    ev.set("exhaustive", !run.capped);
    ev.set("plan", json!({"variants": variants, "sites": sites, "faults": FAULTS.len(), "layouts": nl, "programs": total, "far_programs": far_programs, "callsite_programs": 2 * callsite_programs().len()}));
    ev.set("distinct_nontrivial", run.nontrivial);
    ev.assume("syntax faults are local to one simple statement, so the offending statement is unambiguous; faults that change the block structure are left to C07");
    run.finish(ev)
}
