//! C14 — a CONST has the value and type its expression would have at run time.
//! Two evaluators of the same expression language (the checker's folder and the VM) are
//! compared on every constant expression of a bounded space: the CONST form against the
//! inlined form, and the checker's rejection against the run-time error.

use std::collections::BTreeMap;

use serde_json::{Value, json};
use vcore::Evidence;
use vcore::outcome::End;

use super::Run;
use crate::bind::{RunOpts, run_pipeline};
use crate::pool::Pool;

#[derive(Clone, Copy, PartialEq, Debug)]
enum Kind {
    Num,
    Str,
    Mismatch,
}

/// Two named constants every program starts with: the most negative INTEGER and LONG, which cannot be
/// written as literals of their own type.
const HEAD: &str = "CONST LO% = -32768\nCONST LL& = -2147483648\n";

const LITS: [(&str, Kind); 20] = [
    ("1", Kind::Num),
    ("2", Kind::Num),
    ("0", Kind::Num),
    ("32767", Kind::Num),
    ("\"a\"", Kind::Str),
    ("2.5", Kind::Num),
    ("100000", Kind::Num),
    ("\"b\"", Kind::Str),
    ("7", Kind::Num),
    ("2147483647", Kind::Num),
    (".1", Kind::Num),
    ("1.5#", Kind::Num),
    ("65536", Kind::Num),
    ("12345678.5#", Kind::Num),
    ("\"\"", Kind::Str),
    ("32768", Kind::Num),
    (".1#", Kind::Num),
    ("-1", Kind::Num),
    ("LO%", Kind::Num),
    ("LL&", Kind::Num),
];

/// Pairs of SINGLE / DOUBLE literals closer together than 0.00001 (the last pair is further apart).
const CLOSE: [(&str, &str); 8] = [
    ("1.000001", "1.000002"),
    (".000001#", "0.0#"),
    ("2.5", "2.500001"),
    ("100000.5#", "100000.500001#"),
    (".5", ".500004"),
    ("-.000002", "-.000001"),
    ("7.25#", "7.250009#"),
    ("3.5", "3.6"),
];

const BINOPS: [&str; 13] = ["+", "-", "*", "/", "MOD", "AND", "OR", "<", "<=", "=", ">=", ">", "<>"];
const UNOPS: [&str; 2] = ["-", "NOT "];

fn bin_kind(op: &str, a: Kind, b: Kind) -> Kind {
    match (a, b) {
        (Kind::Num, Kind::Num) => Kind::Num,
        (Kind::Str, Kind::Str) => match op {
            "+" => Kind::Str,
            "<" | "<=" | "=" | ">=" | ">" | "<>" => Kind::Num,
            _ => Kind::Mismatch,
        },
        _ => Kind::Mismatch,
    }
}

#[derive(Clone, Debug)]
struct Expr {
    text: String,
    kind: Kind,
    /// for the chained form: CONST inner = <inner>; outer uses the constant
    chain: Option<(String, String)>,
}

struct Space {
    nlit1: usize,
    nlit2: usize,
}

impl Space {
    fn new(quick: bool) -> Space {
        if quick { Space { nlit1: 20, nlit2: 5 } } else { Space { nlit1: 20, nlit2: 9 } }
    }

    fn total(&self, g: &str) -> u64 {
        match g {
            "depth1" => (self.nlit1 * self.nlit1 * BINOPS.len() + self.nlit1 * UNOPS.len() + self.nlit1) as u64,
            "depth2" => (2 * BINOPS.len() * BINOPS.len() * self.nlit2 * self.nlit2 * self.nlit2 + UNOPS.len() * BINOPS.len() * self.nlit2 * self.nlit2) as u64,
            "shadow" => (6 * 6 * 6 * BINOPS.len()) as u64,
            "neighbour" => NEIGHBOUR_CASES,
            "close" => (CLOSE.len() * 2 * BINOPS.len()) as u64,
            "suffix" => 5 * self.total("depth1"),
            _ => 0,
        }
    }

    fn expr(&self, g: &str, mut idx: u64) -> Option<Expr> {
        match g {
            "depth1" => {
                let nb = (self.nlit1 * self.nlit1 * BINOPS.len()) as u64;
                if idx < nb {
                    let a = (idx % self.nlit1 as u64) as usize;
                    idx /= self.nlit1 as u64;
                    let b = (idx % self.nlit1 as u64) as usize;
                    let op = BINOPS[(idx / self.nlit1 as u64) as usize];
                    return Some(Expr { text: format!("{} {} {}", LITS[a].0, op, LITS[b].0), kind: bin_kind(op, LITS[a].1, LITS[b].1), chain: None });
                }
                idx -= nb;
                let nu = (self.nlit1 * UNOPS.len()) as u64;
                if idx < nu {
                    let a = (idx % self.nlit1 as u64) as usize;
                    let op = UNOPS[(idx / self.nlit1 as u64) as usize];
                    let kind = if LITS[a].1 == Kind::Num { Kind::Num } else { Kind::Mismatch };
                    return Some(Expr { text: format!("{}{}", op, LITS[a].0), kind, chain: None });
                }
                idx -= nu;
                let a = idx as usize;
                Some(Expr { text: LITS.get(a)?.0.to_string(), kind: LITS[a].1, chain: None })
            }
            "close" => {
                // operands closer together than 0.00001 (and one pair further apart), in both orders, under every operator
                let pair = CLOSE.get((idx / 2) as usize % CLOSE.len())?;
                let op = BINOPS.get((idx / 2) as usize / CLOSE.len())?;
                let (a, b) = if idx % 2 == 0 { (pair.0, pair.1) } else { (pair.1, pair.0) };
                Some(Expr { text: format!("{} {} {}", a, op, b), kind: Kind::Num, chain: None })
            }
            "depth2" => {
                let n = self.nlit2 as u64;
                let nops = BINOPS.len() as u64;
                let nb = 2 * nops * nops * n * n * n;
                if idx < nb {
                    let left_nested = idx % 2 == 0;
                    idx /= 2;
                    let a = (idx % n) as usize;
                    idx /= n;
                    let b = (idx % n) as usize;
                    idx /= n;
                    let c = (idx % n) as usize;
                    idx /= n;
                    let op1 = BINOPS[(idx % nops) as usize];
                    let op2 = BINOPS[(idx / nops) as usize];
                    let inner = format!("{} {} {}", LITS[a].0, op1, LITS[b].0);
                    let ik = bin_kind(op1, LITS[a].1, LITS[b].1);
                    let (text, kind, outer) = if left_nested {
                        (format!("({}) {} {}", inner, op2, LITS[c].0), bin_kind(op2, ik, LITS[c].1), format!("@ {} {}", op2, LITS[c].0))
                    } else {
                        (format!("{} {} ({})", LITS[c].0, op2, inner), bin_kind(op2, LITS[c].1, ik), format!("{} {} @", LITS[c].0, op2))
                    };
                    let kind = if ik == Kind::Mismatch { Kind::Mismatch } else { kind };
                    return Some(Expr { text, kind, chain: Some((inner, outer)) });
                }
                idx -= nb;
                let a = (idx % n) as usize;
                idx /= n;
                let b = (idx % n) as usize;
                idx /= n;
                let op1 = BINOPS[(idx % nops) as usize];
                let u = UNOPS.get((idx / nops) as usize)?;
                let inner = format!("{} {} {}", LITS[a].0, op1, LITS[b].0);
                let ik = bin_kind(op1, LITS[a].1, LITS[b].1);
                let kind = if ik == Kind::Num { Kind::Num } else { Kind::Mismatch };
                Some(Expr { text: format!("{}({})", u, inner), kind, chain: Some((inner, format!("{}@", u))) })
            }
            _ => None,
        }
    }
}

const TRAP: &str = "END\nTrap:\nPRINT \"E\"; ERR\nRESUME NEXT\n";

/// The probes of one value expression `v` (a constant name or a parenthesised expression).
fn probes(k: usize, v: &str, kind: Kind) -> String {
    let mut s = format!("PRINT \"#{}\"\nPRINT {}\n", k, v);
    if kind == Kind::Num {
        // precision (SINGLE / DOUBLE), and INTEGER / LONG through overflow
        // (negative values: INTEGER / LONG / DOUBLE show in v - 32767 and v + v)
        s.push_str(&format!("PRINT {} / 3\nPRINT {} + 32767\nPRINT {} * 65536\nPRINT {} - 32767\nPRINT {} + {}\n", v, v, v, v, v, v));
    } else {
        s.push_str(&format!("PRINT LEN({})\nPRINT {} + \"z\"\n", v, v));
    }
    s
}

fn segments(out: &str) -> BTreeMap<usize, String> {
    let mut m = BTreeMap::new();
    let mut cur: Option<usize> = None;
    for line in out.split("\r\n") {
        if let Some(k) = line.strip_prefix('#').and_then(|t| t.parse::<usize>().ok()) {
            cur = Some(k);
            m.insert(k, String::new());
        } else if let Some(k) = cur {
            if !line.is_empty() {
                let e = m.get_mut(&k).unwrap();
                e.push_str(line);
                e.push('\n');
            }
        }
    }
    m
}

fn run(text: &str) -> vcore::outcome::Outcome {
    run_pipeline(text, &RunOpts { budget: 2_000_000, ..RunOpts::default() })
}

/// form: 0 = plain CONST, 1 = chained through an earlier CONST, 2 = inside a SUB
fn const_program(items: &[(usize, &Expr)], form: usize) -> String {
    let mut decl = String::new();
    let mut body = String::new();
    for (k, e) in items {
        match (&e.chain, form) {
            (Some((inner, outer)), 1) => {
                decl.push_str(&format!("CONST I{} = {}\nCONST C{} = {}\n", k, inner, k, outer.replace('@', &format!("I{}", k))));
            }
            _ => decl.push_str(&format!("CONST C{} = {}\n", k, e.text)),
        }
        body.push_str(&probes(*k, &format!("C{}", k), e.kind));
    }
    if form == 2 {
        format!("{}ON ERROR GOTO Trap\nS\n{}SUB S\n{}{}END SUB\n", HEAD, TRAP, decl, body)
    } else {
        format!("{}ON ERROR GOTO Trap\n{}{}{}", HEAD, decl, body, TRAP)
    }
}

fn inline_program(items: &[(usize, &Expr)], in_sub: bool) -> String {
    let mut body = String::new();
    for (k, e) in items {
        body.push_str(&probes(*k, &format!("({})", e.text), e.kind));
    }
    if in_sub {
        format!("{}ON ERROR GOTO Trap\nS\n{}SUB S\n{}END SUB\n", HEAD, TRAP, body)
    } else {
        format!("{}ON ERROR GOTO Trap\n{}{}", HEAD, body, TRAP)
    }
}

fn lint_kind(e: &End) -> Option<String> {
    match e {
        End::LintError { kind, .. } => Some(kind.clone()),
        _ => None,
    }
}

struct Acc {
    hist: BTreeMap<String, u64>,
    bads: Vec<Value>,
}

impl Acc {
    fn bad(&mut self, g: &str, class: &str, msg: String, text: String, replay: Value) {
        *self.hist.entry("differ".into()).or_insert(0) += 1;
        if self.bads.len() < 30 {
            self.bads.push(json!({"sig": format!("C14|{}|{}", g, class), "summary": msg, "text": text, "case": replay}));
        }
    }
}

/// Judges a list of expressions (with their replay values).
fn judge(g: &str, exprs: &[(Expr, Value)], acc: &mut Acc) -> u64 {
    let mut n = 0u64;
    // 1. run-time evaluation of the inlined forms, in one program per level
    let valid: Vec<(usize, &Expr)> = exprs.iter().enumerate().filter(|(_, (e, _))| e.kind != Kind::Mismatch).map(|(i, (e, _))| (i, e)).collect();
    for in_sub in [false, true] {
        let form_name = if in_sub { "sub" } else { "module" };
        let btext = inline_program(&valid, in_sub);
        let bout = run(&btext);
        let mut bseg: BTreeMap<usize, String> = BTreeMap::new();
        if matches!(bout.end, End::Normal) {
            bseg = segments(&bout.stdout_str());
        } else {
            // some inlined form is rejected or ends the program: evaluate one by one
            for (k, e) in &valid {
                let t = inline_program(&[(*k, *e)], in_sub);
                let o = run(&t);
                if matches!(o.end, End::Normal) {
                    bseg.extend(segments(&o.stdout_str()));
                } else {
                    bseg.insert(*k, format!("<{}>", o.end.class()));
                }
            }
        }
        // 2. the CONST forms of the expressions that evaluate at run time
        let first_line_ok = |k: usize| bseg.get(&k).map(|s| !s.starts_with('E') && !s.starts_with('<')).unwrap_or(false);
        let forms: &[usize] = if in_sub { &[2] } else { &[0, 1] };
        for form in forms {
            let ok: Vec<(usize, &Expr)> = valid.iter().filter(|(k, e)| first_line_ok(*k) && (*form != 1 || e.chain.is_some())).cloned().collect();
            let atext = const_program(&ok, *form);
            let aout = run(&atext);
            let mut aseg: BTreeMap<usize, String> = BTreeMap::new();
            if matches!(aout.end, End::Normal) {
                aseg = segments(&aout.stdout_str());
            } else {
                for (k, e) in &ok {
                    let t = const_program(&[(*k, *e)], *form);
                    let o = run(&t);
                    if matches!(o.end, End::Normal) {
                        aseg.extend(segments(&o.stdout_str()));
                    } else {
                        aseg.insert(*k, format!("<{}>", o.end.class()));
                    }
                }
            }
            for (k, e) in &ok {
                n += 1;
                let a = aseg.get(k).cloned().unwrap_or_default();
                let b = bseg.get(k).cloned().unwrap_or_default();
                if a == b {
                    *acc.hist.entry(format!("agree:{}-form{}", form_name, form)).or_insert(0) += 1;
                } else {
                    let class = if a.starts_with('<') { format!("const-form-rejected|{}", a.trim_matches(|c| c == '<' || c == '>')) } else { "output".to_string() };
                    acc.bad(
                        g,
                        &format!("form{}|{}", form, class),
                        format!("CONST c = {} : probes print {:?}; the inlined form prints {:?} ({} level, form {})", e.text, a, b, form_name, form),
                        const_program(&[(*k, *e)], *form),
                        exprs[*k].1.clone(),
                    );
                }
            }
            // 3. expressions whose evaluation fails at run time must be rejected by the checker, with the same error
            for (k, e) in valid.iter().filter(|(k, _)| !first_line_ok(*k)) {
                if *form == 1 && e.chain.is_none() {
                    continue;
                }
                n += 1;
                let b = bseg.get(k).cloned().unwrap_or_default();
                let want = if b.starts_with("E 6 ") {
                    "Overflow"
                } else if b.starts_with("E 11 ") {
                    "DivisionByZero"
                } else {
                    acc.bad(g, "inlined-form-unexpected", format!("PRINT ({}) gives {:?}", e.text, b), inline_program(&[(*k, *e)], in_sub), exprs[*k].1.clone());
                    continue;
                };
                let t = const_program(&[(*k, *e)], *form);
                let o = run(&t);
                match lint_kind(&o.end) {
                    Some(kind) if kind == want => *acc.hist.entry(format!("agree:rejected-{}", want)).or_insert(0) += 1,
                    other => acc.bad(
                        g,
                        &format!("form{}|rejection|{}", form, want),
                        format!("PRINT ({}) raises {} at run time, but CONST c = {} ends with {} (lint kind {:?})", e.text, want, e.text, o.end.class(), other),
                        t,
                        exprs[*k].1.clone(),
                    ),
                }
            }
        }
    }
    // 4. ill-typed expressions are rejected in both forms
    for (k, (e, replay)) in exprs.iter().enumerate().filter(|(_, (e, _))| e.kind == Kind::Mismatch) {
        n += 1;
        let a = run(&const_program(&[(k, e)], 0));
        let b = run(&format!("PRINT ({})\n", e.text));
        match (lint_kind(&a.end), lint_kind(&b.end)) {
            // an expression may have several faults (e.g. an overflow inside an ill-typed sum): both
            // forms must be rejected, not necessarily for the same one
            (Some(x), Some(_)) => *acc.hist.entry(format!("agree:both-rejected-{}", x)).or_insert(0) += 1,
            (x, y) => acc.bad(g, "ill-typed", format!("ill-typed {}: CONST form {:?} / {}, inlined form {:?} / {}", e.text, x, a.end.class(), y, b.end.class()), format!("CONST C = {}\nPRINT C\n", e.text), replay.clone()),
        }
    }
    n
}

/// A global constant, a subprogram that redefines it, and a further constant defined from it.
fn shadow_case(idx: u64) -> (String, String, String) {
    const V: [&str; 6] = ["1", "2", "32767", "2.5", "\"a\"", "\"b\""];
    let mut i = idx;
    let g = V[(i % 6) as usize];
    i /= 6;
    let l = V[(i % 6) as usize];
    i /= 6;
    let c = V[(i % 6) as usize];
    let op = BINOPS[(i / 6) as usize % BINOPS.len()];
    let a = format!("CONST X = {}\nS\nPRINT X\nSUB S\nCONST X = {}\nCONST Y = X {} {}\nPRINT Y\nPRINT X\nEND SUB\n", g, l, op, c);
    let b = format!("S\nPRINT ({})\nSUB S\nPRINT (({}) {} {})\nPRINT ({})\nEND SUB\n", g, l, op, c, l);
    (a, b, format!("global X = {}, local X = {}, Y = X {} {}", g, l, op, c))
}

/// A module-level constant and, inside a subprogram, a variable with the same bare name and another kind of type
/// suffix (a parameter, a DIM, an implicit variable, an array — introduced before or after the constant is used):
/// the constant is still the constant. 80 cases.
const NEIGHBOUR_CASES: u64 = 80;
fn neighbour_case(idx: u64) -> (String, String, String) {
    // (constant's name, its literal, a use that shows value and type, a derived constant, neighbour names)
    let combos: [(&str, &str, &str, &str, &str, &str); 5] = [
        ("K", "40", "PRINT K; K * 2; K / 3", "CONST H = K / 2", "K$", "\"nb\""),
        ("K%", "40", "PRINT K%; K% * 2; K% / 3", "CONST H = K% / 2", "K$", "\"nb\""),
        ("K$", "\"report\"", "PRINT K$; K$ + \"!\"; LEN(K$)", "CONST H = LEN(K$ + \"?\")", "K", "5"),
        ("K$", "\"report\"", "PRINT K$; K$ + \"!\"; LEN(K$)", "CONST H = LEN(K$ + \"?\")", "K%", "5"),
        ("K$", "\"report\"", "PRINT K$; K$ + \"!\"; LEN(K$)", "CONST H = LEN(K$ + \"?\")", "K#", "5"),
    ];
    let mut i = idx;
    let (cname, lit, use_, derived, nb, nbval) = combos[(i % 5) as usize];
    i /= 5;
    let form = (i % 4) as usize;
    i /= 4;
    let in_function = i % 2 == 1;
    let after = (i / 2) % 2 == 1;
    let (intro, read) = match form {
        0 => (String::new(), format!("PRINT {}", nb)),
        1 => (format!("DIM {}\n{} = {}\n", nb, nb, nbval), format!("PRINT {}", nb)),
        2 => (format!("{} = {}\n", nb, nbval), format!("PRINT {}", nb)),
        _ => (format!("DIM {}(2)\n{}(1) = {}\n", nb, nb, nbval), format!("PRINT {}(1)", nb)),
    };
    let param = if form == 0 { nb.to_string() } else { "P".to_string() };
    let arg = if form == 0 { nbval.to_string() } else { "7".to_string() };
    let build = |inline: bool| -> String {
        let sub_in_parens = |t: &str| -> String { if inline { t.replace(cname, &format!("({})", lit)) } else { t.to_string() } };
        let mut body = String::new();
        if !after {
            body.push_str(&intro);
        }
        body.push_str(&sub_in_parens(use_));
        body.push('\n');
        body.push_str(&sub_in_parens(derived));
        body.push_str("\nPRINT H\n");
        if after {
            body.push_str(&intro);
        }
        body.push_str(&read);
        body.push('\n');
        let head = format!("CONST {} = {}\n{}\n", cname, lit, sub_in_parens(use_));
        if in_function {
            format!("{}X = F({})\n{}\nEND\nFUNCTION F ({})\n{}F = 1\nEND FUNCTION\n", head, arg, sub_in_parens(use_), param, body)
        } else {
            format!("{}S {}\n{}\nEND\nSUB S ({})\n{}END SUB\n", head, arg, sub_in_parens(use_), param, body)
        }
    };
    // the inlined form must not rewrite the CONST line itself
    let a = build(false);
    let b = build(true).replacen(&format!("CONST ({}) = {}", lit, lit), &format!("CONST {} = {}", cname, lit), 1);
    (a, b, format!("constant {} = {}, in a {} the {} {} {}", cname, lit, if in_function { "FUNCTION" } else { "SUB" }, ["parameter", "variable declared by DIM", "implicit variable", "array"][form], nb, if form == 0 { "" } else if after { "(introduced after the constant is used)" } else { "(introduced before the constant is used)" }))
}

pub fn worker(case: &Value) -> Value {
    let g = case["g"].as_str().unwrap_or("");
    let quick = case["quick"].as_bool().unwrap_or(true);
    let space = Space::new(quick);
    let lo = case["lo"].as_u64().unwrap_or(0);
    let hi = case["hi"].as_u64().unwrap_or(0);
    let mut acc = Acc { hist: BTreeMap::new(), bads: vec![] };
    let mut n = 0u64;
    let mut sample = Value::Null;
    if g == "suffix" {
        // CONST c<suffix> = e against v<suffix> = e (conversion to the suffix type), referenced with and without suffix
        const SUFFIXES: [&str; 5] = ["%", "&", "!", "#", "$"];
        let t1 = space.total("depth1");
        for idx in lo..hi {
            let sfx = SUFFIXES[(idx / t1) as usize % 5];
            let Some(e) = space.expr("depth1", idx % t1) else { continue };
            n += 1;
            let replay = json!({"g": g, "quick": quick, "lo": idx, "hi": idx + 1});
            let target_is_str = sfx == "$";
            let compatible = match e.kind {
                Kind::Num => !target_is_str,
                Kind::Str => target_is_str,
                Kind::Mismatch => false,
            };
            let pk = if target_is_str { Kind::Str } else { Kind::Num };
            let a = format!("{}ON ERROR GOTO Trap\nCONST C{} = {}\n{}{}{}", HEAD, sfx, e.text, probes(0, &format!("C{}", sfx), pk), probes(1, "C", pk), TRAP);
            let b = format!("{}ON ERROR GOTO Trap\nPRINT \"#9\"\nV{} = {}\n{}{}{}", HEAD, sfx, e.text, probes(0, &format!("V{}", sfx), pk), probes(1, &format!("V{}", sfx), pk), TRAP);
            let oa = run(&a);
            let ob = run(&b);
            if !compatible {
                match (lint_kind(&oa.end), lint_kind(&ob.end)) {
                    (Some(_), Some(_)) => *acc.hist.entry("agree:suffix-both-rejected".into()).or_insert(0) += 1,
                    (x, y) => acc.bad(g, "ill-typed", format!("CONST C{} = {}: {:?} / {}; V{} = {}: {:?} / {}", sfx, e.text, x, oa.end.class(), sfx, e.text, y, ob.end.class()), a, replay),
                }
                continue;
            }
            let bseg = segments(&ob.stdout_str());
            let assignment_error = bseg.get(&9).cloned().unwrap_or_default();
            if !matches!(ob.end, End::Normal) {
                acc.bad(g, "assignment-form-unexpected", format!("V{} = {} ends with {}", sfx, e.text, ob.end.class()), b, replay);
                continue;
            }
            if assignment_error.starts_with('E') {
                let want = if assignment_error.starts_with("E 6 ") { "Overflow" } else if assignment_error.starts_with("E 11 ") { "DivisionByZero" } else { "?" };
                match lint_kind(&oa.end) {
                    Some(k) if k == want => *acc.hist.entry(format!("agree:suffix-rejected-{}", want)).or_insert(0) += 1,
                    other => acc.bad(g, &format!("rejection|{}", want), format!("V{} = {} raises {:?} at run time, CONST C{} = {} ends with {} ({:?})", sfx, e.text, assignment_error, sfx, e.text, oa.end.class(), other), a, replay),
                }
                continue;
            }
            let aseg = segments(&oa.stdout_str());
            if matches!(oa.end, End::Normal) && aseg.get(&0) == bseg.get(&0) && aseg.get(&1) == bseg.get(&1) {
                *acc.hist.entry("agree:suffix".into()).or_insert(0) += 1;
            } else {
                acc.bad(g, &format!("output|{}", sfx), format!("CONST C{} = {} probes {:?} / {}; V{} = {} probes {:?}", sfx, e.text, aseg, oa.end.class(), sfx, e.text, bseg), a, replay);
            }
        }
        return json!({"n": n, "nontrivial": n, "hist": acc.hist, "bad": acc.bads, "sample": sample});
    }
    if g == "shadow" || g == "neighbour" {
        for idx in lo..hi {
            let (a, b, label) = if g == "shadow" { shadow_case(idx) } else { neighbour_case(idx) };
            let oa = run(&a);
            let ob = run(&b);
            n += 1;
            let same = match (&oa.end, &ob.end) {
                (End::Normal, End::Normal) => oa.stdout == ob.stdout,
                (End::LintError { kind: x, .. }, End::LintError { kind: y, .. }) => x == y,
                (End::LintError { kind, .. }, End::RuntimeError { code, .. }) => (kind == "Overflow" && *code == Some(6)) || (kind == "DivisionByZero" && *code == Some(11)),
                _ => false,
            };
            if same {
                *acc.hist.entry("agree:shadow".into()).or_insert(0) += 1;
            } else {
                acc.bad(
                    g,
                    g,
                    format!("{}: CONST form prints {:?} / {}, inlined form prints {:?} / {}", label, oa.stdout_str(), oa.end.class(), ob.stdout_str(), ob.end.class()),
                    a,
                    json!({"g": g, "quick": quick, "lo": idx, "hi": idx + 1}),
                );
            }
        }
        return json!({"n": n, "nontrivial": n, "hist": acc.hist, "bad": acc.bads, "sample": sample});
    }
    let mut batch: Vec<(Expr, Value)> = vec![];
    for idx in lo..hi {
        if let Some(e) = space.expr(g, idx) {
            batch.push((e, json!({"g": g, "quick": quick, "lo": idx, "hi": idx + 1})));
        }
    }
    if let Some((e, _)) = batch.first() {
        sample = json!({"group": g, "expression": e.text, "const_form": const_program(&[(0, e)], 0), "inlined_form": inline_program(&[(0, e)], false)});
    }
    for chunk in batch.chunks(40) {
        n += judge(g, chunk, &mut acc);
    }
    json!({"n": n, "nontrivial": n, "hist": acc.hist, "bad": acc.bads, "sample": sample})
}

pub fn drive(tier: &str) -> i32 {
    let quick = tier == "quick";
    let mut run = Run::new("C14", tier);
    run.crash_is_violation = true;
    let mut pool = Pool::new("C14");
    pool.timeout_ms = 120_000;
    let space = Space::new(quick);
    let mut cases = vec![];
    let mut plan = vec![];
    for g in ["shadow", "neighbour", "close", "suffix", "depth1", "depth2"] {
        let t = space.total(g);
        let chunk = 200;
        let mut lo = 0;
        while lo < t {
            cases.push(json!({"g": g, "quick": quick, "lo": lo, "hi": (lo + chunk).min(t)}));
            lo += chunk;
        }
        plan.push(json!({"group": g, "expressions": t}));
    }
    let total_cases = cases.len();
    let cap = run.wall_cap_s;
    let t0 = run.reporter.start;
    let it = cases.into_iter().take_while(|_| t0.elapsed().as_secs_f64() < cap);
    run.run_pool(&pool, it, |_, _, _, _| {});
    if (run.cases as usize) < total_cases {
        run.capped = true;
    }
    let mut ev = Evidence::new("exploration");
    ev.set("rule", "depth1: every literal, every unary operator on every literal and every binary operator (+ - * / MOD AND OR < <= = >= > <>) on every ordered pair of 20 operands of all five types (literals incl. 32767, 32768, 2147483647, 65536, 12345678.5#, empty string, and two named constants LO% = -32768 and LL& = -2147483648, the values no literal of their type can denote). depth2: every (a op1 b) op2 c, c op2 (a op1 b) and unary (a op1 b) over the first 5 (thorough 9) literals. For each expression e: PRINT (e) and typed probes ((e) / 3, (e) + 32767, (e) * 65536, (e) - 32767, (e) + (e), LEN, + \"z\") are evaluated by the VM under an error trap; CONST c = e (plain, chained through an earlier constant, and inside a SUB) must make the same probes print the same lines; if evaluating (e) raises Overflow or Division by zero the CONST form must be rejected by the checker with that error, and ill-typed expressions must be rejected in both forms with the same error. close: every binary operator on 8 pairs of SINGLE / DOUBLE literals closer together than 0.00001 (one pair further apart), in both orders. suffix: CONST c<suffix> = e for every depth-1 expression and each of the five suffixes, referenced with and without the suffix, against v<suffix> = e (conversion to the suffix type; Overflow at the conversion must be a rejection). shadow: a global CONST X, a SUB redefining X and defining Y = X op c, against the inlined form. neighbour: a module-level constant (K, K%, K$) and, in a SUB / FUNCTION, a variable of the same bare name with another kind of suffix (parameter, DIM, implicit, array; introduced before or after the constant is used): the uses of the constant and a constant derived from it print what the inlined form prints (80 cases).");
    ev.set("exhaustive", !run.capped);
    ev.set("plan", json!(plan));
    ev.set("distinct_nontrivial", run.nontrivial);
    ev.assume("metamorphic: the implementation's own run-time evaluation is the oracle for its constant folder; no reference semantics involved");
    run.finish(ev)
}
