//! Thin binding to the repository's crates: run the real four-stage pipeline on a text
//! and report an `Outcome`. Every stage runs under `catch_unwind`.

use std::cell::RefCell;
use std::collections::{BTreeMap, HashMap};
use std::panic::{AssertUnwindSafe, catch_unwind};
use std::sync::{Arc, Mutex};

use rusty_basic::RuntimeErrorPos;
use rusty_basic::instruction_generator::{
    InstructionGeneratorResult, generate_instructions, unwrap_linter_context,
};
use rusty_basic::interpreter::verif::{Monitor, RunConfig, run_in_memory};
use rusty_common::HasPos;
use rusty_linter::core::{LintErrorPos, LinterContext, lint};
use rusty_parser::{ParseErrorPos, Program, UserDefinedTypes, parse_main_str};
use vcore::{End, MonSummary, Outcome, latin1};

thread_local! {
    static LAST_PANIC: RefCell<Option<(String, String)>> = const { RefCell::new(None) };
}

/// Installs a panic hook that records (file, message) instead of printing.
pub fn install_panic_hook() {
    std::panic::set_hook(Box::new(|info| {
        let file = info
            .location()
            .map(|l| {
                let f = l.file();
                // keep the path relative to the repository
                match f.find("rusty_") {
                    Some(i) => f[i..].to_string(),
                    None => f.to_string(),
                }
            })
            .unwrap_or_default();
        let msg = if let Some(s) = info.payload().downcast_ref::<&str>() {
            s.to_string()
        } else if let Some(s) = info.payload().downcast_ref::<String>() {
            s.clone()
        } else {
            "<non-string panic payload>".to_string()
        };
        LAST_PANIC.with(|p| *p.borrow_mut() = Some((file, msg)));
    }));
}

pub fn take_panic() -> (String, String) {
    LAST_PANIC
        .with(|p| p.borrow_mut().take())
        .unwrap_or_else(|| ("?".into(), "?".into()))
}

fn panic_end(stage: &str) -> End {
    let (file, msg) = take_panic();
    End::Panic {
        stage: stage.to_string(),
        file,
        msg,
    }
}

#[derive(Clone, Copy, PartialEq, Eq, Debug)]
pub enum Stage {
    Parse,
    Lint,
    Generate,
    Run,
}

#[derive(Clone, Debug)]
pub struct RunOpts {
    pub stage: Stage,
    pub stdin: Vec<u8>,
    pub env: Vec<(String, String)>,
    pub budget: u64,
    pub record_statement_depths: bool,
    pub record_all_depths: bool,
    pub trace_cap: usize,
    pub check_types: bool,
    /// Files created in the (emptied) scratch directory before the run.
    pub files_in: Vec<(String, Vec<u8>)>,
    /// Collect the content of every file in the scratch directory after the run.
    pub collect_files: bool,
}

impl Default for RunOpts {
    fn default() -> Self {
        Self {
            stage: Stage::Run,
            stdin: vec![],
            env: vec![],
            budget: 2_000_000,
            record_statement_depths: false,
            record_all_depths: false,
            trace_cap: 4096,
            check_types: false,
            files_in: vec![],
            collect_files: false,
        }
    }
}

pub fn parse_err_end(e: &ParseErrorPos) -> End {
    End::ParseError {
        kind: variant_name(&format!("{:?}", e.element)),
        row: e.pos().row(),
        col: e.pos().col(),
    }
}

pub fn lint_err_end(e: &LintErrorPos) -> End {
    End::LintError {
        kind: variant_name(&format!("{:?}", e.element)),
        row: e.pos().row(),
        col: e.pos().col(),
    }
}

/// `SyntaxError("...")` -> `SyntaxError`
pub fn variant_name(debug: &str) -> String {
    debug
        .split(|c: char| !(c.is_alphanumeric() || c == '_'))
        .next()
        .unwrap_or("")
        .to_string()
}

pub fn runtime_err_end(e: &RuntimeErrorPos) -> End {
    let kind = variant_name(&format!("{:?}", e.err()));
    // get_code panics for some variants (that is itself an observation made elsewhere)
    let code = catch_unwind(AssertUnwindSafe(|| e.err().get_code())).ok();
    if code.is_none() {
        take_panic();
    }
    End::RuntimeError {
        kind,
        code,
        rows: e.verif_positions().iter().map(|p| p.row()).collect(),
        cols: e.verif_positions().iter().map(|p| p.col()).collect(),
    }
}

pub fn try_parse(text: &str) -> Result<Result<Program, ParseErrorPos>, End> {
    catch_unwind(AssertUnwindSafe(|| parse_main_str(text.to_string()))).map_err(|_| panic_end("parse"))
}

pub fn try_lint(program: Program) -> Result<Result<(Program, LinterContext), LintErrorPos>, End> {
    catch_unwind(AssertUnwindSafe(|| lint(program))).map_err(|_| panic_end("lint"))
}

pub fn try_generate(
    program: Program,
    ctx: LinterContext,
) -> Result<(InstructionGeneratorResult, UserDefinedTypes), End> {
    catch_unwind(AssertUnwindSafe(|| {
        let (names, types) = unwrap_linter_context(ctx);
        (generate_instructions(program, names), types)
    }))
    .map_err(|_| panic_end("generate"))
}

/// Everything up to code generation. `Err(outcome)` if the text is rejected or a stage panics.
pub fn front_end(text: &str) -> Result<(InstructionGeneratorResult, UserDefinedTypes), End> {
    let program = match try_parse(text)? {
        Ok(p) => p,
        Err(e) => return Err(parse_err_end(&e)),
    };
    let (program, ctx) = match try_lint(program)? {
        Ok(x) => x,
        Err(e) => return Err(lint_err_end(&e)),
    };
    try_generate(program, ctx)
}

pub fn clean_scratch() {
    if let Ok(rd) = std::fs::read_dir(".") {
        for entry in rd.flatten() {
            let p = entry.path();
            if p.is_dir() {
                let _ = std::fs::remove_dir_all(&p);
            } else {
                let _ = std::fs::remove_file(&p);
            }
        }
    }
}

pub fn collect_scratch() -> BTreeMap<String, String> {
    let mut out = BTreeMap::new();
    if let Ok(rd) = std::fs::read_dir(".") {
        for entry in rd.flatten() {
            let p = entry.path();
            if p.is_file()
                && let Ok(bytes) = std::fs::read(&p)
            {
                out.insert(entry.file_name().to_string_lossy().to_string(), latin1(&bytes));
            }
        }
    }
    out
}

pub fn run_generated(
    igr: InstructionGeneratorResult,
    types: UserDefinedTypes,
    opts: &RunOpts,
) -> Outcome {
    if opts.collect_files || !opts.files_in.is_empty() {
        clean_scratch();
        for (name, bytes) in &opts.files_in {
            let _ = std::fs::write(name, bytes);
        }
    }
    let stdout = Arc::new(Mutex::new(Vec::new()));
    let lpt1 = Arc::new(Mutex::new(Vec::new()));
    let monitor = Arc::new(Mutex::new(Monitor::default()));
    let config = RunConfig {
        stdin: opts.stdin.clone(),
        env: opts.env.iter().cloned().collect::<HashMap<_, _>>(),
        budget: opts.budget,
        record_statement_depths: opts.record_statement_depths,
        record_all_depths: opts.record_all_depths,
        trace_cap: opts.trace_cap,
        check_types: opts.check_types,
    };
    let result = {
        let (o, l, m) = (Arc::clone(&stdout), Arc::clone(&lpt1), Arc::clone(&monitor));
        catch_unwind(AssertUnwindSafe(move || run_in_memory(igr, types, config, o, l, m)))
    };
    // a panic while a lock is held poisons it; the data is still what we want
    let mon = match monitor.lock() {
        Ok(g) => g.clone(),
        Err(p) => p.into_inner().clone(),
    };
    let end = match result {
        Err(_) => panic_end("run"),
        Ok(Ok(())) => {
            if mon.budget_exhausted {
                End::Budget
            } else {
                End::Normal
            }
        }
        Ok(Err(e)) => runtime_err_end(&e),
    };
    let take = |b: &Arc<Mutex<Vec<u8>>>| match b.lock() {
        Ok(g) => g.clone(),
        Err(p) => p.into_inner().clone(),
    };
    let files = if opts.collect_files {
        collect_scratch()
    } else {
        BTreeMap::new()
    };
    Outcome {
        stdout: take(&stdout),
        lpt1: take(&lpt1),
        files,
        end,
        mon: Some(MonSummary {
            instructions: mon.instructions,
            type_violation: mon.type_violation.clone(),
            type_checks: mon.type_checks,
            max_depths: mon.max_depths,
            trace: mon
                .trace
                .iter()
                .map(|r| {
                    [
                        r.pc,
                        r.value_stack,
                        r.register_stack,
                        r.var_path_stack,
                        r.by_ref_stack,
                        r.context_states,
                        r.top_state_collects_arguments as usize,
                        r.memory_blocks,
                        r.return_address_stack,
                        r.go_sub_address_stack,
                        r.stacktrace,
                        r.function_result_pending as usize,
                    ]
                })
                .collect(),
            trace_truncated: mon.trace_truncated,
            final_globals: mon.final_globals.clone(),
        }),
    }
}

/// Runs the whole pipeline on a text.
pub fn run_pipeline(text: &str, opts: &RunOpts) -> Outcome {
    run_pipeline_with_tree(text, opts, &mut None)
}

/// Like `run_pipeline`; if `tree` is `Some`, the Debug rendering of the parse tree is stored there.
pub fn run_pipeline_with_tree(text: &str, opts: &RunOpts, tree: &mut Option<String>) -> Outcome {
    let program = match try_parse(text) {
        Err(end) => {
            *tree = None;
            return Outcome::new(end);
        }
        Ok(Err(e)) => {
            *tree = None;
            return Outcome::new(parse_err_end(&e));
        }
        Ok(Ok(p)) => p,
    };
    if tree.is_some() {
        *tree = Some(format!("{:?}", program));
    }
    if opts.stage == Stage::Parse {
        return Outcome::new(End::Normal);
    }
    let (program, ctx) = match try_lint(program) {
        Err(end) => return Outcome::new(end),
        Ok(Err(e)) => return Outcome::new(lint_err_end(&e)),
        Ok(Ok(x)) => x,
    };
    if opts.stage == Stage::Lint {
        return Outcome::new(End::Normal);
    }
    let (igr, types) = match try_generate(program, ctx) {
        Err(end) => return Outcome::new(end),
        Ok(x) => x,
    };
    if opts.stage == Stage::Generate {
        return Outcome::new(End::Normal);
    }
    run_generated(igr, types, opts)
}
