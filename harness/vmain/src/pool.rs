//! Crash-isolating worker pool: every case runs in a child process on its main
//! thread (8 MiB stack like the real binary). A child that dies or does not
//! answer within the watchdog period is an *observation* (Crash / Hang), the
//! child is respawned and the search continues.

use std::io::{BufRead, BufReader, Write};
use std::os::unix::process::ExitStatusExt;
use std::process::{Child, ChildStdin, ChildStdout, Command, Stdio};
use std::sync::atomic::{AtomicBool, AtomicI32, AtomicU64, Ordering};
use std::sync::mpsc::sync_channel;
use std::sync::{Arc, Mutex};
use std::time::{Duration, Instant};

use serde_json::Value;

pub enum Resp {
    Ok(Value),
    Crash(i32),
    Hang,
}

pub struct Pool {
    pub workers: usize,
    pub prop: String,
    pub timeout_ms: u64,
    pub mem_kb: u64,
}

struct Slot {
    pid: AtomicI32,
    started_ms: AtomicU64,
    killed: AtomicBool,
}

struct Worker {
    child: Child,
    stdin: ChildStdin,
    stdout: BufReader<ChildStdout>,
}

fn spawn_worker(prop: &str, mem_kb: u64) -> Worker {
    let exe = std::env::current_exe().expect("current_exe");
    let script = format!(
        "ulimit -v {} 2>/dev/null; ulimit -s 8192 2>/dev/null; exec \"$0\" --worker \"$1\"",
        mem_kb
    );
    let mut child = Command::new("sh")
        .arg("-c")
        .arg(script)
        .arg(exe)
        .arg(prop)
        .stdin(Stdio::piped())
        .stdout(Stdio::piped())
        .stderr(Stdio::inherit())
        .spawn()
        .expect("cannot spawn worker");
    let stdin = child.stdin.take().unwrap();
    let stdout = BufReader::new(child.stdout.take().unwrap());
    Worker {
        child,
        stdin,
        stdout,
    }
}

impl Pool {
    pub fn new(prop: &str) -> Self {
        let workers = std::env::var("VERIF_WORKERS")
            .ok()
            .and_then(|s| s.parse().ok())
            .unwrap_or_else(|| {
                std::thread::available_parallelism()
                    .map(|n| n.get())
                    .unwrap_or(4)
                    .min(16)
            });
        Self {
            workers,
            prop: prop.to_string(),
            timeout_ms: 10_000,
            mem_kb: 6 * 1024 * 1024,
        }
    }

    /// Runs every case of the iterator on the pool. `on_result` is called on the
    /// calling thread with (index in the enumeration, case, response), in completion order.
    pub fn run<I, F>(&self, cases: I, mut on_result: F)
    where
        I: Iterator<Item = Value> + Send,
        F: FnMut(u64, Value, Resp),
    {
        let epoch = Instant::now();
        let queue = Mutex::new((cases, 0u64));
        let slots: Vec<Arc<Slot>> = (0..self.workers)
            .map(|_| {
                Arc::new(Slot {
                    pid: AtomicI32::new(0),
                    started_ms: AtomicU64::new(0),
                    killed: AtomicBool::new(false),
                })
            })
            .collect();
        let done = Arc::new(AtomicBool::new(false));
        let (tx, rx) = sync_channel::<(u64, Value, Resp)>(4096);
        std::thread::scope(|scope| {
            // watchdog
            {
                let slots = slots.clone();
                let done = Arc::clone(&done);
                let timeout_ms = self.timeout_ms;
                scope.spawn(move || {
                    while !done.load(Ordering::Relaxed) {
                        std::thread::sleep(Duration::from_millis(100));
                        let now = epoch.elapsed().as_millis() as u64;
                        for s in &slots {
                            let st = s.started_ms.load(Ordering::Relaxed);
                            if st != 0 && now > st + timeout_ms {
                                let pid = s.pid.load(Ordering::Relaxed);
                                if pid > 0 && !s.killed.swap(true, Ordering::Relaxed) {
                                    unsafe {
                                        libc::kill(pid, libc::SIGKILL);
                                    }
                                }
                            }
                        }
                    }
                });
            }
            let mut handles = vec![];
            for slot in slots.iter().cloned() {
                let tx = tx.clone();
                let queue = &queue;
                let prop = self.prop.clone();
                let mem_kb = self.mem_kb;
                handles.push(scope.spawn(move || {
                    let mut w = spawn_worker(&prop, mem_kb);
                    slot.pid.store(w.child.id() as i32, Ordering::Relaxed);
                    loop {
                        let next = {
                            let mut q = queue.lock().unwrap();
                            let item = q.0.next();
                            item.map(|c| {
                                let i = q.1;
                                q.1 += 1;
                                (i, c)
                            })
                        };
                        let Some((idx, case)) = next else { break };
                        let mut line = serde_json::to_string(&case).unwrap();
                        line.push('\n');
                        slot.killed.store(false, Ordering::Relaxed);
                        slot.started_ms
                            .store(epoch.elapsed().as_millis() as u64 + 1, Ordering::Relaxed);
                        let write_ok =
                            w.stdin.write_all(line.as_bytes()).is_ok() && w.stdin.flush().is_ok();
                        let mut answer = String::new();
                        let read_ok = write_ok
                            && matches!(w.stdout.read_line(&mut answer), Ok(n) if n > 0)
                            && answer.ends_with('\n');
                        slot.started_ms.store(0, Ordering::Relaxed);
                        let resp = if read_ok {
                            match serde_json::from_str::<Value>(&answer) {
                                Ok(v) => Resp::Ok(v),
                                Err(_) => Resp::Crash(-2),
                            }
                        } else {
                            // the child died (or was killed by the watchdog)
                            let _ = w.child.kill();
                            let status = w.child.wait().ok();
                            let resp = if slot.killed.load(Ordering::Relaxed) {
                                Resp::Hang
                            } else {
                                Resp::Crash(
                                    status
                                        .and_then(|s| s.signal().or(s.code().map(|c| 1000 + c)))
                                        .unwrap_or(-1),
                                )
                            };
                            w = spawn_worker(&prop, mem_kb);
                            slot.pid.store(w.child.id() as i32, Ordering::Relaxed);
                            resp
                        };
                        if tx.send((idx, case, resp)).is_err() {
                            break;
                        }
                    }
                    slot.pid.store(0, Ordering::Relaxed);
                    drop(w.stdin);
                    let _ = w.child.wait();
                }));
            }
            drop(tx);
            for (idx, case, resp) in rx {
                on_result(idx, case, resp);
            }
            for h in handles {
                let _ = h.join();
            }
            done.store(true, Ordering::Relaxed);
        });
    }
}
