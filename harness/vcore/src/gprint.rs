//! Prints a `Prog` as BASIC text under a `Layout` and returns, next to the text, the
//! position map statement id -> (row, first column, last column).

use std::collections::BTreeMap;

use crate::gast::*;

#[derive(Clone, Copy, Debug, PartialEq, Eq)]
pub enum Case {
    Upper,
    Lower,
    Alternating,
    AsIs,
}

#[derive(Clone, Debug)]
pub struct Layout {
    pub kw_case: Case,
    pub id_case: Case,
    pub indent: usize,
    pub eol: &'static str,
    /// the blank used between tokens
    pub blank: &'static str,
    /// insert an empty line before every statement line
    pub blank_lines: bool,
    /// append a comment to every statement line
    pub trailing_comments: bool,
    /// join consecutive simple statements with a colon instead of a line end
    pub colon_join: bool,
    /// write every loop / SELECT CASE whose bodies hold only simple statements and such loops on
    /// ONE source line (`FOR I = 1 TO 2: FOR J = 1 TO 3: PRINT I; J: NEXT: NEXT`), so that nested
    /// constructs share their row
    pub one_line_blocks: bool,
    /// write assignments with the keyword LET and SUB calls as `CALL Name(arguments)`
    pub let_and_call: bool,
}

impl Default for Layout {
    fn default() -> Self {
        Layout {
            kw_case: Case::Upper,
            id_case: Case::AsIs,
            indent: 2,
            eol: "\n",
            blank: " ",
            blank_lines: false,
            trailing_comments: false,
            colon_join: false,
            one_line_blocks: false,
            let_and_call: false,
        }
    }
}

/// Can the statement be written on one source line together with its neighbours?
pub fn inlineable(s: &Stmt) -> bool {
    match &s.k {
        K::If { .. } | K::Label(_) | K::Comment(_) | K::Data(_) => false,
        // `Name: ` in the middle of a line reads like a label
        K::Call(_, args) if args.is_empty() => false,
        K::For { body, .. } | K::While(_, body) | K::Do(_, _, body) => body.iter().all(inlineable),
        K::Select { cases, els, .. } => cases.iter().all(|(_, b)| b.iter().all(inlineable)) && els.as_ref().map(|b| b.iter().all(inlineable)).unwrap_or(true),
        _ => true,
    }
}

#[derive(Clone, Copy, Debug, PartialEq, Eq)]
pub struct Pos {
    pub row: u32,
    pub col_first: u32,
    pub col_last: u32,
}

pub struct Printed {
    pub text: String,
    pub pos: BTreeMap<Id, Pos>,
}

fn recase(s: &str, c: Case) -> String {
    match c {
        Case::Upper => s.to_ascii_uppercase(),
        Case::Lower => s.to_ascii_lowercase(),
        Case::AsIs => s.to_string(),
        Case::Alternating => s
            .chars()
            .enumerate()
            .map(|(i, ch)| if i % 2 == 0 { ch.to_ascii_uppercase() } else { ch.to_ascii_lowercase() })
            .collect(),
    }
}

struct P<'a> {
    l: &'a Layout,
    out: String,
    row: u32,
    col: u32,
    pos: BTreeMap<Id, Pos>,
    depth: usize,
    /// the previous thing on the current line was a simple statement (for colon joining)
    line_open: bool,
    /// > 0 while a block statement is being written on one line (Layout::one_line_blocks)
    inline: usize,
}

impl<'a> P<'a> {
    fn kw(&self, s: &str) -> String {
        // multi-word keywords keep their inner blank as the layout's blank
        recase(s, self.l.kw_case).replace(' ', self.l.blank)
    }

    fn id(&self, s: &str) -> String {
        recase(s, self.l.id_case)
    }

    fn push(&mut self, s: &str) {
        for ch in s.chars() {
            self.out.push(ch);
            self.col += 1;
        }
    }

    fn newline(&mut self) {
        if self.l.trailing_comments && self.line_has_statement() {
            let b = self.l.blank.to_string();
            self.push(&b);
            self.push("' c");
        }
        self.out.push_str(self.l.eol);
        self.row += 1;
        self.col = 1;
        self.line_open = false;
    }

    fn line_has_statement(&self) -> bool {
        self.col > 1
            && !self
                .out
                .rsplit(|c| c == '\n' || c == '\r')
                .next()
                .map(|l| l.trim().is_empty())
                .unwrap_or(true)
    }

    /// Starts a statement: either on a fresh line or joined to the previous simple statement.
    fn begin(&mut self, id: Id, simple: bool) -> u32 {
        if (self.line_open && simple && self.l.colon_join) || (self.inline > 0 && self.col > 1) {
            self.push(":");
            let b = self.l.blank.to_string();
            self.push(&b);
        } else {
            if self.col > 1 {
                self.newline();
            }
            if self.l.blank_lines {
                self.out.push_str(self.l.eol);
                self.row += 1;
            }
            let ind = " ".repeat(self.depth * self.l.indent);
            self.push(&ind);
        }
        let start = self.col;
        self.pos.insert(
            id,
            Pos {
                row: self.row,
                col_first: start,
                col_last: start,
            },
        );
        start
    }

    fn end(&mut self, id: Id, simple: bool) {
        let last = self.col.saturating_sub(1).max(1);
        if let Some(p) = self.pos.get_mut(&id) {
            // only the first line of a block statement counts as "the statement's text"
            if p.row == self.row {
                p.col_last = last;
            }
        }
        self.line_open = simple;
    }

    fn expr(&self, e: &Expr) -> String {
        let b = self.l.blank;
        match e {
            Expr::Num(t) => t.clone(),
            Expr::Str(s) => format!("\"{}\"", s),
            Expr::Var(n) => self.id(n),
            Expr::Index(n, idx) => format!(
                "{}({})",
                self.id(n),
                idx.iter().map(|x| self.expr(x)).collect::<Vec<_>>().join(&format!(",{}", b))
            ),
            Expr::Field(base, f) => format!("{}.{}", self.expr(base), self.id(f)),
            Expr::Bin(op, l, r) => {
                let o = if op.text().chars().all(|c| c.is_ascii_alphabetic()) {
                    self.kw(op.text())
                } else {
                    op.text().to_string()
                };
                format!("{}{}{}{}{}", self.expr(l), b, o, b, self.expr(r))
            }
            Expr::Neg(x) => format!("-{}", self.expr(x)),
            Expr::Not(x) => format!("{}{}{}", self.kw("NOT"), b, self.expr(x)),
            Expr::Paren(x) => format!("({})", self.expr(x)),
            Expr::Call(n, args) => {
                if args.is_empty() {
                    self.id(n)
                } else {
                    format!(
                        "{}({})",
                        self.id(n),
                        args.iter().map(|x| self.expr(x)).collect::<Vec<_>>().join(&format!(",{}", b))
                    )
                }
            }
            Expr::Builtin(n, args) => {
                if args.is_empty() {
                    self.kw(n)
                } else {
                    format!(
                        "{}({})",
                        self.kw(n),
                        args.iter().map(|x| self.expr(x)).collect::<Vec<_>>().join(&format!(",{}", b))
                    )
                }
            }
        }
    }

    fn decl_ty(&self, t: &DeclTy) -> String {
        match t {
            DeclTy::Scalar(t) => self.kw(t.keyword()),
            DeclTy::FixStr(n) => format!("{}{}*{}{}", self.kw("STRING"), self.l.blank, self.l.blank, n),
            DeclTy::Rec(n) => self.id(n),
        }
    }

    fn params(&self, ps: &[Param]) -> String {
        let b = self.l.blank;
        ps.iter()
            .map(|p| {
                let mut s = self.id(&p.name);
                if p.is_array {
                    s.push_str("()");
                }
                if let Some(t) = &p.ty {
                    s.push_str(&format!("{}{}{}{}", b, self.kw("AS"), b, self.decl_ty(t)));
                }
                s
            })
            .collect::<Vec<_>>()
            .join(&format!(",{}", b))
    }

    fn is_simple(k: &K) -> bool {
        !matches!(
            k,
            K::If { .. }
                | K::Select { .. }
                | K::For { .. }
                | K::While(..)
                | K::Do(..)
                | K::Label(_)
                | K::Comment(_)
                | K::Data(_)
        )
    }

    /// The text of a simple statement (no line structure).
    fn simple_text(&self, k: &K) -> String {
        let b = self.l.blank;
        match k {
            K::Assign(l, r) => format!("{}{}{}={}{}", if self.l.let_and_call { format!("{}{}", self.kw("LET"), b) } else { String::new() }, self.expr(l), b, b, self.expr(r)),
            K::Print { dev, using, items } => {
                let mut s = match dev {
                    Dev::Screen => self.kw("PRINT"),
                    Dev::Lpt => self.kw("LPRINT"),
                    Dev::File(h) => format!("{}{}#{},", self.kw("PRINT"), b, h),
                };
                if let Some(u) = using {
                    s.push_str(&format!("{}{}{}{};", b, self.kw("USING"), b, self.expr(u)));
                }
                let mut first = true;
                for it in items {
                    match it {
                        PItem::E(e) => {
                            if first || !s.ends_with([';', ',']) || true {
                                s.push_str(b);
                            }
                            s.push_str(&self.expr(e));
                        }
                        PItem::Comma => s.push(','),
                        PItem::Semi => s.push(';'),
                    }
                    first = false;
                }
                s
            }
            K::Goto(l) => format!("{}{}{}", self.kw("GOTO"), b, self.id(l)),
            K::Gosub(l) => format!("{}{}{}", self.kw("GOSUB"), b, self.id(l)),
            K::Return(None) => self.kw("RETURN"),
            K::Return(Some(l)) => format!("{}{}{}", self.kw("RETURN"), b, self.id(l)),
            K::OnErrorGoto(l) => format!("{}{}{}", self.kw("ON ERROR GOTO"), b, self.id(l)),
            K::OnErrorGoto0 => format!("{}{}0", self.kw("ON ERROR GOTO"), b),
            K::OnErrorResumeNext => self.kw("ON ERROR RESUME NEXT"),
            K::Resume => self.kw("RESUME"),
            K::ResumeNext => self.kw("RESUME NEXT"),
            K::ResumeLabel(l) => format!("{}{}{}", self.kw("RESUME"), b, self.id(l)),
            K::Const(n, e) => format!("{}{}{}{}={}{}", self.kw("CONST"), b, self.id(n), b, b, self.expr(e)),
            K::Dim { shared, redim, vars } => {
                let mut s = self.kw(if *redim { "REDIM" } else { "DIM" });
                if *shared {
                    s.push_str(&format!("{}{}", b, self.kw("SHARED")));
                }
                let vs: Vec<String> = vars
                    .iter()
                    .map(|v| {
                        let mut t = self.id(&v.name);
                        if !v.dims.is_empty() {
                            let ds: Vec<String> = v
                                .dims
                                .iter()
                                .map(|(lo, hi)| match lo {
                                    Some(lo) => format!("{}{}{}{}{}", self.expr(lo), b, self.kw("TO"), b, self.expr(hi)),
                                    None => self.expr(hi),
                                })
                                .collect();
                            t.push_str(&format!("({})", ds.join(&format!(",{}", b))));
                        }
                        if let Some(ty) = &v.ty {
                            t.push_str(&format!("{}{}{}{}", b, self.kw("AS"), b, self.decl_ty(ty)));
                        }
                        t
                    })
                    .collect();
                format!("{}{}{}", s, b, vs.join(&format!(",{}", b)))
            }
            K::Call(n, args) if self.l.let_and_call => {
                if args.is_empty() {
                    format!("{}{}{}", self.kw("CALL"), b, self.id(n))
                } else {
                    format!("{}{}{}({})", self.kw("CALL"), b, self.id(n), args.iter().map(|x| self.expr(x)).collect::<Vec<_>>().join(&format!(",{}", b)))
                }
            }
            K::Call(n, args) => {
                if args.is_empty() {
                    self.id(n)
                } else {
                    format!(
                        "{}{}{}",
                        self.id(n),
                        b,
                        args.iter().map(|x| self.expr(x)).collect::<Vec<_>>().join(&format!(",{}", b))
                    )
                }
            }
            K::ExitSub => self.kw("EXIT SUB"),
            K::ExitFunction => self.kw("EXIT FUNCTION"),
            K::End => self.kw("END"),
            K::Read(vs) => format!(
                "{}{}{}",
                self.kw("READ"),
                b,
                vs.iter().map(|x| self.expr(x)).collect::<Vec<_>>().join(&format!(",{}", b))
            ),
            K::Input(h, vs) => {
                let list = vs.iter().map(|x| self.expr(x)).collect::<Vec<_>>().join(&format!(",{}", b));
                match h {
                    Some(h) => format!("{}{}#{},{}{}", self.kw("INPUT"), b, h, b, list),
                    None => format!("{}{}{}", self.kw("INPUT"), b, list),
                }
            }
            K::LineInput(h, v) => match h {
                Some(h) => format!("{}{}#{},{}{}", self.kw("LINE INPUT"), b, h, b, self.expr(v)),
                None => format!("{}{}{}", self.kw("LINE INPUT"), b, self.expr(v)),
            },
            K::Open { name, mode, handle, len } => {
                let m = match mode {
                    FileMode::Input => "INPUT",
                    FileMode::Output => "OUTPUT",
                    FileMode::Append => "APPEND",
                    FileMode::Random => "RANDOM",
                };
                let mut s = format!(
                    "{}{}{}{}{}{}{}{}{}{}#{}",
                    self.kw("OPEN"),
                    b,
                    self.expr(name),
                    b,
                    self.kw("FOR"),
                    b,
                    self.kw(m),
                    b,
                    self.kw("AS"),
                    b,
                    handle
                );
                if let Some(l) = len {
                    s.push_str(&format!("{}{}{}={}{}", b, self.kw("LEN"), b, b, self.expr(l)));
                }
                s
            }
            K::Close(hs) => {
                if hs.is_empty() {
                    self.kw("CLOSE")
                } else {
                    format!(
                        "{}{}{}",
                        self.kw("CLOSE"),
                        b,
                        hs.iter().map(|h| format!("#{}", h)).collect::<Vec<_>>().join(&format!(",{}", b))
                    )
                }
            }
            K::Kill(e) => format!("{}{}{}", self.kw("KILL"), b, self.expr(e)),
            K::Name(a, c) => format!("{}{}{}{}{}{}{}", self.kw("NAME"), b, self.expr(a), b, self.kw("AS"), b, self.expr(c)),
            K::Field(h, fs) => format!(
                "{}{}#{},{}{}",
                self.kw("FIELD"),
                b,
                h,
                b,
                fs.iter()
                    .map(|(w, n)| format!("{}{}{}{}{}", self.expr(w), b, self.kw("AS"), b, self.id(n)))
                    .collect::<Vec<_>>()
                    .join(&format!(",{}", b))
            ),
            K::Lset(n, e) => format!("{}{}{}{}={}{}", self.kw("LSET"), b, self.id(n), b, b, self.expr(e)),
            K::Put(h, r) => format!("{}{}#{},{}{}", self.kw("PUT"), b, h, b, self.expr(r)),
            K::Get(h, r) => format!("{}{}#{},{}{}", self.kw("GET"), b, h, b, self.expr(r)),
            K::Raw(s) => s.clone(),
            other => format!("' unprintable {:?}", other),
        }
    }

    fn block(&mut self, stmts: &[Stmt]) {
        self.depth += 1;
        for s in stmts {
            self.stmt(s);
        }
        self.depth -= 1;
    }

    /// Records where a line of a block statement that holds an expression stands (ELSEIF, CASE, LOOP WHILE / UNTIL).
    fn aux_pos(&mut self, stmt: Id, k: u32, text: &str) {
        let n = text.chars().count() as u32;
        self.pos.insert(crate::gast::aux_id(stmt, k), Pos { row: self.row, col_first: self.col.saturating_sub(n), col_last: self.col.saturating_sub(1) });
    }

    /// A line that belongs to a block statement (ELSE, NEXT, END IF, ...).
    fn aux_line(&mut self, text: &str) {
        if self.inline > 0 && self.col > 1 {
            let b = self.l.blank.to_string();
            self.push(":");
            self.push(&b);
            self.push(text);
            self.line_open = false;
            return;
        }
        if self.col > 1 {
            self.newline();
        }
        let ind = " ".repeat(self.depth * self.l.indent);
        self.push(&ind);
        self.push(text);
        self.line_open = false;
    }

    fn stmt(&mut self, s: &Stmt) {
        let one_line = self.l.one_line_blocks
            && self.inline == 0
            && matches!(&s.k, K::For { .. } | K::While(..) | K::Do(..) | K::Select { .. })
            && inlineable(s);
        if one_line {
            // start on a fresh line, then keep everything up to the closing keyword on it
            if self.col > 1 {
                self.newline();
            }
            self.inline += 1;
            self.stmt_inner(s);
            self.inline -= 1;
            self.line_open = false;
            return;
        }
        self.stmt_inner(s);
    }

    fn stmt_inner(&mut self, s: &Stmt) {
        let b = self.l.blank.to_string();
        match &s.k {
            K::If { arms, els, single_line } if *single_line => {
                self.begin(s.id, false);
                let mut t = format!("{}{}{}{}{}", self.kw("IF"), b, self.expr(&arms[0].0), b, self.kw("THEN"));
                self.push(&t);
                t.clear();
                for (i, inner) in arms[0].1.iter().enumerate() {
                    self.push(if i == 0 { &b } else { ": " });
                    let start = self.col;
                    let txt = self.simple_text(&inner.k);
                    self.push(&txt);
                    self.pos.insert(inner.id, Pos { row: self.row, col_first: start, col_last: self.col - 1 });
                }
                if let Some(e) = els {
                    self.push(&format!("{}{}", b, self.kw("ELSE")));
                    for (i, inner) in e.iter().enumerate() {
                        self.push(if i == 0 { &b } else { ": " });
                        let start = self.col;
                        let txt = self.simple_text(&inner.k);
                        self.push(&txt);
                        self.pos.insert(inner.id, Pos { row: self.row, col_first: start, col_last: self.col - 1 });
                    }
                }
                self.end(s.id, false);
            }
            K::If { arms, els, .. } => {
                self.begin(s.id, false);
                let t = format!("{}{}{}{}{}", self.kw("IF"), b, self.expr(&arms[0].0), b, self.kw("THEN"));
                self.push(&t);
                self.end(s.id, false);
                self.block(&arms[0].1);
                for (i, (c, body)) in arms.iter().enumerate().skip(1) {
                    let t = format!("{}{}{}{}{}", self.kw("ELSEIF"), b, self.expr(c), b, self.kw("THEN"));
                    self.aux_line(&t);
                    self.aux_pos(s.id, i as u32, &t);
                    self.block(body);
                }
                if let Some(e) = els {
                    let t = self.kw("ELSE");
                    self.aux_line(&t);
                    self.block(e);
                }
                let t = self.kw("END IF");
                self.aux_line(&t);
            }
            K::Select { subject, cases, els } => {
                self.begin(s.id, false);
                let t = format!("{}{}{}", self.kw("SELECT CASE"), b, self.expr(subject));
                self.push(&t);
                self.end(s.id, false);
                let mut case_ix = 1u32;
                for (tests, body) in cases {
                    let ts: Vec<String> = tests
                        .iter()
                        .map(|c| match c {
                            CaseExpr::Simple(e) => self.expr(e),
                            CaseExpr::Is(op, e) => format!("{}{}{}{}{}", self.kw("IS"), b, op.text(), b, self.expr(e)),
                            CaseExpr::Range(lo, hi) => format!("{}{}{}{}{}", self.expr(lo), b, self.kw("TO"), b, self.expr(hi)),
                        })
                        .collect();
                    let t = format!("{}{}{}", self.kw("CASE"), b, ts.join(&format!(",{}", b)));
                    self.aux_line(&t);
                    self.aux_pos(s.id, case_ix, &t);
                    case_ix += 1;
                    self.block(body);
                }
                if let Some(e) = els {
                    let t = self.kw("CASE ELSE");
                    self.aux_line(&t);
                    self.block(e);
                }
                let t = self.kw("END SELECT");
                self.aux_line(&t);
            }
            K::For { var, from, to, step, body, next_var } => {
                self.begin(s.id, false);
                let mut t = format!(
                    "{}{}{}{}={}{}{}{}{}{}",
                    self.kw("FOR"),
                    b,
                    self.expr(var),
                    b,
                    b,
                    self.expr(from),
                    b,
                    self.kw("TO"),
                    b,
                    self.expr(to)
                );
                if let Some(st) = step {
                    t.push_str(&format!("{}{}{}{}", b, self.kw("STEP"), b, self.expr(st)));
                }
                self.push(&t);
                self.end(s.id, false);
                self.block(body);
                let t = if *next_var {
                    format!("{}{}{}", self.kw("NEXT"), b, self.expr(var))
                } else {
                    self.kw("NEXT")
                };
                self.aux_line(&t);
            }
            K::While(c, body) => {
                self.begin(s.id, false);
                let t = format!("{}{}{}", self.kw("WHILE"), b, self.expr(c));
                self.push(&t);
                self.end(s.id, false);
                self.block(body);
                let t = self.kw("WEND");
                self.aux_line(&t);
            }
            K::Do(kind, c, body) => {
                self.begin(s.id, false);
                let head = match kind {
                    DoKind::WhileTop => format!("{}{}{}{}{}", self.kw("DO"), b, self.kw("WHILE"), b, self.expr(c)),
                    DoKind::UntilTop => format!("{}{}{}{}{}", self.kw("DO"), b, self.kw("UNTIL"), b, self.expr(c)),
                    _ => self.kw("DO"),
                };
                self.push(&head);
                self.end(s.id, false);
                self.block(body);
                let tail = match kind {
                    DoKind::WhileBottom => format!("{}{}{}{}{}", self.kw("LOOP"), b, self.kw("WHILE"), b, self.expr(c)),
                    DoKind::UntilBottom => format!("{}{}{}{}{}", self.kw("LOOP"), b, self.kw("UNTIL"), b, self.expr(c)),
                    _ => self.kw("LOOP"),
                };
                self.aux_line(&tail);
                if matches!(kind, DoKind::WhileBottom | DoKind::UntilBottom) {
                    self.aux_pos(s.id, 63, &tail);
                }
            }
            K::Label(l) => {
                if self.col > 1 {
                    self.newline();
                }
                let start = self.col;
                let t = format!("{}:", self.id(l));
                self.push(&t);
                self.pos.insert(s.id, Pos { row: self.row, col_first: start, col_last: self.col - 1 });
                self.line_open = false;
            }
            K::Comment(c) => {
                self.aux_line(&format!("' {}", c));
                self.pos.insert(s.id, Pos { row: self.row, col_first: 1, col_last: self.col - 1 });
            }
            K::Data(items) => {
                self.begin(s.id, false);
                let t = format!(
                    "{}{}{}",
                    self.kw("DATA"),
                    b,
                    items
                        .iter()
                        .map(|d| match d {
                            DataItem::Num(t) => t.clone(),
                            DataItem::Quoted(t) => format!("\"{}\"", t),
                            DataItem::Bare(t) => t.clone(),
                        })
                        .collect::<Vec<_>>()
                        .join(&format!(",{}", b))
                );
                self.push(&t);
                self.end(s.id, false);
            }
            k => {
                self.begin(s.id, true);
                let t = self.simple_text(k);
                self.push(&t);
                self.end(s.id, true);
            }
        }
    }
}

pub fn print(prog: &Prog, layout: &Layout) -> Printed {
    let mut p = P {
        l: layout,
        out: String::new(),
        row: 1,
        col: 1,
        pos: BTreeMap::new(),
        depth: 0,
        line_open: false,
        inline: 0,
    };
    let b = layout.blank.to_string();
    for (ty, from, to) in &prog.deftypes {
        let kw = match ty {
            Ty::Int => "DEFINT",
            Ty::Long => "DEFLNG",
            Ty::Single => "DEFSNG",
            Ty::Double => "DEFDBL",
            Ty::Str => "DEFSTR",
        };
        let range = if from == to { from.to_string() } else { format!("{}-{}", from, to) };
        let t = format!("{}{}{}", p.kw(kw), b, range);
        p.aux_line(&t);
    }
    for t in &prog.types {
        let head = format!("{}{}{}", p.kw("TYPE"), b, p.id(&t.name));
        p.aux_line(&head);
        p.depth += 1;
        for (f, ty) in &t.fields {
            let line = format!("{}{}{}{}{}", p.id(f), b, p.kw("AS"), b, p.decl_ty(ty));
            p.aux_line(&line);
        }
        p.depth -= 1;
        let tail = p.kw("END TYPE");
        p.aux_line(&tail);
    }
    if prog.declare {
        for s in &prog.subs {
            let line = format!(
                "{}{}{}{}{}{}({})",
                p.kw("DECLARE"),
                b,
                p.kw(if s.is_function { "FUNCTION" } else { "SUB" }),
                b,
                p.id(&s.name),
                b,
                p.params(&s.params)
            );
            p.aux_line(&line);
        }
    }
    for s in &prog.main {
        p.stmt(s);
    }
    for s in &prog.subs {
        if p.col > 1 {
            p.newline();
        }
        let kw = if s.is_function { "FUNCTION" } else { "SUB" };
        let mut head = format!("{}{}{}", p.kw(kw), b, p.id(&s.name));
        if !s.params.is_empty() {
            head.push_str(&format!("{}({})", b, p.params(&s.params)));
        }
        if s.is_static {
            head.push_str(&format!("{}{}", b, p.kw("STATIC")));
        }
        p.aux_line(&head);
        p.pos.insert(s.id, Pos { row: p.row, col_first: 1, col_last: p.col - 1 });
        p.block(&s.body);
        let tail = p.kw(if s.is_function { "END FUNCTION" } else { "END SUB" });
        p.aux_line(&tail);
    }
    if p.col > 1 {
        p.newline();
    }
    Printed {
        text: p.out,
        pos: p.pos,
    }
}

pub fn print_default(prog: &Prog) -> Printed {
    print(prog, &Layout::default())
}
