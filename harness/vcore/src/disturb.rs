//! History independence ("start from non-initial states too"): a menu of *disturbing prefixes* — short
//! pieces of BASIC in which a run-time error is trapped at an awkward moment (while the values of
//! by-reference arguments are waiting to be copied back, in the middle of an argument list, inside a
//! FUNCTION called by a PRINT item, inside a STATIC subprogram, at the increment of a FOR ...) and the
//! handler resumes or leaves by RESUME label. Every prefix uses only names that start with `Zq`, switches
//! its handler off again and ends with a complete output line. A program S that does not mention those
//! names must behave after the prefix exactly as it behaves alone:
//!
//!     output(prefix ; S) = output(prefix) ++ output(S)        end(prefix ; S) = end(S)
//!
//! No reference semantics is involved: the implementation started in the state the prefix leaves behind
//! is compared with the implementation started in the initial state.

pub struct Prefix {
    pub name: &'static str,
    /// DECLARE lines
    pub header: &'static str,
    /// module-level statements (run before S)
    pub main: &'static str,
    /// handler code, placed after the END that follows S's module-level code
    pub handlers: &'static str,
    /// SUB / FUNCTION definitions
    pub subs: &'static str,
}

const SUB_SHRINK2: &str = "SUB ZqShrink (ZqX%, ZqY%)\n  REDIM ZqA%(1 TO 2)\n  ZqX% = 9\n  ZqY% = 8\nEND SUB\n";
const SUB_SHRINK3: &str = "SUB ZqShrink3 (ZqX%, ZqY&, ZqZ$)\n  REDIM ZqA%(1 TO 2)\n  ZqX% = 9\n  ZqY& = 70008\n  ZqZ$ = \"zq\"\nEND SUB\n";
const FN_BOOM: &str = "FUNCTION ZqBoom% (ZqN%)\n  ZqBoom% = 7\n  ZqL% = 1 / ZqN%\n  ZqBoom% = 8\nEND FUNCTION\n";
const SUB_TWO: &str = "SUB ZqTwo (ZqX%, ZqY%)\n  ZqX% = ZqX% + 1\n  ZqY% = ZqY% + 1\nEND SUB\n";

pub const PREFIXES: &[Prefix] = &[
    Prefix {
        name: "the copy-back of an array element fails (the callee made the array smaller) while a later by-reference value waits; RESUME NEXT",
        header: "DECLARE SUB ZqShrink (ZqX%, ZqY%)\n",
        main: "REDIM SHARED ZqA%(1 TO 5)\nON ERROR GOTO ZqH1\nZqA%(4) = 1\nZqB% = 2\nZqShrink ZqA%(4), ZqB%\nPRINT \"zq1\"; ERR\nON ERROR GOTO 0\n",
        handlers: "ZqH1:\nRESUME NEXT\n",
        subs: SUB_SHRINK2,
    },
    Prefix {
        name: "the copy-back of an array element fails while two later by-reference values (LONG, STRING) wait; ON ERROR RESUME NEXT",
        header: "DECLARE SUB ZqShrink3 (ZqX%, ZqY&, ZqZ$)\n",
        main: "REDIM SHARED ZqA%(1 TO 5)\nON ERROR RESUME NEXT\nZqA%(4) = 1\nZqB& = 2\nZqC$ = \"c\"\nZqShrink3 ZqA%(4), ZqB&, ZqC$\nPRINT \"zq2\"\nON ERROR GOTO 0\n",
        handlers: "",
        subs: SUB_SHRINK3,
    },
    Prefix {
        name: "the copy-back of an array element fails while a later by-reference value waits; RESUME label",
        header: "DECLARE SUB ZqShrink (ZqX%, ZqY%)\n",
        main: "REDIM SHARED ZqA%(1 TO 5)\nON ERROR GOTO ZqH3\nZqA%(4) = 1\nZqB% = 2\nZqShrink ZqA%(4), ZqB%\nPRINT \"not reached\"\nZqCont3:\nPRINT \"zq3\"\nON ERROR GOTO 0\n",
        handlers: "ZqH3:\nRESUME ZqCont3\n",
        subs: SUB_SHRINK2,
    },
    Prefix {
        name: "a FUNCTION in a later argument fails after an earlier by-reference argument was evaluated; RESUME label",
        header: "DECLARE SUB ZqTwo (ZqX%, ZqY%)\nDECLARE FUNCTION ZqBoom% (ZqN%)\n",
        main: "ON ERROR GOTO ZqH4\nZqV% = 1\nZqTwo ZqV%, ZqBoom%(0)\nPRINT \"not reached\"\nZqCont4:\nPRINT \"zq4\"; ZqV%\nON ERROR GOTO 0\n",
        handlers: "ZqH4:\nRESUME ZqCont4\n",
        subs: "SUB ZqTwo (ZqX%, ZqY%)\n  ZqX% = ZqX% + 1\n  ZqY% = ZqY% + 1\nEND SUB\nFUNCTION ZqBoom% (ZqN%)\n  ZqBoom% = 7\n  ZqL% = 1 / ZqN%\n  ZqBoom% = 8\nEND FUNCTION\n",
    },
    Prefix {
        name: "a FUNCTION in a later argument fails after an earlier by-reference argument was evaluated; RESUME NEXT (inside the FUNCTION)",
        header: "DECLARE SUB ZqTwo (ZqX%, ZqY%)\nDECLARE FUNCTION ZqBoom% (ZqN%)\n",
        main: "ON ERROR GOTO ZqH5\nZqV% = 1\nZqTwo ZqV%, ZqBoom%(0)\nPRINT \"zq5\"; ZqV%\nON ERROR GOTO 0\n",
        handlers: "ZqH5:\nRESUME NEXT\n",
        subs: "SUB ZqTwo (ZqX%, ZqY%)\n  ZqX% = ZqX% + 1\n  ZqY% = ZqY% + 1\nEND SUB\nFUNCTION ZqBoom% (ZqN%)\n  ZqBoom% = 7\n  ZqL% = 1 / ZqN%\n  ZqBoom% = 8\nEND FUNCTION\n",
    },
    Prefix {
        name: "the subscript of a later array-element argument is out of range after an earlier element was evaluated; ON ERROR RESUME NEXT",
        header: "DECLARE SUB ZqTwo (ZqX%, ZqY%)\n",
        main: "DIM ZqD%(1 TO 3)\nON ERROR RESUME NEXT\nZqBig% = 99\nZqTwo ZqD%(1), ZqD%(ZqBig%)\nPRINT \"zq6\"; ZqD%(1)\nON ERROR GOTO 0\n",
        handlers: "",
        subs: SUB_TWO,
    },
    Prefix {
        name: "a FUNCTION called by a PRINT item fails; RESUME label abandons the PRINT statement",
        header: "DECLARE FUNCTION ZqBoom% (ZqN%)\n",
        main: "ON ERROR GOTO ZqH7\nPRINT \"zq7\"; 1, ZqBoom%(0); \"x\"\nPRINT \"not reached\"\nZqCont7:\nPRINT\nPRINT \"zq7 again\"\nON ERROR GOTO 0\n",
        handlers: "ZqH7:\nRESUME ZqCont7\n",
        subs: FN_BOOM,
    },
    Prefix {
        name: "the increment of a FOR overflows; RESUME NEXT",
        header: "",
        main: "ON ERROR GOTO ZqH8\nFOR ZqK% = 32766 TO 32767\n  ZqN% = ZqN% + 1\nNEXT\nPRINT \"zq8\"; ZqN%\nON ERROR GOTO 0\n",
        handlers: "ZqH8:\nRESUME NEXT\n",
        subs: "",
    },
    Prefix {
        name: "an error two calls deep inside a STATIC subprogram, by-reference arguments on both levels; RESUME label",
        header: "DECLARE SUB ZqOuter (ZqX%)\nDECLARE SUB ZqInner (ZqY%)\n",
        main: "DIM SHARED ZqZero%\nON ERROR GOTO ZqH9\nZqV% = 5\nZqOuter ZqV%\nPRINT \"not reached\"\nZqCont9:\nPRINT \"zq9\"\nZqOuter ZqW%\nPRINT \"zq9\"; ZqW%\nON ERROR GOTO 0\n",
        handlers: "ZqH9:\nZqZero% = 1\nRESUME ZqCont9\n",
        subs: "SUB ZqOuter (ZqX%)\n  ZqX% = ZqX% + 1\n  ZqInner ZqX%\n  ZqX% = ZqX% + 1\nEND SUB\nSUB ZqInner (ZqY%) STATIC\n  ZqCount% = ZqCount% + 1\n  ZqY% = ZqY% + 10 / ZqZero%\nEND SUB\n",
    },
    Prefix {
        name: "a built-in with a negative count fails inside a string expression that is an argument; ON ERROR RESUME NEXT",
        header: "DECLARE SUB ZqStr (ZqP$, ZqR$)\n",
        main: "ON ERROR RESUME NEXT\nZqS$ = \"abc\"\nZqM% = -1\nZqStr ZqS$, \"<\" + LEFT$(ZqS$, ZqM%) + \">\"\nPRINT \"zq10\"; ZqS$\nON ERROR GOTO 0\n",
        handlers: "",
        subs: "SUB ZqStr (ZqP$, ZqR$)\n  ZqP$ = ZqP$ + ZqR$\nEND SUB\n",
    },
    Prefix {
        name: "INPUT # on a file number that is not open, two targets; RESUME NEXT",
        header: "",
        main: "ON ERROR GOTO ZqH11\nDIM ZqE%(1 TO 2)\nZqI% = 1\nINPUT #9, ZqE%(ZqI%), ZqT$\nPRINT \"zq11\"\nON ERROR GOTO 0\n",
        handlers: "ZqH11:\nRESUME NEXT\n",
        subs: "",
    },
    Prefix {
        name: "an error inside a GOSUB routine called from a SUB-free module, trapped twice (RESUME NEXT, then RESUME after a repair)",
        header: "",
        main: "ON ERROR GOTO ZqH12\nZqDen% = 0\nGOSUB ZqRoutine\nGOSUB ZqRoutine\nPRINT \"zq12\"; ZqQ%\nON ERROR GOTO 0\nGOTO ZqPast12\nZqRoutine:\nZqQ% = 10 / ZqDen%\nRETURN\nZqPast12:\n",
        handlers: "ZqH12:\nZqSeen% = ZqSeen% + 1\nIF ZqSeen% = 1 THEN RESUME NEXT\nZqDen% = 2\nRESUME\n",
        subs: "",
    },
];

fn is_def_line(u: &str) -> bool {
    let t = u.trim_start();
    t.starts_with("SUB ") || t.starts_with("FUNCTION ")
}

/// Splits a program text (as the generators print it) into header (TYPE blocks, DECLARE and DEFtype lines at the
/// top), module-level code and subprogram definitions. None if the text does not have that shape.
pub fn split_program(text: &str) -> Option<(String, String, String)> {
    let lines: Vec<&str> = text.split_inclusive('\n').collect();
    if text.contains('\r') {
        return None;
    }
    let mut i = 0;
    let mut header = String::new();
    while i < lines.len() {
        let u = lines[i].trim().to_ascii_uppercase();
        if u.starts_with("TYPE ") {
            while i < lines.len() {
                header.push_str(lines[i]);
                let done = lines[i].trim().to_ascii_uppercase() == "END TYPE";
                i += 1;
                if done {
                    break;
                }
            }
        } else if u.starts_with("DECLARE ") || (u.starts_with("DEF") && !u.starts_with("DEF SEG") && u.len() > 6 && ["DEFINT", "DEFLNG", "DEFSNG", "DEFDBL", "DEFSTR"].contains(&&u[..6])) || u.is_empty() {
            header.push_str(lines[i]);
            i += 1;
        } else {
            break;
        }
    }
    let mut main = String::new();
    while i < lines.len() && !is_def_line(&lines[i].to_ascii_uppercase()) {
        main.push_str(lines[i]);
        i += 1;
    }
    let subs: String = lines[i..].concat();
    // a DEFtype statement or a DECLARE between the definitions would be moved: leave such texts alone
    let su = subs.to_ascii_uppercase();
    for l in su.lines() {
        let t = l.trim_start();
        if t.starts_with("DEFINT") || t.starts_with("DEFLNG") || t.starts_with("DEFSNG") || t.starts_with("DEFDBL") || t.starts_with("DEFSTR") || t.starts_with("DECLARE ") {
            return None;
        }
    }
    if !main.is_empty() && !main.ends_with('\n') {
        main.push('\n');
    }
    Some((header, main, subs))
}

/// True if the program text could clash with a prefix (it mentions a `Zq` name) or is otherwise unsuitable
/// (reads the keyboard: the prefix does not, but keep the inputs aligned; uses line-numbered RESUME targets ...).
pub fn suitable(text: &str) -> bool {
    let u = text.to_ascii_uppercase();
    !u.contains("ZQ") && !u.contains("INKEY")
}

/// prefix ; S
pub fn combine(p: &Prefix, text: &str) -> Option<String> {
    if !suitable(text) {
        return None;
    }
    let (header, main, subs) = split_program(text)?;
    let mut subs = subs;
    if !subs.is_empty() && !subs.ends_with('\n') {
        subs.push('\n');
    }
    Some(format!("{}{}{}{}END\n{}{}{}", header, p.header, p.main, main, p.handlers, subs, p.subs))
}

/// The prefix alone.
pub fn prefix_alone(p: &Prefix) -> String {
    format!("{}{}END\n{}{}", p.header, p.main, p.handlers, p.subs)
}
