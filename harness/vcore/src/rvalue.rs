//! Values and arithmetic of the reference semantics. Numbers are carried as f64 and
//! every operation checks that it stays inside the exact domain D (dyadic rationals
//! of bounded size), so that f32 / f64 / exact arithmetic all agree; leaving the
//! domain is reported as `RErr::Inexact` and the case is dropped by the caller.

use crate::gast::{BinOp, Ty};

#[derive(Clone, Debug, PartialEq)]
pub enum V {
    N(Ty, f64),
    S(Vec<u8>),
    R(Vec<(String, V)>),
    A(Arr),
}

#[derive(Clone, Debug, PartialEq)]
pub struct Arr {
    pub dims: Vec<(i32, i32)>,
    pub elems: Vec<V>,
}

#[derive(Clone, Debug, PartialEq, Eq)]
pub enum RErr {
    /// a BASIC run-time error code
    Code(i32),
    /// the computation left the exact domain or touched a construct the reference does not decide
    Inexact(String),
}

pub type R<T> = Result<T, RErr>;

pub fn inexact<T>(why: &str) -> R<T> {
    Err(RErr::Inexact(why.to_string()))
}

pub const OVERFLOW: RErr = RErr::Code(6);
pub const DIV0: RErr = RErr::Code(11);
pub const ILLEGAL: RErr = RErr::Code(5);
pub const SUBSCRIPT: RErr = RErr::Code(9);
pub const TYPE_MISMATCH: RErr = RErr::Code(13);

fn in_domain(x: f64) -> bool {
    // small dyadic rationals; or huge values (C06's arithmetic at the largest finite SINGLE / DOUBLE):
    // those are whole, the SINGLE results are checked for exact representability by `check`, DOUBLE
    // arithmetic is the same IEEE operation on both sides, and they are never printed (R14)
    x.is_finite() && ((x.abs() < 1.0e13 && (x * 1048576.0).fract() == 0.0) || x.abs() >= 1.0e30)
}

pub fn fits(ty: Ty, x: f64) -> bool {
    match ty {
        Ty::Int => (-32768.0..=32767.0).contains(&x),
        Ty::Long => (-2147483648.0..=2147483647.0).contains(&x),
        Ty::Single => x.abs() <= f32::MAX as f64,
        Ty::Double => x.is_finite(),
        _ => true,
    }
}

/// Converts a number to a numeric type (store, by-value binding, FOR bounds, READ, INPUT).
pub fn conv_num(x: f64, ty: Ty) -> R<f64> {
    match ty {
        Ty::Int | Ty::Long => {
            if !x.is_finite() {
                return Err(OVERFLOW);
            }
            if (x.fract().abs() - 0.5).abs() < 1e-12 {
                // a tie: decided only if rounding to even and rounding away from zero both leave the range
                let away = x.round();
                let fl = x.floor();
                let even = if (fl / 2.0).fract() == 0.0 { fl } else { fl + 1.0 };
                if !fits(ty, away) && !fits(ty, even) {
                    return Err(OVERFLOW);
                }
                return inexact("R1: exact tie converted to a whole-number type");
            }
            let r = x.round();
            if fits(ty, r) { Ok(r) } else { Err(OVERFLOW) }
        }
        Ty::Single => {
            if !fits(Ty::Single, x) {
                return Err(OVERFLOW);
            }
            if ((x as f32) as f64) != x {
                return inexact("value not representable as SINGLE");
            }
            Ok(x)
        }
        Ty::Double => Ok(x),
        Ty::Str => Err(TYPE_MISMATCH),
    }
}

pub fn conv(v: &V, ty: Ty) -> R<V> {
    match (v, ty) {
        (V::N(_, x), t) if t.is_numeric() => Ok(V::N(t, conv_num(*x, t)?)),
        (V::S(s), Ty::Str) => Ok(V::S(s.clone())),
        _ => Err(TYPE_MISMATCH),
    }
}

fn wider(a: Ty, b: Ty) -> Ty {
    if a >= b { a } else { b }
}

fn check(ty: Ty, x: f64) -> R<V> {
    if !fits(ty, x) {
        return Err(OVERFLOW);
    }
    if !in_domain(x) {
        return inexact("result outside the exact domain");
    }
    if ty == Ty::Single && ((x as f32) as f64) != x {
        return inexact("SINGLE result not exactly representable");
    }
    // zero has no sign
    Ok(V::N(ty, x + 0.0))
}

fn to_int16(x: f64) -> R<i16> {
    if !fits(Ty::Int, x.round()) {
        return inexact("R5: logical operator on an operand outside the INTEGER range");
    }
    let r = conv_num(x, Ty::Int)?;
    Ok(r as i16)
}

pub fn truth(v: &V) -> R<bool> {
    match v {
        V::N(_, x) => Ok(*x != 0.0),
        _ => Err(TYPE_MISMATCH),
    }
}

pub fn binop(op: BinOp, a: &V, b: &V) -> R<V> {
    match (a, b) {
        (V::S(x), V::S(y)) => match op {
            BinOp::Add => {
                let mut s = x.clone();
                s.extend_from_slice(y);
                Ok(V::S(s))
            }
            _ if op.is_relational() => {
                let o = x.cmp(y);
                Ok(V::N(Ty::Int, if rel(op, o) { -1.0 } else { 0.0 }))
            }
            _ => Err(TYPE_MISMATCH),
        },
        (V::N(ta, x), V::N(tb, y)) => {
            let w = wider(*ta, *tb);
            match op {
                BinOp::Add => check(w, x + y),
                BinOp::Sub => check(w, x - y),
                BinOp::Mul => check(w, x * y),
                BinOp::Div => {
                    if *y == 0.0 {
                        return Err(DIV0);
                    }
                    if w == Ty::Long {
                        return inexact("R21: precision of a quotient with a LONG operand");
                    }
                    let t = if w == Ty::Int || w == Ty::Single { Ty::Single } else { Ty::Double };
                    let q = x / y;
                    if q * y != *x {
                        return inexact("inexact quotient");
                    }
                    check(t, q)
                }
                BinOp::Mod => {
                    let l = conv_num(*x, Ty::Long)?;
                    let r = conv_num(*y, Ty::Long)?;
                    if r == 0.0 {
                        return Err(DIV0);
                    }
                    let m = l % r; // sign of the dividend
                    let t = if fits(Ty::Int, m) && *ta == Ty::Int && *tb == Ty::Int { Ty::Int } else { Ty::Long };
                    check(t, m)
                }
                BinOp::And | BinOp::Or => {
                    // 16-bit when both operands are in the INTEGER range, else 32-bit, else Overflow
                    if fits(Ty::Int, x.round()) && fits(Ty::Int, y.round()) {
                        let l = to_int16(*x)?;
                        let r = to_int16(*y)?;
                        let v = if op == BinOp::And { l & r } else { l | r };
                        Ok(V::N(Ty::Int, v as f64))
                    } else {
                        let l = conv_num(*x, Ty::Long)? as i32;
                        let r = conv_num(*y, Ty::Long)? as i32;
                        let v = if op == BinOp::And { l & r } else { l | r };
                        Ok(V::N(Ty::Long, v as f64))
                    }
                }
                _ => {
                    let o = x.partial_cmp(y).unwrap_or(std::cmp::Ordering::Equal);
                    Ok(V::N(Ty::Int, if rel(op, o) { -1.0 } else { 0.0 }))
                }
            }
        }
        _ => Err(TYPE_MISMATCH),
    }
}

fn rel(op: BinOp, o: std::cmp::Ordering) -> bool {
    use std::cmp::Ordering::*;
    match op {
        BinOp::Lt => o == Less,
        BinOp::Le => o != Greater,
        BinOp::Eq => o == Equal,
        BinOp::Ge => o != Less,
        BinOp::Gt => o == Greater,
        BinOp::Ne => o != Equal,
        _ => false,
    }
}

pub fn neg(v: &V) -> R<V> {
    match v {
        V::N(t, x) => check(*t, -x),
        _ => Err(TYPE_MISMATCH),
    }
}

pub fn not(v: &V) -> R<V> {
    match v {
        V::N(_, x) => {
            if fits(Ty::Int, x.round()) {
                Ok(V::N(Ty::Int, (!to_int16(*x)?) as f64))
            } else {
                Ok(V::N(Ty::Long, (!(conv_num(*x, Ty::Long)? as i32)) as f64))
            }
        }
        _ => Err(TYPE_MISMATCH),
    }
}

/// The value a numeric literal denotes (rules of C10).
pub fn literal(text: &str) -> R<V> {
    match crate::prec::expected_literal(text) {
        Some(crate::prec::Lit::Integer(v)) => Ok(V::N(Ty::Int, v as f64)),
        Some(crate::prec::Lit::Long(v)) => Ok(V::N(Ty::Long, v as f64)),
        Some(crate::prec::Lit::Single(v)) => {
            // the written decimal must be exactly representable, otherwise printing it back is not decided
            let d: f64 = text.parse().unwrap_or(f64::NAN);
            if (v as f64) != d {
                return inexact("SINGLE literal not exactly representable");
            }
            Ok(V::N(Ty::Single, v as f64))
        }
        Some(crate::prec::Lit::Double(v)) => Ok(V::N(Ty::Double, v)),
        _ => inexact("unsupported literal"),
    }
}

pub fn default_value(ty: Ty) -> V {
    match ty {
        Ty::Str => V::S(vec![]),
        t => V::N(t, 0.0),
    }
}

impl Arr {
    pub fn new(dims: Vec<(i32, i32)>, fill: V) -> Arr {
        let n: usize = dims.iter().map(|(l, u)| (u - l + 1).max(0) as usize).product();
        Arr {
            dims,
            elems: vec![fill; n],
        }
    }

    pub fn offset(&self, idx: &[i32]) -> R<usize> {
        if idx.len() != self.dims.len() {
            return Err(SUBSCRIPT);
        }
        let mut off = 0usize;
        for (i, (l, u)) in idx.iter().zip(self.dims.iter()) {
            if i < l || i > u {
                return Err(SUBSCRIPT);
            }
            off = off * ((u - l + 1) as usize) + (i - l) as usize;
        }
        Ok(off)
    }
}

/// One piece of output: raw bytes, or a number (compared by framing and exact value).
#[derive(Clone, Debug, PartialEq)]
pub enum OutItem {
    Bytes(Vec<u8>),
    Num(Ty, f64),
}

/// Compares expected output items with actual bytes.
/// A number is `-` or blank, then a decimal token with exactly the expected value
/// (whole numbers: digits only), then a blank.
pub fn output_matches(expected: &[OutItem], actual: &[u8]) -> Result<(), String> {
    let mut pos = 0usize;
    for (k, item) in expected.iter().enumerate() {
        match item {
            OutItem::Bytes(b) => {
                if actual.len() < pos + b.len() || &actual[pos..pos + b.len()] != b.as_slice() {
                    return Err(format!(
                        "item {}: expected bytes {:?} at offset {}, found {:?}",
                        k,
                        crate::outcome::latin1(b),
                        pos,
                        crate::outcome::latin1(&actual[pos.min(actual.len())..(pos + b.len() + 8).min(actual.len())])
                    ));
                }
                pos += b.len();
            }
            OutItem::Num(_, x) => {
                let rest = &actual[pos.min(actual.len())..];
                let want_sign: u8 = if *x < 0.0 { b'-' } else { b' ' };
                if rest.first() != Some(&want_sign) {
                    return Err(format!(
                        "item {}: number {} must start with {:?}, found {:?}",
                        k,
                        x,
                        want_sign as char,
                        crate::outcome::latin1(&rest[..rest.len().min(12)])
                    ));
                }
                let mut j = 1;
                while j < rest.len() && (rest[j].is_ascii_digit() || rest[j] == b'.') {
                    j += 1;
                }
                let tok = std::str::from_utf8(&rest[1..j]).unwrap_or("");
                let whole = x.fract() == 0.0;
                let ok_form = if whole { !tok.is_empty() && tok.bytes().all(|c| c.is_ascii_digit()) } else { !tok.is_empty() };
                let val: Option<f64> = tok.parse::<f64>().ok();
                if !ok_form || val != Some(x.abs()) {
                    return Err(format!("item {}: expected the number {}, found token {:?}", k, x, tok));
                }
                if rest.get(j) != Some(&b' ') {
                    return Err(format!("item {}: number {} not followed by a blank", k, x));
                }
                pos += j + 1;
            }
        }
    }
    if pos != actual.len() {
        return Err(format!(
            "unexpected extra output {:?}",
            crate::outcome::latin1(&actual[pos..actual.len().min(pos + 24)])
        ));
    }
    Ok(())
}

/// Renders expected items as text (for messages).
pub fn render(expected: &[OutItem]) -> String {
    let mut s = String::new();
    for it in expected {
        match it {
            OutItem::Bytes(b) => s.push_str(&crate::outcome::latin1(b)),
            OutItem::Num(_, x) => {
                if *x < 0.0 {
                    s.push_str(&format!("{} ", x));
                } else {
                    s.push_str(&format!(" {} ", x));
                }
            }
        }
    }
    s
}
