//! C04 generators: arrays (shapes, element types, in- and out-of-range probes, write
//! isolation), records, fixed-length strings.

use crate::gast::*;

#[derive(Clone, Debug, PartialEq)]
pub struct Shape {
    /// (lower bound, extent) per dimension
    pub dims: Vec<(i32, i32)>,
    /// spell the bound as `lo TO hi` (false is only possible for lower bound 0)
    pub explicit: bool,
}

pub fn shapes(max_dims: usize) -> Vec<Shape> {
    let per_dim: Vec<(i32, i32)> = [-2, 0, 1].iter().flat_map(|lo| [1, 2, 3].iter().map(move |e| (*lo, *e))).collect();
    let mut out = vec![];
    let mut cur: Vec<Vec<(i32, i32)>> = vec![vec![]];
    for _ in 0..max_dims {
        let mut next = vec![];
        for c in &cur {
            for d in &per_dim {
                let mut n = c.clone();
                n.push(*d);
                next.push(n);
            }
        }
        for dims in &next {
            out.push(Shape { dims: dims.clone(), explicit: true });
            if dims.iter().all(|(lo, _)| *lo == 0) {
                out.push(Shape { dims: dims.clone(), explicit: false });
            }
        }
        cur = next;
    }
    out
}

#[derive(Clone, Copy, Debug, PartialEq, Eq)]
pub enum Elem {
    Scalar(Ty),
    Fix3,
    Rec,
}

pub const ELEMS: [Elem; 7] = [
    Elem::Scalar(Ty::Int),
    Elem::Scalar(Ty::Long),
    Elem::Scalar(Ty::Single),
    Elem::Scalar(Ty::Double),
    Elem::Scalar(Ty::Str),
    Elem::Fix3,
    Elem::Rec,
];

fn rec_types() -> Vec<TypeDef> {
    vec![
        TypeDef { name: "Inner".into(), fields: vec![("P".into(), DeclTy::Scalar(Ty::Long)), ("Q".into(), DeclTy::FixStr(2))] },
        TypeDef {
            name: "Outer".into(),
            fields: vec![("N".into(), DeclTy::Scalar(Ty::Int)), ("S".into(), DeclTy::FixStr(2)), ("I".into(), DeclTy::Rec("Inner".into()))],
        },
    ]
}

fn cells(shape: &Shape) -> Vec<Vec<i32>> {
    let mut out: Vec<Vec<i32>> = vec![vec![]];
    for (lo, ext) in &shape.dims {
        let mut next = vec![];
        for c in &out {
            for i in 0..*ext {
                let mut n = c.clone();
                n.push(lo + i);
                next.push(n);
            }
        }
        out = next;
    }
    out
}

fn dim_stmt(b: &mut B, name: &str, shape: &Shape, elem: Elem) -> Stmt {
    let (nm, ty) = match elem {
        Elem::Scalar(t) => (format!("{}{}", name, t.suffix()), None),
        Elem::Fix3 => (name.to_string(), Some(DeclTy::FixStr(3))),
        Elem::Rec => (name.to_string(), Some(DeclTy::Rec("Outer".into()))),
    };
    let dims = shape
        .dims
        .iter()
        .map(|(lo, ext)| {
            let hi = lo + ext - 1;
            if shape.explicit { (Some(num(*lo)), num(hi)) } else { (None, num(hi)) }
        })
        .collect();
    b.s(K::Dim { shared: false, redim: false, vars: vec![DimVar { name: nm, ty, dims }] })
}

fn arr_name(name: &str, elem: Elem) -> String {
    match elem {
        Elem::Scalar(t) => format!("{}{}", name, t.suffix()),
        _ => name.to_string(),
    }
}

fn idx(cell: &[i32]) -> Vec<Expr> {
    cell.iter().map(|i| num(*i)).collect()
}

/// The location(s) written for one cell and the value(s) stored there (distinct per k).
fn cell_writes(name: &str, elem: Elem, cell: &[i32], k: i64) -> Vec<(Expr, Expr)> {
    let base = Expr::Index(arr_name(name, elem), idx(cell));
    match elem {
        Elem::Scalar(Ty::Str) => vec![(base, st(&format!("v{}", k)))],
        Elem::Scalar(Ty::Single) => vec![(base, Expr::Num(format!("{}.5", k)))],
        Elem::Scalar(Ty::Double) => vec![(base, Expr::Num(format!("{}.25#", k)))],
        Elem::Scalar(Ty::Long) => vec![(base, num(100000 + k))],
        Elem::Scalar(_) => vec![(base, num(k))],
        Elem::Fix3 => vec![(base, st(&format!("f{}", k % 100)))],
        Elem::Rec => vec![
            (Expr::Field(Box::new(base.clone()), "N".into()), num(k)),
            (Expr::Field(Box::new(base.clone()), "S".into()), st(&format!("{}", (k % 90) + 10))),
            (Expr::Field(Box::new(Expr::Field(Box::new(base.clone()), "I".into())), "P".into()), num(70000 + k)),
            (Expr::Field(Box::new(Expr::Field(Box::new(base), "I".into())), "Q".into()), st(&format!("{}", (k % 90) + 10))),
        ],
    }
}

fn dump(b: &mut B, name: &str, elem: Elem, shape: &Shape, tag: &str) -> Vec<Stmt> {
    let mut v = vec![];
    for cell in cells(shape) {
        let mut items = vec![st(tag)];
        for (loc, _) in cell_writes(name, elem, &cell, 0) {
            items.push(st("["));
            items.push(loc);
            items.push(st("]"));
        }
        v.push(b.print(items));
    }
    v
}

/// (i) fill every cell with a distinct value in row-major and in reverse order, read all
/// back, print the bounds of every dimension.
pub fn fill_program(shape: &Shape, elem: Elem) -> Prog {
    let mut b = B::new();
    let mut main = vec![dim_stmt(&mut b, "A", shape, elem)];
    let all = cells(shape);
    for (k, cell) in all.iter().enumerate() {
        for (loc, val) in cell_writes("A", elem, cell, k as i64 + 1) {
            main.push(b.assign(loc, val));
        }
    }
    main.extend(dump(&mut b, "A", elem, shape, "a"));
    for (k, cell) in all.iter().enumerate().rev() {
        for (loc, val) in cell_writes("A", elem, cell, 50 + k as i64) {
            main.push(b.assign(loc, val));
        }
    }
    main.extend(dump(&mut b, "A", elem, shape, "b"));
    let an = arr_name("A", elem);
    for d in 1..=shape.dims.len() {
        main.push(b.print(vec![
            builtin("LBOUND", vec![var(&an), num(d as i64)]),
            builtin("UBOUND", vec![var(&an), num(d as i64)]),
        ]));
    }
    if shape.dims.len() == 1 {
        main.push(b.print(vec![builtin("LBOUND", vec![var(&an)]), builtin("UBOUND", vec![var(&an)])]));
    }
    Prog { types: rec_types(), main, ..Default::default() }
}

/// (ii) probes: one index just outside one face of the box, the others in range
/// (read and write); and the corners inside.
pub fn probe_programs(shape: &Shape) -> Vec<Prog> {
    let elem = Elem::Scalar(Ty::Int);
    let mut out = vec![];
    let corner_lo: Vec<i32> = shape.dims.iter().map(|(lo, _)| *lo).collect();
    let corner_hi: Vec<i32> = shape.dims.iter().map(|(lo, e)| lo + e - 1).collect();
    for d in 0..shape.dims.len() {
        for (side, base) in [(-1, &corner_lo), (1, &corner_hi)] {
            for write in [false, true] {
                for other in [&corner_lo, &corner_hi] {
                    let mut cell = other.clone();
                    cell[d] = base[d] + side;
                    let mut b = B::new();
                    let mut main = vec![dim_stmt(&mut b, "A", shape, elem)];
                    // the corners inside the box are fine
                    main.push(b.assign(Expr::Index("A%".into(), idx(&corner_lo)), num(1)));
                    main.push(b.assign(Expr::Index("A%".into(), idx(&corner_hi)), num(2)));
                    main.push(b.print(vec![Expr::Index("A%".into(), idx(&corner_lo)), Expr::Index("A%".into(), idx(&corner_hi))]));
                    let loc = Expr::Index("A%".into(), idx(&cell));
                    if write {
                        main.push(b.assign(loc, num(9)));
                    } else {
                        main.push(b.print(vec![loc]));
                    }
                    main.push(b.print(vec![st("not reached")]));
                    out.push(Prog { main, ..Default::default() });
                    if shape.dims.len() == 1 {
                        break;
                    }
                }
            }
        }
    }
    out
}

/// Shapes far beyond the enumerated box: long vectors (around 16, 100, 255 / 256 / 257 cells), wide and
/// tall matrices, cubes, 4 to 6 dimensions, negative and large lower bounds.
pub fn big_shapes() -> Vec<Shape> {
    let dims: Vec<Vec<(i32, i32)>> = vec![
        vec![(0, 10)],
        vec![(1, 16)],
        vec![(-5, 17)],
        vec![(0, 100)],
        vec![(1, 255)],
        vec![(0, 256)],
        vec![(-128, 257)],
        vec![(1000, 33)],
        vec![(0, 9), (1, 11)],
        vec![(-3, 7), (2, 13)],
        vec![(1, 16), (1, 16)],
        vec![(0, 2), (0, 130)],
        vec![(0, 130), (0, 2)],
        vec![(1, 4), (-1, 5), (0, 6)],
        vec![(0, 8), (0, 8), (0, 8)],
        vec![(0, 2), (1, 3), (-1, 2), (0, 3)],
        vec![(1, 2), (1, 2), (1, 2), (1, 2), (1, 2)],
        vec![(0, 2), (0, 2), (0, 2), (0, 2), (0, 2), (0, 2)],
    ];
    dims.into_iter().map(|d| Shape { dims: d, explicit: true }).collect()
}

/// Fill by nested FOR loops (subscripts are variables): every cell gets its row-major number, then
/// every cell is checked in a second nest in reverse order of the dimensions, mismatches are printed,
/// a checksum and the corner cells are printed.
pub fn loop_fill_program(shape: &Shape, elem_ty: Ty) -> Prog {
    let mut b = B::new();
    let elem = Elem::Scalar(elem_ty);
    let an = arr_name("A", elem);
    let n = shape.dims.len();
    let ivar = |d: usize| var(&format!("I{}%", d));
    let subs: Vec<Expr> = (0..n).map(ivar).collect();
    let stored = |k: Expr| -> Expr {
        match elem_ty {
            Ty::Str => bin(BinOp::Add, st("c"), builtin("STR$", vec![k])),
            _ => k,
        }
    };
    let mut main = vec![dim_stmt(&mut b, "A", shape, elem), b.assign(var("K&"), num(0))];
    // innermost body of the first nest
    let mut body = vec![b.assign(var("K&"), bin(BinOp::Add, var("K&"), num(1))), b.assign(Expr::Index(an.clone(), subs.clone()), stored(var("K&")))];
    for d in (0..n).rev() {
        let (lo, ext) = shape.dims[d];
        body = vec![b.s(K::For { var: ivar(d), from: num(lo), to: num(lo + ext - 1), step: None, body, next_var: true })];
    }
    main.extend(body);
    main.push(b.print(vec![st("cells"), var("K&")]));
    // the expected value of a cell from its subscripts: row-major position + 1
    let mut pos: Expr = num(0);
    for d in 0..n {
        let (lo, ext) = shape.dims[d];
        let off = if lo == 0 { ivar(d) } else { Expr::Paren(Box::new(bin(BinOp::Sub, ivar(d), num(lo)))) };
        pos = if d == 0 { off } else { bin(BinOp::Add, bin(BinOp::Mul, Expr::Paren(Box::new(pos)), num(ext)), off) };
    }
    let expect = bin(BinOp::Add, pos, num(1));
    let mut items = vec![st("bad")];
    items.extend(subs.clone());
    items.push(Expr::Index(an.clone(), subs.clone()));
    let bad = b.print(items);
    let mut body = vec![
        b.assign(var("E&"), expect),
        b.s(K::If { arms: vec![(bin(BinOp::Ne, Expr::Index(an.clone(), subs.clone()), stored(var("E&"))), vec![bad])], els: None, single_line: false }),
        b.assign(var("S#"), bin(BinOp::Add, var("S#"), var("E&"))),
    ];
    // second nest: dimensions in the opposite nesting order, each running downwards
    for d in 0..n {
        let (lo, ext) = shape.dims[d];
        body = vec![b.s(K::For { var: ivar(d), from: num(lo + ext - 1), to: num(lo), step: Some(num(-1)), body, next_var: true })];
    }
    main.extend(body);
    main.push(b.print(vec![st("sum"), var("S#")]));
    let corner_lo: Vec<i32> = shape.dims.iter().map(|(lo, _)| *lo).collect();
    let corner_hi: Vec<i32> = shape.dims.iter().map(|(lo, e)| lo + e - 1).collect();
    main.push(b.print(vec![Expr::Index(an.clone(), idx(&corner_lo)), Expr::Index(an.clone(), idx(&corner_hi))]));
    for d in 1..=n {
        main.push(b.print(vec![builtin("LBOUND", vec![var(&an), num(d as i64)]), builtin("UBOUND", vec![var(&an), num(d as i64)])]));
    }
    Prog { main, ..Default::default() }
}

/// The programs of the `big` group: literal fill / read-back for boxes of <= 300 cells, loop fill for
/// all, probes at every face.
pub fn big_programs() -> Vec<(Prog, String)> {
    let mut out = vec![];
    for s in big_shapes() {
        let cells: i64 = s.dims.iter().map(|d| d.1 as i64).product();
        if cells <= 300 {
            for e in [Elem::Scalar(Ty::Int), Elem::Scalar(Ty::Str)] {
                out.push((fill_program(&s, e), format!("big fill {:?} {:?}", s.dims, e)));
            }
            if cells <= 130 {
                for e in [Elem::Rec, Elem::Fix3, Elem::Scalar(Ty::Double)] {
                    out.push((fill_program(&s, e), format!("big fill {:?} {:?}", s.dims, e)));
                }
            }
        }
        for t in [Ty::Int, Ty::Long, Ty::Str] {
            out.push((loop_fill_program(&s, t), format!("big loop fill {:?} {:?}", s.dims, t)));
        }
        for (i, p) in probe_programs(&s).into_iter().enumerate() {
            out.push((p, format!("big probe {:?} #{}", s.dims, i)));
        }
    }
    out
}

/// (iii) write isolation: every ordered pair of writes with a full dump after each.
pub fn isolation_programs(shape: &Shape, elem: Elem) -> Vec<Prog> {
    let all = cells(shape);
    if all.len() > 6 {
        return vec![];
    }
    let mut out = vec![];
    for (i, c1) in all.iter().enumerate() {
        for (j, c2) in all.iter().enumerate() {
            let mut b = B::new();
            let mut main = vec![dim_stmt(&mut b, "A", shape, elem)];
            // known initial content
            for (k, cell) in all.iter().enumerate() {
                for (loc, val) in cell_writes("A", elem, cell, k as i64 + 1) {
                    main.push(b.assign(loc, val));
                }
            }
            for (loc, val) in cell_writes("A", elem, c1, 30 + i as i64) {
                main.push(b.assign(loc, val));
            }
            main.extend(dump(&mut b, "A", elem, shape, "1"));
            // the second write touches only the first location of the cell (one field of a record)
            let (loc, val) = cell_writes("A", elem, c2, 60 + j as i64).remove(0);
            main.push(b.assign(loc, val));
            main.extend(dump(&mut b, "A", elem, shape, "2"));
            out.push(Prog { types: rec_types(), main, ..Default::default() });
        }
    }
    out
}

/// (vi) subscripts of the types & ! # are converted to INTEGER before indexing.
pub fn typed_index_program() -> Prog {
    let mut b = B::new();
    let shape = Shape { dims: vec![(-2, 3), (0, 3)], explicit: true };
    let mut main = vec![dim_stmt(&mut b, "A", &shape, Elem::Scalar(Ty::Int))];
    for (k, cell) in cells(&shape).iter().enumerate() {
        main.push(b.assign(Expr::Index("A%".into(), idx(cell)), num(k as i64 + 1)));
    }
    main.push(b.assign(var("L&"), num(-1)));
    main.push(b.assign(var("S!"), Expr::Num("1.25".into())));
    main.push(b.assign(var("D#"), Expr::Neg(Box::new(Expr::Num("1.75#".into())))));
    main.push(b.print(vec![
        Expr::Index("A%".into(), vec![var("L&"), var("S!")]),
        Expr::Index("A%".into(), vec![var("D#"), Expr::Num("1.75".into())]),
        Expr::Index("A%".into(), vec![Expr::Neg(Box::new(Expr::Num(".25".into()))), Expr::Num("0.25#".into())]),
    ]));
    main.push(b.assign(Expr::Index("A%".into(), vec![var("D#"), var("S!")]), num(77)));
    main.push(b.print(vec![Expr::Index("A%".into(), vec![num(-2), num(1)])]));
    Prog { main, ..Default::default() }
}

/// REDIM: a dynamic array gets a new layout; its old content is gone, the new bounds hold, distinct index
/// tuples are distinct cells again. Every cell is written and the LAST one read right before the second REDIM,
/// and the first access afterwards uses exactly those subscripts (when they still exist).
pub fn redim_programs() -> Vec<(Prog, String)> {
    let sh = |dims: &[(i32, i32)]| Shape { dims: dims.to_vec(), explicit: true };
    // (lower bound, extent) per dimension
    let pairs: Vec<(Shape, Shape)> = vec![
        (sh(&[(1, 3)]), sh(&[(2, 4)])),
        (sh(&[(1, 3)]), sh(&[(1, 3)])),
        (sh(&[(-2, 3)]), sh(&[(0, 3)])),
        (sh(&[(0, 3), (0, 2)]), sh(&[(0, 3), (0, 4)])),
        (sh(&[(1, 4), (1, 2)]), sh(&[(1, 2), (1, 4)])),
        (sh(&[(1, 2), (1, 2)]), sh(&[(0, 3), (1, 2)])),
        (sh(&[(1, 2), (1, 2), (1, 2)]), sh(&[(1, 2), (1, 3), (1, 2)])),
    ];
    let mut out = vec![];
    for (s1, s2) in pairs {
        for elem in [Elem::Scalar(Ty::Int), Elem::Scalar(Ty::Str), Elem::Scalar(Ty::Double)] {
            for probe_gone in [false, true] {
                let mut b = B::new();
                let redim = |b: &mut B, shape: &Shape| -> Stmt {
                    let mut d = dim_stmt(b, "A", shape, elem);
                    if let K::Dim { redim, .. } = &mut d.k {
                        *redim = true;
                    }
                    d
                };
                let mut main = vec![redim(&mut b, &s1)];
                let c1 = cells(&s1);
                for (k, cell) in c1.iter().enumerate() {
                    for (loc, val) in cell_writes("A", elem, cell, k as i64 + 1) {
                        main.push(b.assign(loc, val));
                    }
                }
                let last = c1.last().unwrap().clone();
                let last_loc = Expr::Index(arr_name("A", elem), idx(&last));
                main.push(b.print(vec![st("last"), st("["), last_loc.clone(), st("]")]));
                main.push(redim(&mut b, &s2));
                let c2 = cells(&s2);
                let still = c2.contains(&last);
                if still {
                    // the same subscripts as just before the REDIM: a fresh, empty cell
                    main.push(b.print(vec![st("same"), st("["), last_loc.clone(), st("]")]));
                }
                for (k, cell) in c2.iter().enumerate() {
                    for (loc, val) in cell_writes("A", elem, cell, 30 + k as i64) {
                        main.push(b.assign(loc, val));
                    }
                }
                main.extend(dump(&mut b, "A", elem, &s2, "r"));
                let an = arr_name("A", elem);
                for d in 1..=s2.dims.len() {
                    main.push(b.print(vec![builtin("LBOUND", vec![var(&an), num(d as i64)]), builtin("UBOUND", vec![var(&an), num(d as i64)])]));
                }
                if probe_gone {
                    // a cell of the old layout that the new one does not have: Subscript out of range
                    let Some(gone) = c1.iter().find(|c| !c2.contains(c)) else { continue };
                    main.push(b.print(vec![st("gone"), Expr::Index(arr_name("A", elem), idx(gone))]));
                }
                out.push((Prog { main, ..Default::default() }, format!("REDIM {:?} -> {:?} {:?}{}", s1.dims, s2.dims, elem, if probe_gone { " + a cell of the old layout" } else { "" })));
            }
        }
    }
    out
}

/// The ways control flow can go past a DIM without executing it (and, last, the baseline that executes it).
pub const BYPASSES: [&str; 13] = ["GOTO over it", "IF branch not taken", "CASE not taken", "WHILE body never entered", "FOR body never entered", "executed",
    "ELSEIF block not taken (the IF branch runs)", "ELSEIF block not taken (the ELSE branch runs)", "ELSE block not taken", "CASE ELSE not taken", "DO WHILE body never entered", "IF block inside a WHILE body never entered", "second CASE not taken (the first runs)"];

/// The statements of one bypass program: declarations that control flow goes past in way `bi`, then the uses.
fn bypass_body(b: &mut B, elem: Elem, dims: &[(i32, i32)], dynamic: u8, bi: usize) -> Vec<Stmt> {
        let shape = Shape { dims: dims.to_vec(), explicit: true };
        let mut d = if dims.is_empty() {
            b.s(K::Dim { shared: false, redim: false, vars: vec![DimVar { name: "A".into(), ty: Some(DeclTy::Rec("Outer".into())), dims: vec![] }] })
        } else {
            dim_stmt(b, "A", &shape, elem)
        };
        if let K::Dim { redim, vars, .. } = &mut d.k {
            if dynamic == 1 {
                vars[0].dims[0].1 = var("N%");
            }
            if dynamic == 2 {
                *redim = true;
            }
        }
        // a typed scalar declared next to it: its type applies wherever the DIM is
        let d2 = b.s(K::Dim { shared: false, redim: false, vars: vec![DimVar { name: "Q".into(), ty: Some(DeclTy::Scalar(Ty::Int)), dims: vec![] }, DimVar { name: "F".into(), ty: Some(DeclTy::FixStr(4)), dims: vec![] }] });
        let decl = vec![d, d2];
        let mut body = vec![b.assign(var("N%"), num(3)), b.assign(var("Z%"), num(0))];
        match bi {
            0 => {
                body.push(b.s(K::Goto("Past".into())));
                body.extend(decl);
                body.push(b.s(K::Label("Past".into())));
            }
            1 => body.push(b.s(K::If { arms: vec![(var("Z%"), decl)], els: None, single_line: false })),
            2 => {
                let zero = b.print(vec![st("zero")]);
                body.push(b.s(K::Select { subject: var("Z%"), cases: vec![(vec![CaseExpr::Simple(num(1))], decl), (vec![CaseExpr::Simple(num(0))], vec![zero])], els: None }));
            }
            3 => body.push(b.s(K::While(var("Z%"), decl))),
            4 => body.push(b.s(K::For { var: var("I%"), from: num(1), to: var("Z%"), step: None, body: decl, next_var: false })),
            6 | 7 => {
                // Z% = 0: with `Z% = 0` as the first condition the IF branch runs, with `Z% = 5` the ELSE branch
                let first = b.print(vec![st("first")]);
                let last = b.print(vec![st("last")]);
                let c1 = Expr::Bin(BinOp::Eq, Box::new(var("Z%")), Box::new(num(if bi == 6 { 0 } else { 5 })));
                let c2 = Expr::Bin(BinOp::Eq, Box::new(var("Z%")), Box::new(num(2)));
                body.push(b.s(K::If { arms: vec![(c1, vec![first]), (c2, decl)], els: Some(vec![last]), single_line: false }));
            }
            8 => {
                let first = b.print(vec![st("first")]);
                let c1 = Expr::Bin(BinOp::Eq, Box::new(var("Z%")), Box::new(num(0)));
                body.push(b.s(K::If { arms: vec![(c1, vec![first])], els: Some(decl), single_line: false }));
            }
            9 => {
                let zero = b.print(vec![st("zero")]);
                body.push(b.s(K::Select { subject: var("Z%"), cases: vec![(vec![CaseExpr::Simple(num(0))], vec![zero])], els: Some(decl) }));
            }
            12 => {
                let zero = b.print(vec![st("zero")]);
                body.push(b.s(K::Select { subject: var("Z%"), cases: vec![(vec![CaseExpr::Simple(num(0))], vec![zero]), (vec![CaseExpr::Simple(num(1))], decl)], els: None }));
            }
            10 => body.push(b.s(K::Do(DoKind::WhileTop, var("Z%"), decl))),
            11 => {
                let inner = b.s(K::If { arms: vec![(num(1), decl)], els: None, single_line: false });
                body.push(b.s(K::While(var("Z%"), vec![inner])));
            }
            _ => body.extend(decl),
        }
        // read before anything is stored: a fixed-length string holds its n blanks from the start
        body.push(b.print(vec![var("Q"), st("["), var("F"), st("]"), builtin("LEN", vec![var("F")])]));
        body.push(b.assign(var("Q"), Expr::Num("3.75".into())));
        body.push(b.assign(var("F"), st("abcdefg")));
        body.push(b.print(vec![var("Q"), st("["), var("F"), st("]")]));
        if dims.is_empty() {
            body.push(b.assign(Expr::Field(Box::new(var("A")), "N".into()), num(7)));
            body.push(b.assign(Expr::Field(Box::new(var("A")), "S".into()), st("xyz")));
            body.push(b.assign(Expr::Field(Box::new(Expr::Field(Box::new(var("A")), "I".into())), "P".into()), num(70000)));
            body.push(b.print(vec![Expr::Field(Box::new(var("A")), "N".into()), st("["), Expr::Field(Box::new(var("A")), "S".into()), st("]"), Expr::Field(Box::new(Expr::Field(Box::new(var("A")), "I".into())), "P".into())]));
        } else {
            let all = cells(&shape);
            for (k, cell) in all.iter().enumerate() {
                for (loc, val) in cell_writes("A", elem, cell, k as i64 + 1) {
                    body.push(b.assign(loc, val));
                }
            }
            body.extend(dump(b, "A", elem, &shape, "a"));
            let an = arr_name("A", elem);
            for d in 1..=shape.dims.len() {
                body.push(b.print(vec![builtin("LBOUND", vec![var(&an), num(d as i64)]), builtin("UBOUND", vec![var(&an), num(d as i64)])]));
            }
        }
        body
}

/// A declaration that control flow goes past without executing it: records and arrays with literal bounds
/// exist all the same (they are allocated when the module or subprogram starts) and behave as declared;
/// arrays whose bounds are computed, and REDIMmed ones, do not exist yet: Subscript out of range.
/// Main module and inside a SUB; scalar DIMs (typed by AS) ride along to show the type still applies.
pub fn bypassed_dim_programs() -> Vec<(Prog, String)> {
    let mut out = vec![];
    // (label, declaration, is it a dynamic array)
    let decls: Vec<(&str, Elem, Vec<(i32, i32)>, u8)> = vec![
        ("static array", Elem::Scalar(Ty::Int), vec![(1, 3)], 0),
        ("static array, two dimensions, negative lower bound", Elem::Scalar(Ty::Str), vec![(-1, 3), (0, 2)], 0),
        ("static array of records", Elem::Rec, vec![(0, 2)], 0),
        ("static array of fixed strings", Elem::Fix3, vec![(1, 2)], 0),
        ("record", Elem::Rec, vec![], 0),
        ("array with a computed bound", Elem::Scalar(Ty::Int), vec![(1, 3)], 1),
        ("REDIMmed array", Elem::Scalar(Ty::Str), vec![(1, 3)], 2),
    ];
    for (dl, elem, dims, dynamic) in &decls {
        for (bi, bl) in BYPASSES.iter().enumerate() {
            // placements: the main module; a SUB called twice; and each of the two next to a SUB that declares the same
            // names where control flow cannot go past the declarations (nothing of the first body may leak into it)
            for place in 0..4 {
                if place >= 2 && bi == 5 {
                    continue;
                }
                let in_sub = place == 1 || place == 3;
                let mut b = B::new();
                let body = bypass_body(&mut b, *elem, dims, *dynamic, bi);
                let label = format!("DIM bypassed: {} / {} / {}", dl, bl, ["main module", "in a SUB", "main module, and a SUB declaring the same names plainly", "in a SUB, and another SUB declaring the same names plainly"][place]);
                let mut subs = vec![];
                let mut main = vec![];
                if in_sub {
                    let id = b.id();
                    main.push(b.s(K::Call("Work".into(), vec![])));
                    main.push(b.s(K::Call("Work".into(), vec![])));
                    subs.push(SubDef { id, name: "Work".into(), is_function: false, params: vec![], body, is_static: false });
                } else {
                    main = body;
                }
                if place >= 2 {
                    let plain = bypass_body(&mut b, *elem, dims, *dynamic, 5);
                    let id = b.id();
                    main.push(b.s(K::Call("Plain".into(), vec![])));
                    if in_sub {
                        main.push(b.s(K::Call("Work".into(), vec![])));
                    }
                    subs.push(SubDef { id, name: "Plain".into(), is_function: false, params: vec![], body: plain, is_static: false });
                }
                let declare = !subs.is_empty();
                let prog = Prog { types: rec_types(), main, subs, declare, ..Default::default() };
                out.push((prog, label));
            }
        }
    }
    out
}

/// A DIM SHARED of a record / static array that stands AFTER the first call of a SUB using the variable, and a DIM
/// statement whose first variable fails (trapped) before the record / static array next to it: both exist all the same.
pub fn late_dim_programs() -> Vec<(Prog, String)> {
    let mut out = vec![];
    let decls: Vec<(&str, Elem, Vec<(i32, i32)>)> = vec![
        ("static array", Elem::Scalar(Ty::Int), vec![(1, 3)]),
        ("static array of records", Elem::Rec, vec![(0, 2)]),
        ("static array of fixed strings", Elem::Fix3, vec![(1, 2)]),
        ("record", Elem::Rec, vec![]),
    ];
    for (dl, elem, dims) in &decls {
        for way in 0..4 {
            let mut b = B::new();
            let shape = Shape { dims: dims.clone(), explicit: true };
            let mut d = if dims.is_empty() {
                b.s(K::Dim { shared: false, redim: false, vars: vec![DimVar { name: "A".into(), ty: Some(DeclTy::Rec("Outer".into())), dims: vec![] }] })
            } else {
                dim_stmt(&mut b, "A", &shape, *elem)
            };
            // the location used for the probe: the first cell / the record's first field
            let first: Vec<i32> = dims.iter().map(|(lo, _)| *lo).collect();
            let (loc, val) = if dims.is_empty() {
                (Expr::Field(Box::new(var("A")), "N".into()), num(5))
            } else {
                cell_writes("A", *elem, &first, 5).remove(0)
            };
            let (label, prog) = match way {
                0 | 1 => {
                    // DIM SHARED after the first call of the SUB that uses the variable (way 1: the SUB only reads it)
                    if let K::Dim { shared, .. } = &mut d.k {
                        *shared = true;
                    }
                    let mut body = vec![];
                    if way == 0 {
                        body.push(b.assign(loc.clone(), val.clone()));
                    }
                    body.push(b.print(vec![st("sub"), st("["), loc.clone(), st("]")]));
                    let id = b.id();
                    let sub = SubDef { id, name: "Touch".into(), is_function: false, params: vec![], body, is_static: false };
                    // (whether a value written before the DIM statement runs survives it is not decided here: the module
                    // assigns before it reads)
                    let main = vec![
                        b.s(K::Call("Touch".into(), vec![])),
                        d,
                        b.assign(loc.clone(), val.clone()),
                        b.print(vec![st("main"), st("["), loc.clone(), st("]")]),
                        b.s(K::Call("Touch".into(), vec![])),
                    ];
                    (if way == 0 { "DIM SHARED after the first call of a SUB that writes the variable" } else { "DIM SHARED after the first call of a SUB that reads the variable" }, Prog { types: rec_types(), main, subs: vec![sub], declare: true, ..Default::default() })
                }
                3 => {
                    // the same failing DIM statement inside a SUB, the trap is installed by the module
                    if let K::Dim { vars, .. } = &mut d.k {
                        vars.insert(0, DimVar { name: "B%".into(), ty: None, dims: vec![(None, var("N%"))] });
                    }
                    let body = vec![d, b.assign(loc.clone(), val.clone()), b.print(vec![st("sub"), st("["), loc.clone(), st("]")])];
                    let id = b.id();
                    let sub = SubDef { id, name: "Work".into(), is_function: false, params: vec![Param { name: "N%".into(), ty: None, is_array: false }], body, is_static: false };
                    let main = vec![b.s(K::OnErrorResumeNext), b.s(K::Call("Work".into(), vec![num(-1)])), b.print(vec![st("main")])];
                    ("an earlier variable of the same DIM statement fails inside a SUB, the module installed ON ERROR RESUME NEXT", Prog { types: rec_types(), main, subs: vec![sub], declare: true, ..Default::default() })
                }
                _ => {
                    // DIM B%(N%), A ...: the first variable fails (N% = -1) under ON ERROR RESUME NEXT
                    if let K::Dim { vars, .. } = &mut d.k {
                        vars.insert(0, DimVar { name: "B%".into(), ty: None, dims: vec![(None, var("N%"))] });
                    }
                    let main = vec![
                        b.s(K::OnErrorResumeNext),
                        b.assign(var("N%"), num(-1)),
                        d,
                        b.assign(loc.clone(), val.clone()),
                        b.print(vec![st("main"), st("["), loc.clone(), st("]")]),
                    ];
                    ("an earlier variable of the same DIM statement fails under ON ERROR RESUME NEXT", Prog { types: rec_types(), main, ..Default::default() })
                }
            };
            out.push((prog, format!("DIM bypassed: {} / {}", dl, label)));
        }
    }
    out
}

/// REDIM inside a SUB: of an array that the module declared SHARED (the module's array gets the new bounds and
/// every subprogram sees them) and of a name the module did not share (a local array).
pub fn redim_in_sub_programs() -> Vec<(Prog, String)> {
    let mut out = vec![];
    for elem in [Elem::Scalar(Ty::Int), Elem::Scalar(Ty::Str)] {
        for shared in [true, false] {
            for first_with_dim in [false, true] {
                if first_with_dim && !shared {
                    continue;
                }
                let mut b = B::new();
                let s1 = Shape { dims: vec![(1, 3)], explicit: true };
                let s2 = Shape { dims: vec![(5, 2)], explicit: true };
                let mut d = dim_stmt(&mut b, "A", &s1, elem);
                if let K::Dim { redim, shared: sh, .. } = &mut d.k {
                    // REDIM SHARED A(..), or DIM SHARED of a dynamic array is not expressible: both spell REDIM
                    *redim = true;
                    *sh = shared;
                }
                let an = arr_name("A", elem);
                let mut main = vec![d];
                for (loc, val) in cell_writes("A", elem, &[1], 1) {
                    main.push(b.assign(loc, val));
                }
                main.push(b.s(K::Call("Grow".into(), vec![])));
                main.push(b.print(vec![st("m"), builtin("LBOUND", vec![var(&an)]), builtin("UBOUND", vec![var(&an)])]));
                if shared {
                    main.push(b.print(vec![st("m5"), st("["), Expr::Index(an.clone(), vec![num(5)]), st("]")]));
                } else {
                    main.push(b.print(vec![st("m1"), st("["), Expr::Index(an.clone(), vec![num(1)]), st("]")]));
                }
                main.push(b.s(K::Call("Show".into(), vec![])));
                // SUB Grow re-dimensions A and fills the new cells
                let mut g = dim_stmt(&mut b, "A", &s2, elem);
                if let K::Dim { redim, .. } = &mut g.k {
                    *redim = true;
                }
                let mut body = vec![g];
                for (k, cell) in cells(&s2).iter().enumerate() {
                    for (loc, val) in cell_writes("A", elem, cell, 40 + k as i64) {
                        body.push(b.assign(loc, val));
                    }
                }
                body.push(b.print(vec![st("g"), builtin("LBOUND", vec![var(&an)]), builtin("UBOUND", vec![var(&an)])]));
                let id = b.id();
                let grow = SubDef { id, name: "Grow".into(), is_function: false, params: vec![], body, is_static: false };
                // SUB Show reads the shared array (only when it is shared)
                let body = if shared {
                    vec![b.print(vec![st("s"), builtin("UBOUND", vec![var(&an)]), st("["), Expr::Index(an.clone(), vec![num(6)]), st("]")])]
                } else {
                    vec![b.print(vec![st("s")])]
                };
                let id = b.id();
                let show = SubDef { id, name: "Show".into(), is_function: false, params: vec![], body, is_static: false };
                out.push((Prog { main, subs: vec![grow, show], declare: true, ..Default::default() }, format!("REDIM inside a SUB, {:?}, {}", elem, if shared { "array SHARED by the module" } else { "name not shared: a local array" })));
            }
        }
        // REDIM SHARED at module level, then a plain REDIM of the same array at module level: it stays SHARED
        {
            let mut b = B::new();
            let s1 = Shape { dims: vec![(1, 3)], explicit: true };
            let s2 = Shape { dims: vec![(1, 6)], explicit: true };
            let an = arr_name("A", elem);
            let mut d1 = dim_stmt(&mut b, "A", &s1, elem);
            if let K::Dim { redim, shared, .. } = &mut d1.k {
                *redim = true;
                *shared = true;
            }
            let mut d2 = dim_stmt(&mut b, "A", &s2, elem);
            if let K::Dim { redim, .. } = &mut d2.k {
                *redim = true;
            }
            let mut main = vec![d1, b.s(K::Call("Show".into(), vec![])), d2];
            for (loc, val) in cell_writes("A", elem, &[5], 9) {
                main.push(b.assign(loc, val));
            }
            main.push(b.s(K::Call("Show".into(), vec![])));
            main.push(b.print(vec![st("m"), builtin("UBOUND", vec![var(&an)])]));
            let body = vec![b.print(vec![st("s"), builtin("UBOUND", vec![var(&an)]), st("["), Expr::Index(an.clone(), vec![builtin("UBOUND", vec![var(&an)])]), st("]")])];
            let id = b.id();
            let mut body = body;
            // the SUB also writes the last cell, which the module then reads
            for (loc, val) in cell_writes("A", elem, &[1], 4) {
                body.push(b.assign(loc, val));
            }
            main.push(b.print(vec![st("m1"), st("["), Expr::Index(an.clone(), vec![num(1)]), st("]")]));
            let show = SubDef { id, name: "Show".into(), is_function: false, params: vec![], body, is_static: false };
            out.push((Prog { main, subs: vec![show], declare: true, ..Default::default() }, format!("REDIM SHARED, then a plain REDIM at module level, {:?}", elem)));
        }
    }
    out
}

/// Subscripts that are variables first used in the subscript itself (implicit variables, value 0), in every
/// kind of element path: plain element, element of an array of records, nested record, fixed-length string.
pub fn implicit_index_program() -> Prog {
    let mut b = B::new();
    let shape = Shape { dims: vec![(0, 3)], explicit: false };
    let mut main = vec![
        dim_stmt(&mut b, "A", &shape, Elem::Scalar(Ty::Int)),
        dim_stmt(&mut b, "R", &shape, Elem::Rec),
        dim_stmt(&mut b, "F", &shape, Elem::Fix3),
    ];
    let fld = |base: Expr, f: &str| Expr::Field(Box::new(base), f.to_string());
    // targets whose subscript is a variable never seen before
    main.push(b.assign(Expr::Index("A%".into(), vec![var("I1")]), num(5)));
    main.push(b.assign(fld(Expr::Index("R".into(), vec![var("I2")]), "N"), num(6)));
    main.push(b.assign(fld(fld(Expr::Index("R".into(), vec![var("I3")]), "I"), "P"), num(7)));
    main.push(b.assign(Expr::Index("F".into(), vec![var("I4%")]), st("ab")));
    main.push(b.print(vec![
        Expr::Index("A%".into(), vec![num(0)]),
        fld(Expr::Index("R".into(), vec![num(0)]), "N"),
        fld(fld(Expr::Index("R".into(), vec![num(0)]), "I"), "P"),
        st("["),
        Expr::Index("F".into(), vec![num(0)]),
        st("]"),
    ]));
    // reads whose subscript is a variable never seen before, then the same variables assigned
    main.push(b.print(vec![Expr::Index("A%".into(), vec![var("J1")]), fld(Expr::Index("R".into(), vec![var("J2&")]), "N"), var("J1"), var("J2&")]));
    main.push(b.assign(var("I2"), num(2)));
    main.push(b.assign(fld(Expr::Index("R".into(), vec![var("I2")]), "N"), num(8)));
    main.push(b.assign(fld(Expr::Index("R".into(), vec![bin(BinOp::Add, var("I2"), var("K9"))]), "S"), st("xy")));
    main.push(b.print(vec![fld(Expr::Index("R".into(), vec![num(2)]), "N"), st("["), fld(Expr::Index("R".into(), vec![num(2)]), "S"), st("]"), var("K9")]));
    Prog { types: rec_types(), main, ..Default::default() }
}

/// (v) fixed-length strings: STRING * n as variable, record field and array element,
/// assigned strings of length 0..5 through several routes.
pub fn fixed_string_programs() -> Vec<(Prog, String)> {
    let mut out = vec![];
    let sources = ["", "x", "xy", "xyz", "xyzw", "xyzwv"];
    for n in [1u16, 3] {
        for (si, src) in sources.iter().enumerate() {
            for holder in 0..3 {
                for route in 0..5 {
                    let mut b = B::new();
                    let mut main = vec![];
                    let types = vec![TypeDef { name: "Box".into(), fields: vec![("F".into(), DeclTy::FixStr(n)), ("K".into(), DeclTy::Scalar(Ty::Int))] }];
                    let loc: Expr = match holder {
                        0 => {
                            main.push(b.s(K::Dim { shared: false, redim: false, vars: vec![DimVar { name: "H".into(), ty: Some(DeclTy::FixStr(n)), dims: vec![] }] }));
                            var("H")
                        }
                        1 => {
                            main.push(b.s(K::Dim { shared: false, redim: false, vars: vec![DimVar { name: "R".into(), ty: Some(DeclTy::Rec("Box".into())), dims: vec![] }] }));
                            Expr::Field(Box::new(var("R")), "F".into())
                        }
                        _ => {
                            main.push(b.s(K::Dim { shared: false, redim: false, vars: vec![DimVar { name: "H".into(), ty: Some(DeclTy::FixStr(n)), dims: vec![(Some(num(1)), num(2))] }] }));
                            main.push(b.assign(Expr::Index("H".into(), vec![num(1)]), st("qq")));
                            Expr::Index("H".into(), vec![num(2)])
                        }
                    };
                    let mut stdin = String::new();
                    let mut subs = vec![];
                    match route {
                        0 => main.push(b.assign(loc.clone(), st(src))),
                        1 => {
                            // through a by-reference $ parameter
                            main.push(b.s(K::Call("SetIt".into(), vec![loc.clone()])));
                            let body = vec![b.assign(var("P$"), st(src))];
                            let id = b.id();
                            subs.push(SubDef { id, name: "SetIt".into(), is_function: false, params: vec![Param { name: "P$".into(), ty: None, is_array: false }], body, is_static: false });
                        }
                        2 => {
                            main.push(b.s(K::Data(vec![DataItem::Quoted(src.to_string())])));
                            main.push(b.s(K::Read(vec![loc.clone()])));
                        }
                        3 => {
                            if src.is_empty() {
                                continue;
                            }
                            stdin = format!("{}\n", src);
                            main.push(b.s(K::LineInput(None, loc.clone())));
                        }
                        _ => {
                            // concatenation with itself after a first assignment
                            main.push(b.assign(loc.clone(), st(src)));
                            main.push(b.assign(loc.clone(), bin(BinOp::Add, st("+"), loc.clone())));
                        }
                    }
                    main.push(b.print(vec![st("["), loc.clone(), st("]"), builtin("LEN", vec![loc.clone()])]));
                    if holder == 2 {
                        main.push(b.print(vec![st("["), Expr::Index("H".into(), vec![num(1)]), st("]")]));
                    }
                    let _ = si;
                    out.push((Prog { types, main, subs, declare: true, ..Default::default() }, stdin));
                }
            }
        }
    }
    // values with characters above 127 (one character each, whatever their encoding inside the interpreter):
    // shorter than, as long as and longer than the field, also where the number of BYTES of a short value equals n
    // and where the n-th byte of a long value falls inside a character
    let chr = |k: i64| builtin("CHR$", vec![num(k)]);
    let cat = |parts: Vec<Expr>| parts.into_iter().reduce(|a, b| bin(BinOp::Add, a, b)).unwrap();
    let high: Vec<(&str, Expr)> = vec![
        ("one high character", chr(200)),
        ("two high characters", cat(vec![chr(200), chr(201)])),
        ("a, high, b", cat(vec![st("a"), chr(233), st("b")])),
        ("abc, high, high, x", cat(vec![st("abc"), chr(233), chr(233), st("x")])),
        ("high, a, high, b, high, c", cat(vec![chr(246), st("a"), chr(246), st("b"), chr(246), st("c")])),
        ("Malm, high, xyz", cat(vec![st("Malm"), chr(246), st("xyz")])),
        ("five high characters", cat(vec![chr(128), chr(160), chr(200), chr(254), chr(255)])),
    ];
    for n in [2u16, 3, 4, 6] {
        for (hl, src) in &high {
            for holder in 0..3 {
                for route in [0usize, 1, 4] {
                    let mut b = B::new();
                    let mut main = vec![];
                    let types = vec![TypeDef { name: "Box".into(), fields: vec![("F".into(), DeclTy::FixStr(n)), ("K".into(), DeclTy::Scalar(Ty::Int))] }];
                    let loc: Expr = match holder {
                        0 => {
                            main.push(b.s(K::Dim { shared: false, redim: false, vars: vec![DimVar { name: "H".into(), ty: Some(DeclTy::FixStr(n)), dims: vec![] }] }));
                            var("H")
                        }
                        1 => {
                            main.push(b.s(K::Dim { shared: false, redim: false, vars: vec![DimVar { name: "R".into(), ty: Some(DeclTy::Rec("Box".into())), dims: vec![] }] }));
                            Expr::Field(Box::new(var("R")), "F".into())
                        }
                        _ => {
                            main.push(b.s(K::Dim { shared: false, redim: false, vars: vec![DimVar { name: "H".into(), ty: Some(DeclTy::FixStr(n)), dims: vec![(Some(num(1)), num(2))] }] }));
                            Expr::Index("H".into(), vec![num(2)])
                        }
                    };
                    let mut subs = vec![];
                    match route {
                        0 => main.push(b.assign(loc.clone(), src.clone())),
                        1 => {
                            main.push(b.s(K::Call("SetIt".into(), vec![loc.clone()])));
                            let body = vec![b.assign(var("P$"), src.clone())];
                            let id = b.id();
                            subs.push(SubDef { id, name: "SetIt".into(), is_function: false, params: vec![Param { name: "P$".into(), ty: None, is_array: false }], body, is_static: false });
                        }
                        _ => {
                            main.push(b.assign(loc.clone(), st("+")));
                            main.push(b.assign(loc.clone(), bin(BinOp::Add, src.clone(), loc.clone())));
                        }
                    }
                    // the length, and every character by its code (nothing above 127 is printed)
                    main.push(b.print(vec![builtin("LEN", vec![loc.clone()])]));
                    for i in 1..=n as i64 {
                        main.push(b.print(vec![builtin("INSTR", vec![builtin("MID$", vec![loc.clone(), num(i), num(1)]), chr(32)]), bin(BinOp::Eq, builtin("MID$", vec![loc.clone(), num(i), num(1)]), chr(233)), bin(BinOp::Eq, builtin("MID$", vec![loc.clone(), num(i), num(1)]), chr(246)), bin(BinOp::Eq, builtin("MID$", vec![loc.clone(), num(i), num(1)]), st("a"))]));
                    }
                    let _ = hl;
                    out.push((Prog { types, main, subs, declare: true, ..Default::default() }, String::new()));
                }
            }
        }
    }
    out
}
