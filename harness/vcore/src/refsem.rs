//! Reference semantics: a small abstract machine for `Prog`, written from the language
//! definition and sharing no code with the repository. Statements are flattened into a
//! linear code per procedure (so that GOTO / GOSUB / RESUME have an obvious meaning),
//! expressions are evaluated recursively on (type, value) pairs inside the exact domain.

use std::collections::{BTreeMap, BTreeSet, HashMap};

use crate::gast::*;
use crate::rvalue::*;

#[derive(Clone, Debug, PartialEq)]
pub enum REnd {
    Normal,
    /// run-time error: code, failing statement, call-site statements innermost first
    Error { code: i32, stmt: Id, sites: Vec<Id> },
    /// the reference does not decide this program (left the exact domain, step limit, unsupported construct)
    Undecided(String),
}

#[derive(Clone, Debug, Default)]
pub struct RefOutcome {
    pub screen: Vec<OutItem>,
    pub lpt: Vec<OutItem>,
    pub files: BTreeMap<String, Vec<OutItem>>,
    pub end: Option<REnd>,
    pub steps: u64,
    pub executed: BTreeSet<Id>,
    /// final values of the module-level variables (canonical name -> value)
    pub globals: BTreeMap<String, V>,
    /// number of run-time errors that were handled
    pub handled_errors: u32,
}

#[derive(Clone, Debug)]
enum Op {
    Mark(Id),
    Simple(Id),
    JmpF(Id, usize),
    JmpT(Id, usize),
    Jmp(usize),
    ForInit(Id),
    ForTest(Id, usize),
    ForNext(Id, usize),
    SelBegin(Id),
    CaseTest(Id, usize, usize),
    SelEnd(Id),
    EndProc,
}

struct Proc<'a> {
    name: String,
    code: Vec<Op>,
    labels: HashMap<String, usize>,
    stmt_start: Vec<usize>,
    def: Option<&'a SubDef>,
}

#[derive(Clone, Debug, Default)]
struct Frame {
    vars: HashMap<String, V>,
    decl: HashMap<String, DeclTy>,
    consts: HashMap<String, V>,
    for_state: HashMap<Id, (f64, f64)>,
    sel: Vec<V>,
    proc_ix: usize,
    /// arrays this scope declares that are allocated only when their DIM / REDIM executes
    pending_arrays: std::collections::HashSet<String>,
}

#[derive(Clone, Debug, PartialEq)]
enum HMode {
    None,
    Next,
    Label(String),
}

struct ResumeInfo {
    proc_ix: usize,
    frame_ix: usize,
    start: usize,
    next: usize,
}

enum Stop {
    Error { code: i32, stmt: Id, sites: Vec<Id> },
    Halt,
    Undecided(String),
    /// RESUME label after an error inside a subprogram: every active subprogram ends, the module goes on at this pc
    ResumeAt(usize),
}

struct FileH {
    name: String,
    mode: FileMode,
    /// read position (bytes) for INPUT
    rpos: usize,
    /// rendered content for reading
    content: Vec<u8>,
    col: usize,
    rec_len: usize,
    fields: Vec<(usize, String)>,
}

pub struct Machine<'a> {
    prog: &'a Prog,
    procs: Vec<Proc<'a>>,
    stmts: HashMap<Id, &'a Stmt>,
    frames: Vec<Frame>,
    statics: HashMap<String, Frame>,
    /// STATIC subprograms that are running: the frame of their innermost activation
    static_active: HashMap<String, usize>,
    shared: BTreeSet<String>,
    data: Vec<DataItem>,
    data_pos: usize,
    stdin: Vec<u8>,
    stdin_pos: usize,
    handler: HMode,
    in_handler: Option<ResumeInfo>,
    err: i32,
    gosub: Vec<(usize, usize)>,
    call_chain: Vec<Id>,
    cols: HashMap<Dev, usize>,
    handles: BTreeMap<u8, FileH>,
    pub out: RefOutcome,
    step_limit: u64,
    depth: usize,
    pending_stop: Option<Stop>,
    pub store: BTreeMap<String, Vec<OutItem>>,
}

fn up(s: &str) -> String {
    s.to_ascii_uppercase()
}

fn split_suffix(name: &str) -> (String, Option<Ty>) {
    let u = up(name);
    if let Some(last) = u.chars().last()
        && let Some(t) = Ty::from_suffix(last)
    {
        return (u[..u.len() - 1].to_string(), Some(t));
    }
    (u, None)
}

fn is_simple(k: &K) -> bool {
    !matches!(
        k,
        K::If { .. } | K::Select { .. } | K::For { .. } | K::While(..) | K::Do(..) | K::Label(_) | K::Comment(_) | K::Data(_)
    )
}

impl<'a> Machine<'a> {
    pub fn new(prog: &'a Prog, stdin: &[u8]) -> Machine<'a> {
        let mut m = Machine {
            prog,
            procs: vec![],
            stmts: HashMap::new(),
            frames: vec![Frame::default()],
            statics: HashMap::new(),
            static_active: HashMap::new(),
            shared: BTreeSet::new(),
            data: vec![],
            data_pos: 0,
            stdin: stdin.to_vec(),
            stdin_pos: 0,
            handler: HMode::None,
            in_handler: None,
            err: 0,
            gosub: vec![],
            call_chain: vec![],
            cols: HashMap::new(),
            handles: BTreeMap::new(),
            out: RefOutcome::default(),
            step_limit: 200_000,
            depth: 0,
            pending_stop: None,
            store: BTreeMap::new(),
        };
        let mut stmts: HashMap<Id, &'a Stmt> = HashMap::new();
        walk_stmts(&prog.main, &mut |s| {
            stmts.insert(s.id, s);
        });
        for sd in &prog.subs {
            walk_stmts(&sd.body, &mut |s| {
                stmts.insert(s.id, s);
            });
        }
        // DATA is collected from the main module in program order
        walk_stmts(&prog.main, &mut |s| {
            if let K::Data(items) = &s.k {
                m.data.extend(items.iter().cloned());
            }
        });
        m.stmts = stmts;
        m.procs.push(Self::compile("main".into(), &prog.main, None));
        for sd in &prog.subs {
            m.procs.push(Self::compile(up(&sd.name), &sd.body, Some(sd)));
        }
        m
    }

    fn compile(name: String, body: &'a [Stmt], def: Option<&'a SubDef>) -> Proc<'a> {
        let mut p = Proc {
            name,
            code: vec![],
            labels: HashMap::new(),
            stmt_start: vec![],
            def,
        };
        Self::emit_block(&mut p, body);
        p.code.push(Op::EndProc);
        // statement start of every op
        let mut cur = 0usize;
        for (i, op) in p.code.iter().enumerate() {
            if let Op::Mark(_) = op {
                cur = i;
            }
            p.stmt_start.push(cur);
        }
        p
    }

    fn emit_block(p: &mut Proc<'a>, body: &'a [Stmt]) {
        for s in body {
            Self::emit(p, s);
        }
    }

    fn patch(p: &mut Proc<'a>, at: usize, target: usize) {
        match &mut p.code[at] {
            Op::JmpF(_, t) | Op::JmpT(_, t) | Op::Jmp(t) | Op::ForTest(_, t) | Op::CaseTest(_, _, t) => *t = target,
            _ => {}
        }
    }

    fn emit(p: &mut Proc<'a>, s: &'a Stmt) {
        match &s.k {
            K::Comment(_) | K::Data(_) => {}
            K::Label(l) => {
                p.labels.insert(up(l), p.code.len());
            }
            K::If { arms, els, .. } => {
                p.code.push(Op::Mark(s.id));
                let mut to_end = vec![];
                for (i, (_, body)) in arms.iter().enumerate() {
                    let test = p.code.len();
                    // JmpF carries the statement id; the arm index is recovered from the order of tests
                    p.code.push(Op::JmpF(s.id * 64 + i as u32, 0));
                    Self::emit_block(p, body);
                    to_end.push(p.code.len());
                    p.code.push(Op::Jmp(0));
                    let next = p.code.len();
                    Self::patch(p, test, next);
                }
                if let Some(e) = els {
                    Self::emit_block(p, e);
                }
                let end = p.code.len();
                for j in to_end {
                    Self::patch(p, j, end);
                }
            }
            K::Select { cases, els, .. } => {
                p.code.push(Op::Mark(s.id));
                p.code.push(Op::SelBegin(s.id));
                let mut to_end = vec![];
                for (i, (_, body)) in cases.iter().enumerate() {
                    let test = p.code.len();
                    p.code.push(Op::CaseTest(s.id, i, 0));
                    Self::emit_block(p, body);
                    to_end.push(p.code.len());
                    p.code.push(Op::Jmp(0));
                    let next = p.code.len();
                    Self::patch(p, test, next);
                }
                if let Some(e) = els {
                    Self::emit_block(p, e);
                }
                let end = p.code.len();
                for j in to_end {
                    Self::patch(p, j, end);
                }
                p.code.push(Op::SelEnd(s.id));
            }
            K::For { body, .. } => {
                p.code.push(Op::Mark(s.id));
                p.code.push(Op::ForInit(s.id));
                let top = p.code.len();
                p.code.push(Op::ForTest(s.id, 0));
                Self::emit_block(p, body);
                // the increment belongs to the FOR statement (errors are reported there)
                p.code.push(Op::Mark(s.id));
                p.code.push(Op::ForNext(s.id, top));
                let exit = p.code.len();
                Self::patch(p, top, exit);
            }
            K::While(_, body) => {
                p.code.push(Op::Mark(s.id));
                let top = p.code.len();
                p.code.push(Op::JmpF(s.id * 64, 0));
                Self::emit_block(p, body);
                p.code.push(Op::Jmp(top));
                let exit = p.code.len();
                Self::patch(p, top, exit);
            }
            K::Do(kind, _, body) => {
                p.code.push(Op::Mark(s.id));
                match kind {
                    DoKind::WhileTop | DoKind::UntilTop => {
                        let top = p.code.len();
                        if *kind == DoKind::WhileTop {
                            p.code.push(Op::JmpF(s.id * 64, 0));
                        } else {
                            p.code.push(Op::JmpT(s.id * 64, 0));
                        }
                        Self::emit_block(p, body);
                        p.code.push(Op::Jmp(top));
                        let exit = p.code.len();
                        Self::patch(p, top, exit);
                    }
                    _ => {
                        let top = p.code.len();
                        Self::emit_block(p, body);
                        if *kind == DoKind::WhileBottom {
                            p.code.push(Op::JmpT(s.id * 64, top));
                        } else {
                            p.code.push(Op::JmpF(s.id * 64, top));
                        }
                    }
                }
            }
            _ => {
                p.code.push(Op::Mark(s.id));
                p.code.push(Op::Simple(s.id));
            }
        }
    }

    // ------------------------------------------------------------------ names

    fn default_ty(&self, bare: &str) -> Ty {
        let c = bare.chars().next().unwrap_or('A');
        let mut t = Ty::Single;
        for (ty, from, to) in &self.prog.deftypes {
            let (f, l) = (from.to_ascii_uppercase(), to.to_ascii_uppercase());
            let (f, l) = if f <= l { (f, l) } else { (l, f) };
            if c >= f && c <= l {
                t = *ty;
            }
        }
        t
    }

    /// Resolves a spelled name to (frame index, storage key, declared type).
    fn resolve(&self, frame_ix: usize, name: &str) -> (usize, String, DeclTy) {
        let (bare, suffix) = split_suffix(name);
        for &fx in &[frame_ix, 0usize] {
            if fx == 0 && frame_ix != 0 && !self.shared.contains(&bare) {
                continue;
            }
            if let Some(d) = self.frames[fx].decl.get(&bare) {
                let matches = match (d, suffix) {
                    (_, None) => true,
                    (DeclTy::Scalar(t), Some(s)) => *t == s,
                    (DeclTy::FixStr(_), Some(s)) => s == Ty::Str,
                    (DeclTy::Rec(_), Some(_)) => false,
                };
                if matches {
                    return (fx, bare.clone(), d.clone());
                }
            }
        }
        let ty = suffix.unwrap_or_else(|| self.default_ty(&bare));
        let key = format!("{}{}", bare, ty.suffix());
        // a shared variable without AS clause (DIM SHARED X%)
        if frame_ix != 0 && self.shared.contains(&key) {
            return (0, key, DeclTy::Scalar(ty));
        }
        (frame_ix, key, DeclTy::Scalar(ty))
    }

    fn find_const(&self, frame_ix: usize, name: &str) -> Option<V> {
        let (bare, suffix) = split_suffix(name);
        for &fx in &[frame_ix, 0usize] {
            if let Some(v) = self.frames[fx].consts.get(&bare) {
                if let (Some(s), V::N(t, _)) = (suffix, v)
                    && s != *t
                {
                    continue;
                }
                return Some(v.clone());
            }
        }
        None
    }

    fn new_value(&self, d: &DeclTy) -> R<V> {
        Ok(match d {
            DeclTy::Scalar(t) => default_value(*t),
            DeclTy::FixStr(n) => V::S(vec![b' '; *n as usize]),
            DeclTy::Rec(name) => {
                let td = self
                    .prog
                    .types
                    .iter()
                    .find(|t| up(&t.name) == up(name))
                    .ok_or(RErr::Inexact("unknown record type".into()))?;
                let mut fields = vec![];
                for (f, ft) in &td.fields {
                    fields.push((up(f), self.new_value(ft)?));
                }
                V::R(fields)
            }
        })
    }

    // ------------------------------------------------------------------ lvalues

    /// Reads the value of a location expression.
    fn load(&mut self, fx: usize, e: &Expr) -> R<V> {
        match e {
            Expr::Var(n) => {
                if let Some(c) = self.find_const(fx, n) {
                    return Ok(c);
                }
                let (f, key, d) = self.resolve(fx, n);
                if let Some(v) = self.frames[f].vars.get(&key) {
                    return Ok(v.clone());
                }
                let v = self.new_value(&d)?;
                self.frames[f].vars.insert(key, v.clone());
                Ok(v)
            }
            Expr::Index(n, idx) => {
                let ix = self.indices(fx, idx)?;
                let (f, key, _) = self.resolve(fx, n);
                match self.frames[f].vars.get(&key) {
                    Some(V::A(a)) => {
                        let off = a.offset(&ix)?;
                        Ok(a.elems[off].clone())
                    }
                    _ if self.frames[fx].pending_arrays.contains(&key) || self.frames[f].pending_arrays.contains(&key) => Err(SUBSCRIPT),
                    _ => inexact("indexing something that is not a declared array"),
                }
            }
            Expr::Field(base, fld) => match self.load(fx, base)? {
                V::R(fields) => fields
                    .iter()
                    .find(|(n, _)| *n == up(fld))
                    .map(|(_, v)| v.clone())
                    .ok_or(RErr::Inexact("unknown field".into())),
                _ => inexact("field of a non-record"),
            },
            _ => inexact("not a location"),
        }
    }

    fn indices(&mut self, fx: usize, idx: &[Expr]) -> R<Vec<i32>> {
        let mut out = vec![];
        for e in idx {
            let v = self.eval(fx, e)?;
            match v {
                V::N(_, x) => out.push(conv_num(x, Ty::Int)? as i32),
                _ => return Err(TYPE_MISMATCH),
            }
        }
        Ok(out)
    }

    /// The declared shape of a location: the value currently stored there.
    fn shape_of(&mut self, fx: usize, e: &Expr) -> R<V> {
        self.load(fx, e)
    }

    /// Converts `v` for storing into a location that currently holds `old`.
    fn coerce(old: &V, v: V, fix_len: Option<usize>) -> R<V> {
        match (old, v) {
            (V::N(t, _), V::N(_, x)) => Ok(V::N(*t, conv_num(x, *t)?)),
            (V::S(o), V::S(mut s)) => {
                let n = fix_len.or(None);
                if let Some(n) = n {
                    s.truncate(n);
                    while s.len() < n {
                        s.push(b' ');
                    }
                }
                let _ = o;
                Ok(V::S(s))
            }
            (V::R(a), V::R(b)) => {
                if a.len() == b.len() {
                    Ok(V::R(b))
                } else {
                    Err(TYPE_MISMATCH)
                }
            }
            _ => Err(TYPE_MISMATCH),
        }
    }

    /// Is the location a fixed-length string, and of which length?
    fn fix_len(&self, fx: usize, e: &Expr) -> Option<usize> {
        match e {
            Expr::Var(n) | Expr::Index(n, _) => match self.resolve(fx, n).2 {
                DeclTy::FixStr(k) => Some(k as usize),
                _ => None,
            },
            Expr::Field(base, fld) => {
                let rec_ty = self.rec_type_of(fx, base)?;
                let td = self.prog.types.iter().find(|t| up(&t.name) == rec_ty)?;
                match td.fields.iter().find(|(n, _)| up(n) == up(fld))?.1 {
                    DeclTy::FixStr(k) => Some(k as usize),
                    _ => None,
                }
            }
            _ => None,
        }
    }

    fn rec_type_of(&self, fx: usize, e: &Expr) -> Option<String> {
        match e {
            Expr::Var(n) | Expr::Index(n, _) => match self.resolve(fx, n).2 {
                DeclTy::Rec(r) => Some(up(&r)),
                _ => None,
            },
            Expr::Field(base, fld) => {
                let rec_ty = self.rec_type_of(fx, base)?;
                let td = self.prog.types.iter().find(|t| up(&t.name) == rec_ty)?;
                match &td.fields.iter().find(|(n, _)| up(n) == up(fld))?.1 {
                    DeclTy::Rec(r) => Some(up(r)),
                    _ => None,
                }
            }
            _ => None,
        }
    }

    /// The location an expression denotes, with every subscript evaluated (once) and replaced by its value:
    /// a location is determined when the statement (or the call that passes it by reference) starts.
    fn freeze(&mut self, fx: usize, e: &Expr) -> R<Expr> {
        Ok(match e {
            Expr::Index(n, idx) if !idx.is_empty() => {
                let ix = self.indices(fx, idx)?;
                Expr::Index(n.clone(), ix.into_iter().map(|i| crate::gast::num(i as i64)).collect())
            }
            Expr::Field(base, f) => Expr::Field(Box::new(self.freeze(fx, base)?), f.clone()),
            other => other.clone(),
        })
    }

    fn store(&mut self, fx: usize, e: &Expr, v: V) -> R<()> {
        let frozen = self.freeze(fx, e)?;
        let e = &frozen;
        let old = self.shape_of(fx, e)?;
        let fl = self.fix_len(fx, e);
        let nv = Self::coerce(&old, v, fl)?;
        self.store_raw(fx, e, nv)
    }

    fn store_raw(&mut self, fx: usize, e: &Expr, nv: V) -> R<()> {
        match e {
            Expr::Var(n) => {
                if self.find_const(fx, n).is_some() {
                    return inexact("assignment to a constant");
                }
                let (f, key, _) = self.resolve(fx, n);
                self.frames[f].vars.insert(key, nv);
                Ok(())
            }
            Expr::Index(n, idx) => {
                let ix = self.indices(fx, idx)?;
                let (f, key, _) = self.resolve(fx, n);
                let pending = self.frames[fx].pending_arrays.contains(&key) || self.frames[f].pending_arrays.contains(&key);
                match self.frames[f].vars.get_mut(&key) {
                    Some(V::A(a)) => {
                        let off = a.offset(&ix)?;
                        a.elems[off] = nv;
                        Ok(())
                    }
                    _ if pending => Err(SUBSCRIPT),
                    _ => inexact("indexing something that is not a declared array"),
                }
            }
            Expr::Field(base, fld) => {
                let mut rec = self.load(fx, base)?;
                match &mut rec {
                    V::R(fields) => {
                        let slot = fields
                            .iter_mut()
                            .find(|(n, _)| *n == up(fld))
                            .ok_or(RErr::Inexact("unknown field".into()))?;
                        slot.1 = nv;
                    }
                    _ => return inexact("field of a non-record"),
                }
                self.store_raw(fx, base, rec)
            }
            _ => inexact("not a location"),
        }
    }

    // ------------------------------------------------------------------ expressions

    pub fn eval(&mut self, fx: usize, e: &Expr) -> R<V> {
        match e {
            Expr::Num(t) => literal(t),
            Expr::Str(s) => Ok(V::S(s.as_bytes().to_vec())),
            Expr::Var(_) | Expr::Index(..) | Expr::Field(..) => {
                // a bare name may be a parameterless function
                if let Expr::Var(n) = e
                    && self.find_proc(n).is_some()
                    && !self.is_own_function_name(fx, n)
                {
                    return self.call_function(fx, n, &[]);
                }
                self.load(fx, e)
            }
            Expr::Bin(op, l, r) => {
                let a = self.eval(fx, l)?;
                let b = self.eval(fx, r)?;
                binop(*op, &a, &b)
            }
            Expr::Neg(x) => {
                // a minus sign directly before a numeric literal is part of the literal
                if let Expr::Num(t) = &**x {
                    return match crate::prec::expected_literal(t).map(|l| l.negated()) {
                        Some(crate::prec::Lit::Integer(v)) => Ok(V::N(Ty::Int, v as f64)),
                        Some(crate::prec::Lit::Long(v)) => Ok(V::N(Ty::Long, v as f64)),
                        Some(crate::prec::Lit::Single(_)) | Some(crate::prec::Lit::Double(_)) => {
                            let v = literal(t)?;
                            neg(&v)
                        }
                        _ => inexact("unsupported literal"),
                    };
                }
                let v = self.eval(fx, x)?;
                neg(&v)
            }
            Expr::Not(x) => {
                let v = self.eval(fx, x)?;
                not(&v)
            }
            Expr::Paren(x) => self.eval(fx, x),
            Expr::Call(n, args) => self.call_function(fx, n, args),
            Expr::Builtin(n, args) => self.builtin(fx, n, args),
        }
    }

    fn find_proc(&self, name: &str) -> Option<usize> {
        let (bare, _) = split_suffix(name);
        self.procs.iter().position(|p| {
            p.def.is_some() && {
                let (pb, _) = split_suffix(&p.name);
                pb == bare
            }
        })
    }

    fn is_own_function_name(&self, fx: usize, name: &str) -> bool {
        let px = self.frames[fx].proc_ix;
        match self.procs[px].def {
            Some(d) if d.is_function => split_suffix(&d.name).0 == split_suffix(name).0,
            _ => false,
        }
    }

    fn function_type(&self, def: &SubDef) -> Ty {
        let (bare, suffix) = split_suffix(&def.name);
        suffix.unwrap_or_else(|| self.default_ty(&bare))
    }

    fn call_function(&mut self, fx: usize, name: &str, args: &[Expr]) -> R<V> {
        let px = self.find_proc(name).ok_or(RErr::Inexact("unknown function".into()))?;
        let def = self.procs[px].def.unwrap();
        if !def.is_function {
            return inexact("sub used as function");
        }
        let ty = self.function_type(def);
        let ret = self.call_proc(fx, px, args)?;
        match ret {
            Some(v) => Ok(v),
            None => Ok(default_value(ty)),
        }
    }

    /// Calls a procedure; by-reference arguments are copied in and, after the return,
    /// copied back left to right. Returns the function result, if any.
    fn call_proc(&mut self, fx: usize, px: usize, args: &[Expr]) -> R<Option<V>> {
        let def = self.procs[px].def.unwrap();
        if args.len() != def.params.len() {
            return inexact("argument count");
        }
        if self.depth > 200 {
            return inexact("recursion too deep for the reference");
        }
        let key = up(&def.name);
        // a STATIC subprogram that is already active (it calls itself): the activations share the variables;
        // the new activation starts from what the running one has, and hands everything but its parameters back
        let outer_static_fx: Option<usize> = if def.is_static { self.static_active.get(&key).copied() } else { None };
        let mut frame = match outer_static_fx {
            Some(ofx) => self.frames[ofx].clone(),
            None if def.is_static => self.statics.remove(&key).unwrap_or_default(),
            None => Frame::default(),
        };
        let mut param_keys: Vec<String> = vec![];
        frame.proc_ix = px;
        frame.for_state.clear();
        frame.sel.clear();
        // bind parameters
        let mut by_ref: Vec<(usize, String)> = vec![];
        let mut frozen_args: Vec<Option<Expr>> = vec![];
        for (i, (p, a)) in def.params.iter().zip(args.iter()).enumerate() {
            let (pbare, psuffix) = split_suffix(&p.name);
            let pty: DeclTy = match (&p.ty, psuffix) {
                (Some(t), _) => t.clone(),
                (None, Some(s)) => DeclTy::Scalar(s),
                (None, None) => DeclTy::Scalar(self.default_ty(&pbare)),
            };
            let pkey = match (&p.ty, psuffix) {
                (Some(_), _) => pbare.clone(),
                (None, Some(s)) => format!("{}{}", pbare, s.suffix()),
                (None, None) => format!("{}{}", pbare, self.default_ty(&pbare).suffix()),
            };
            if p.ty.is_some() {
                frame.decl.insert(pbare.clone(), pty.clone());
            }
            let is_loc = matches!(a, Expr::Var(_) | Expr::Index(..) | Expr::Field(..))
                && !matches!(a, Expr::Var(n) if self.find_const(fx, n).is_some() || (self.find_proc(n).is_some() && !self.is_own_function_name(fx, n)));
            // the location a by-reference argument denotes is fixed now
            let frozen_arg = if is_loc && !p.is_array { Some(self.freeze(fx, a)?) } else { None };
            let a = frozen_arg.as_ref().unwrap_or(a);
            frozen_args.push(frozen_arg.clone());
            let v = if p.is_array {
                // whole array: A() is spelled Index(name, [])
                match a {
                    Expr::Index(n, idx) if idx.is_empty() => {
                        let (f, k, _) = self.resolve(fx, n);
                        let v = self.frames[f].vars.get(&k).cloned().ok_or(RErr::Inexact("array argument not dimensioned".into()))?;
                        by_ref.push((i, pkey.clone()));
                        v
                    }
                    _ => return inexact("array parameter needs a whole array"),
                }
            } else if is_loc {
                let v = self.load(fx, a)?;
                // by reference: the types must match exactly (the checker guarantees it)
                let ok = match (&v, &pty) {
                    (V::N(t, _), DeclTy::Scalar(pt)) => t == pt,
                    (V::S(_), DeclTy::Scalar(Ty::Str)) => true,
                    (V::R(_), DeclTy::Rec(_)) => true,
                    _ => false,
                };
                if !ok {
                    return inexact("by-reference argument of another type");
                }
                by_ref.push((i, pkey.clone()));
                v
            } else {
                let v = self.eval(fx, a)?;
                match &pty {
                    DeclTy::Scalar(t) => conv(&v, *t)?,
                    _ => return inexact("by-value argument for a non-scalar parameter"),
                }
            };
            param_keys.push(pkey.clone());
            frame.vars.insert(pkey, v);
        }
        self.frames.push(frame);
        let new_fx = self.frames.len() - 1;
        let previous_active = if def.is_static { self.static_active.insert(key.clone(), new_fx) } else { None };
        self.depth += 1;
        let r = self.run(px, new_fx);
        self.depth -= 1;
        let frame = self.frames.pop().unwrap();
        if def.is_static {
            match previous_active {
                Some(p) => {
                    self.static_active.insert(key.clone(), p);
                }
                None => {
                    self.static_active.remove(&key);
                }
            }
        }
        if r.is_err() && def.is_static && outer_static_fx.is_none() {
            // an abandoned activation of a STATIC subprogram: its variables persist all the same (the result does not)
            let mut keep = frame.clone();
            if def.is_function {
                let ty = self.function_type(def);
                keep.vars.remove(&format!("{}{}", split_suffix(&def.name).0, ty.suffix()));
            }
            self.statics.insert(key.clone(), keep);
        }
        match r {
            Err(Stop::ResumeAt(_)) if !by_ref.is_empty() => {
                // an abandoned activation does not write its by-reference arguments back in this implementation
                // (copy-in / copy-out); the language passes them by address: not judged
                self.pending_stop = Some(Stop::Undecided("RESUME label out of a subprogram that has by-reference arguments".into()));
                return Err(RErr::Inexact("__stop__".into()));
            }
            Err(stop) => {
                self.pending_stop = Some(stop);
                return Err(RErr::Inexact("__stop__".into()));
            }
            Ok(()) => {}
        }
        if let Some(ofx) = outer_static_fx {
            // back in the activation that made the call: the shared variables as the callee left them,
            // its own parameters and result as they were (before the by-reference arguments are written back)
            let mut keep = frame.clone();
            let outer = &self.frames[ofx];
            let mut own: Vec<(String, Option<V>)> = param_keys.iter().map(|k| (k.clone(), outer.vars.get(k).cloned())).collect();
            if def.is_function {
                let ty = self.function_type(def);
                let rkey = format!("{}{}", split_suffix(&def.name).0, ty.suffix());
                own.push((rkey.clone(), outer.vars.get(&rkey).cloned()));
            }
            for (k, v) in own {
                match v {
                    Some(v) => {
                        keep.vars.insert(k, v);
                    }
                    None => {
                        keep.vars.remove(&k);
                    }
                }
            }
            self.frames[ofx].vars = keep.vars;
            self.frames[ofx].decl = keep.decl;
        }
        // copy back, left to right
        for (i, pkey) in by_ref {
            if let Some(v) = frame.vars.get(&pkey) {
                let arg: &Expr = frozen_args.get(i).and_then(|f| f.as_ref()).unwrap_or(&args[i]);
                let fl = self.fix_len(fx, arg);
                let v = match (v, fl) {
                    (V::S(s), Some(n)) => {
                        let mut s = s.clone();
                        s.truncate(n);
                        while s.len() < n {
                            s.push(b' ');
                        }
                        V::S(s)
                    }
                    _ => v.clone(),
                };
                match arg {
                    Expr::Index(n, idx) if idx.is_empty() => {
                        let (f, k, _) = self.resolve(fx, n);
                        self.frames[f].vars.insert(k, v);
                    }
                    a => self.store_raw(fx, a, v)?,
                }
            }
        }
        let result = if def.is_function {
            let ty = self.function_type(def);
            let rkey = format!("{}{}", split_suffix(&def.name).0, ty.suffix());
            frame.vars.get(&rkey).cloned()
        } else {
            None
        };
        if def.is_static {
            let mut keep = frame;
            // the function result does not persist
            if def.is_function {
                let ty = self.function_type(def);
                keep.vars.remove(&format!("{}{}", split_suffix(&def.name).0, ty.suffix()));
            }
            if outer_static_fx.is_none() {
                self.statics.insert(key, keep);
            }
        }
        Ok(result)
    }
}

include!("refsem_exec.rs");
