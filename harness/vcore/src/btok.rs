//! A small tokenizer for BASIC source text, independent of the repository's
//! parser. It is used to *edit* texts (delete / duplicate / swap / truncate
//! tokens, change case or spacing) — never to decide what a text means.

#[derive(Clone, Copy, Debug, PartialEq, Eq)]
pub enum TokKind {
    /// a run of blanks / tabs
    Blank,
    /// one line end: "\r\n", "\r" or "\n"
    Eol,
    /// "..." (possibly unterminated at the line end)
    Str,
    /// ' ... up to the line end, or REM ... up to the line end
    Comment,
    /// digits with optional fraction and # suffix, &H.., &O..
    Number,
    /// letters, digits, dots, optional type suffix
    Word,
    /// any other single character
    Symbol,
}

#[derive(Clone, Debug, PartialEq, Eq)]
pub struct Tok {
    pub kind: TokKind,
    pub text: String,
}

pub fn tokenize(src: &str) -> Vec<Tok> {
    let chars: Vec<char> = src.chars().collect();
    let mut out = vec![];
    let mut i = 0;
    let n = chars.len();
    // DATA statements keep their raw text up to the end of the statement
    let mut in_data = false;
    while i < n {
        let c = chars[i];
        let start = i;
        let kind;
        if c == '\r' || c == '\n' {
            if c == '\r' && i + 1 < n && chars[i + 1] == '\n' {
                i += 2;
            } else {
                i += 1;
            }
            kind = TokKind::Eol;
            in_data = false;
        } else if c == ' ' || c == '\t' {
            while i < n && (chars[i] == ' ' || chars[i] == '\t') {
                i += 1;
            }
            kind = TokKind::Blank;
        } else if c == '"' {
            i += 1;
            while i < n && chars[i] != '"' && chars[i] != '\r' && chars[i] != '\n' {
                i += 1;
            }
            if i < n && chars[i] == '"' {
                i += 1;
            }
            kind = TokKind::Str;
        } else if c == '\'' && !in_data {
            while i < n && chars[i] != '\r' && chars[i] != '\n' {
                i += 1;
            }
            kind = TokKind::Comment;
        } else if c.is_ascii_digit() || (c == '.' && i + 1 < n && chars[i + 1].is_ascii_digit()) {
            while i < n && chars[i].is_ascii_digit() {
                i += 1;
            }
            if i < n && chars[i] == '.' {
                i += 1;
                while i < n && chars[i].is_ascii_digit() {
                    i += 1;
                }
            }
            if i < n && chars[i] == '#' {
                i += 1;
            }
            kind = TokKind::Number;
        } else if c == '&' && i + 1 < n && matches!(chars[i + 1], 'H' | 'h' | 'O' | 'o') {
            i += 2;
            while i < n && chars[i].is_ascii_hexdigit() {
                i += 1;
            }
            kind = TokKind::Number;
        } else if c.is_ascii_alphabetic() {
            while i < n && (chars[i].is_ascii_alphanumeric() || chars[i] == '.') {
                i += 1;
            }
            let word: String = chars[start..i].iter().collect();
            if word.eq_ignore_ascii_case("REM") && !in_data {
                while i < n && chars[i] != '\r' && chars[i] != '\n' {
                    i += 1;
                }
                kind = TokKind::Comment;
            } else {
                if i < n && matches!(chars[i], '%' | '&' | '!' | '#' | '$') {
                    i += 1;
                }
                if word.eq_ignore_ascii_case("DATA") {
                    in_data = true;
                }
                kind = TokKind::Word;
            }
        } else {
            i += 1;
            if c == ':' {
                in_data = false;
            }
            kind = TokKind::Symbol;
        }
        out.push(Tok {
            kind,
            text: chars[start..i].iter().collect(),
        });
    }
    out
}

pub fn join(toks: &[Tok]) -> String {
    let mut s = String::new();
    for t in toks {
        s.push_str(&t.text);
    }
    s
}

/// Splits a text into lines the way a user counts them: CR LF, CR and LF each end a line.
pub fn split_lines(src: &str) -> Vec<String> {
    let chars: Vec<char> = src.chars().collect();
    let mut lines = vec![];
    let mut cur = String::new();
    let mut i = 0;
    while i < chars.len() {
        let c = chars[i];
        if c == '\r' {
            if i + 1 < chars.len() && chars[i + 1] == '\n' {
                i += 1;
            }
            lines.push(std::mem::take(&mut cur));
        } else if c == '\n' {
            lines.push(std::mem::take(&mut cur));
        } else {
            cur.push(c);
        }
        i += 1;
    }
    lines.push(cur);
    lines
}

#[cfg(test)]
mod tests {
    use super::*;

    #[test]
    fn round_trip() {
        let src = "PRINT \"a'b\"; X% ' c\r\nDATA a'b, \"x\"\nREM hi\n10 IF A.B$<>\"\" THEN &HFF .5#";
        let t = tokenize(src);
        assert_eq!(join(&t), src);
        assert!(t.iter().any(|x| x.kind == TokKind::Comment && x.text == "' c"));
        assert!(t.iter().any(|x| x.kind == TokKind::Comment && x.text == "REM hi"));
        assert!(!t.iter().any(|x| x.kind == TokKind::Comment && x.text.starts_with("'b")));
    }

    #[test]
    fn lines() {
        assert_eq!(split_lines("a\r\nb\rc\nd"), vec!["a", "b", "c", "d"]);
        assert_eq!(split_lines("a\n"), vec!["a", ""]);
    }
}
