//! C11: base programs with numbered injection sites (any nesting depth, any call depth),
//! fault statements, and layouts.

use crate::gast::*;
use crate::gprint::{Case, Layout};

/// (kind, raw statement text). The raw text uses names that occur nowhere else in the base programs.
pub const FAULTS: [(&str, &str); 16] = [
    ("syntax", "XQ% = 1 +"),
    ("syntax", "PRINT )"),
    ("syntax", "XQ% = (2"),
    ("syntax", "Helper 1,, 2"),
    ("type mismatch", "XQ% = \"s\""),
    ("type mismatch", "PRINT 1 + \"a\""),
    ("type mismatch", "YQ$ = 5"),
    ("undefined label", "GOTO Nowhere9"),
    ("undefined label", "GOSUB Nowhere9"),
    ("argument count", "Helper 1, 2, 3"),
    ("argument count", "XQ% = Twice%(1, 2)"),
    ("division by zero", "XQ% = 6 / ZQ%"),
    ("division by zero", "PRINT 7 MOD ZQ%"),
    ("subscript out of range", "ARR%(99) = 1"),
    ("overflow", "XQ% = 20000 + 20000"),
    ("overflow", "XQ% = 32767: XQ% = XQ% + 1"),
];

pub struct Built {
    pub prog: Prog,
    /// id of the injected statement
    pub fault_id: Option<Id>,
    /// ids of the call statements active when the site executes, innermost first
    pub chain: Vec<Id>,
    pub site_desc: String,
    pub sites: usize,
}

struct Ctx {
    b: B,
    target: usize,
    counter: usize,
    fault: String,
    fault_id: Option<Id>,
    chain: Vec<Id>,
    cur_chain: Vec<Id>,
    desc: String,
}

impl Ctx {
    /// A potential injection site at the end of `v`.
    fn site(&mut self, v: &mut Vec<Stmt>, desc: &str) {
        if self.counter == self.target {
            let s = self.b.s(K::Raw(self.fault.clone()));
            self.fault_id = Some(s.id);
            self.chain = self.cur_chain.clone();
            self.desc = desc.to_string();
            v.push(s);
        }
        self.counter += 1;
    }

    /// The fault as the only statement of a single-line IF.
    fn site_single_line_if(&mut self, v: &mut Vec<Stmt>, desc: &str) {
        if self.counter == self.target {
            let s = self.b.s(K::Raw(self.fault.clone()));
            self.fault_id = Some(s.id);
            self.chain = self.cur_chain.clone();
            self.desc = desc.to_string();
            let i = self.b.s(K::If { arms: vec![(bin(BinOp::Eq, num(1), num(1)), vec![s])], els: None, single_line: true });
            v.push(i);
        }
        self.counter += 1;
    }
}

fn sub(id: Id, name: &str, is_function: bool, params: &[&str], body: Vec<Stmt>) -> SubDef {
    SubDef {
        id,
        name: name.into(),
        is_function,
        params: params.iter().map(|p| Param { name: p.to_string(), ty: None, is_array: false }).collect(),
        body,
        is_static: false,
    }
}

/// Builds base program `variant` with the fault injected at site `target`
/// (`usize::MAX`: no injection, just count the sites).
pub fn build(variant: usize, target: usize, fault: &str) -> Built {
    let mut c = Ctx { b: B::new(), target, counter: 0, fault: fault.to_string(), fault_id: None, chain: vec![], cur_chain: vec![], desc: String::new() };
    let mut main = vec![c.b.s(K::Dim { shared: true, redim: false, vars: vec![DimVar { name: "ARR%".into(), ty: None, dims: vec![(None, num(2))] }] })];
    c.site(&mut main, "first statement of the module");
    main.push(c.b.print(vec![st("start")]));
    c.site(&mut main, "module level");
    c.site_single_line_if(&mut main, "single-line IF at module level");

    // the call statements (ids are needed for the chains before the callee bodies are built)
    let call_outer = c.b.s(K::Call("Outer".into(), vec![num(1)]));
    let call_inner = c.b.s(K::Call("Inner".into(), vec![bin(BinOp::Add, var("A%"), num(1))]));
    let call_deep = c.b.assign(var("Q%"), call("Deep%", vec![var("B%")]));

    // main: IF > FOR > SELECT
    let mut case1 = vec![];
    c.site(&mut case1, "CASE block inside FOR inside IF");
    case1.push(call_outer.clone());
    c.site(&mut case1, "after a call, CASE block");
    let mut case_else = vec![c.b.print(vec![st("second")])];
    c.site(&mut case_else, "CASE ELSE block (second iteration)");
    let mut for_body = vec![];
    c.site(&mut for_body, "FOR body inside IF");
    for_body.push(c.b.s(K::Select { subject: var("I%"), cases: vec![(vec![CaseExpr::Simple(num(1))], case1)], els: Some(case_else) }));
    c.site(&mut for_body, "end of the FOR body");
    let mut then_block = vec![];
    c.site(&mut then_block, "IF block");
    then_block.push(c.b.s(K::For { var: var("I%"), from: num(1), to: num(2), step: None, body: for_body, next_var: variant % 2 == 1 }));
    c.site(&mut then_block, "after the FOR, in the IF block");
    let else_block = vec![c.b.print(vec![st("no")])];
    main.push(c.b.s(K::If { arms: vec![(bin(BinOp::Eq, num(1), num(1)), then_block)], els: Some(else_block), single_line: false }));

    // main: WHILE > DO
    let mut do_body = vec![c.b.assign(var("D%"), bin(BinOp::Add, var("D%"), num(1)))];
    c.site(&mut do_body, "DO body inside WHILE");
    do_body.push(c.b.print(vec![st("in do")]));
    let mut while_body = vec![c.b.assign(var("W%"), bin(BinOp::Add, var("W%"), num(1)))];
    c.site(&mut while_body, "WHILE body");
    while_body.push(c.b.s(K::Do(if variant % 2 == 0 { DoKind::UntilBottom } else { DoKind::WhileTop }, if variant % 2 == 0 { bin(BinOp::Eq, num(1), num(1)) } else { bin(BinOp::Lt, var("D%"), num(1)) }, do_body)));
    c.site(&mut while_body, "end of the WHILE body");
    main.push(c.b.s(K::While(bin(BinOp::Lt, var("W%"), num(1)), while_body)));
    c.site(&mut main, "after the loops");
    main.push(c.b.print(vec![st("end")]));
    c.site(&mut main, "last statement of the module");

    // Outer (called from main)
    c.cur_chain = vec![call_outer.id];
    let mut outer = vec![];
    c.site(&mut outer, "first statement of a SUB (call depth 1)");
    let mut oif = vec![];
    c.site(&mut oif, "IF block in a SUB (call depth 1)");
    oif.push(call_inner.clone());
    c.site(&mut oif, "after a call in a SUB (call depth 1)");
    outer.push(c.b.s(K::If { arms: vec![(bin(BinOp::Eq, var("A%"), num(1)), oif)], els: None, single_line: false }));
    c.site(&mut outer, "last statement of a SUB (call depth 1)");

    // Inner (called from Outer)
    c.cur_chain = vec![call_inner.id, call_outer.id];
    let mut inner = vec![];
    c.site(&mut inner, "first statement of a SUB (call depth 2)");
    let mut ifor = vec![];
    c.site(&mut ifor, "FOR body in a SUB (call depth 2)");
    ifor.push(call_deep.clone());
    c.site(&mut ifor, "after a FUNCTION call (call depth 2)");
    inner.push(c.b.s(K::For { var: var("J%"), from: num(1), to: num(1), step: None, body: ifor, next_var: false }));
    c.site_single_line_if(&mut inner, "single-line IF in a SUB (call depth 2)");

    // Deep% (called from Inner)
    c.cur_chain = vec![call_deep.id, call_inner.id, call_outer.id];
    let mut deep = vec![];
    c.site(&mut deep, "first statement of a FUNCTION (call depth 3)");
    let mut dsel = vec![];
    c.site(&mut dsel, "CASE block in a FUNCTION (call depth 3)");
    deep.push(c.b.s(K::Select { subject: var("C%"), cases: vec![(vec![CaseExpr::Range(num(0), num(100))], dsel)], els: None }));
    deep.push(c.b.assign(var("Deep%"), bin(BinOp::Mul, var("C%"), num(2))));
    c.site(&mut deep, "last statement of a FUNCTION (call depth 3)");

    let ids: Vec<Id> = (0..5).map(|_| c.b.id()).collect();
    let helper = sub(ids[3], "Helper", false, &["H%"], vec![]);
    let twice = {
        let body = vec![c.b.assign(var("Twice%"), bin(BinOp::Mul, var("T%"), num(2)))];
        sub(ids[4], "Twice%", true, &["T%"], body)
    };
    let mut subs = vec![sub(ids[0], "Outer", false, &["A%"], outer), sub(ids[1], "Inner", false, &["B%"], inner), sub(ids[2], "Deep%", true, &["C%"], deep), helper, twice];
    if variant % 4 >= 2 {
        // another textual order of the subprograms
        subs.reverse();
    }
    if variant >= 4 {
        // STATIC subprograms keep their own stack discipline
        for s in subs.iter_mut() {
            s.is_static = true;
        }
    }
    Built {
        prog: Prog { main, subs, declare: true, ..Default::default() },
        fault_id: c.fault_id,
        chain: c.chain,
        site_desc: c.desc,
        sites: c.counter,
    }
}

pub const VARIANTS: usize = 8;

pub fn layouts(quick: bool) -> Vec<(String, Layout)> {
    let mut out = vec![];
    for (en, eol) in [("LF", "\n"), ("CRLF", "\r\n"), ("CR", "\r")] {
        for blank_lines in [false, true] {
            for trailing_comments in [false, true] {
                for colon_join in [false, true] {
                    if quick && (blank_lines != trailing_comments || blank_lines != colon_join) {
                        continue;
                    }
                    out.push((
                        format!("{}{}{}{}", en, if blank_lines { " +blank lines" } else { "" }, if trailing_comments { " +comments" } else { "" }, if colon_join { " +colons" } else { "" }),
                        Layout { kw_case: if colon_join { Case::Lower } else { Case::Upper }, eol, blank_lines, trailing_comments, colon_join, indent: if blank_lines { 4 } else { 0 }, ..Layout::default() },
                    ));
                }
            }
        }
    }
    out
}
