//! C01 / C02 generators: control-flow compositions (axis A), expressions and types
//! (axis B), DATA / READ (axis C). Everything is enumerated, smallest first.

use crate::gast::*;

pub const KINDS: usize = 16;

pub const KIND_NAMES: [&str; KINDS] = [
    "IF",
    "IF/ELSE",
    "IF/ELSEIF/ELSE",
    "single-line IF/ELSE",
    "SELECT simple",
    "SELECT range/IS/list",
    "FOR",
    "FOR STEP 2",
    "FOR STEP -1",
    "FOR STEP runtime",
    "WHILE",
    "DO WHILE..LOOP",
    "DO UNTIL..LOOP",
    "DO..LOOP WHILE",
    "DO..LOOP UNTIL",
    "FOR STEP alternating",
];

/// An ordered tree of construct kinds.
#[derive(Clone, Debug, PartialEq, Eq, Hash)]
pub struct Node {
    pub kind: usize,
    pub kids: Vec<Node>,
}

/// All ordered forests with exactly `n` nodes (kind 3, the single-line IF, has no children).
pub fn forests(n: usize) -> Vec<Vec<Node>> {
    if n == 0 {
        return vec![vec![]];
    }
    let mut out = vec![];
    // first tree has k nodes (1..=n), the rest of the forest n-k
    for k in 1..=n {
        for first in trees(k) {
            for rest in forests(n - k) {
                let mut f = vec![first.clone()];
                f.extend(rest);
                out.push(f);
            }
        }
    }
    out
}

pub fn trees(n: usize) -> Vec<Node> {
    let mut out = vec![];
    for kind in 0..KINDS {
        if kind == 3 {
            if n == 1 {
                out.push(Node { kind, kids: vec![] });
            }
            continue;
        }
        for kids in forests(n - 1) {
            out.push(Node { kind, kids });
        }
    }
    out
}

pub fn count_nodes(f: &[Node]) -> usize {
    f.iter().map(|n| 1 + count_nodes(&n.kids)).sum()
}

pub fn describe(f: &[Node]) -> String {
    f.iter()
        .map(|n| {
            if n.kids.is_empty() {
                KIND_NAMES[n.kind].to_string()
            } else {
                format!("{}[{}]", KIND_NAMES[n.kind], describe(&n.kids))
            }
        })
        .collect::<Vec<_>>()
        .join(", ")
}

struct G {
    b: B,
    counter: usize,
    last_body: bool,
}

fn tick() -> Expr {
    var("T%")
}

impl G {
    /// `T% = T% + 1` followed by `PRINT "<tag>"; T%`
    fn trace(&mut self, tag: &str) -> Vec<Stmt> {
        vec![
            self.b.assign(tick(), bin(BinOp::Add, tick(), num(1))),
            self.b.print(vec![st(tag), tick()]),
        ]
    }

    fn body(&mut self, tag: &str, kids: &[Node]) -> Vec<Stmt> {
        let mut v = self.trace(tag);
        for k in kids {
            v.extend(self.node(k));
        }
        v
    }

    fn t_mod(&self, m: i32, eq: i32) -> Expr {
        bin(BinOp::Eq, bin(BinOp::Mod, tick(), num(m)), num(eq))
    }

    fn node(&mut self, n: &Node) -> Vec<Stmt> {
        self.counter += 1;
        let id = self.counter;
        let c = format!("C{}%", id);
        let tag = |s: &str| format!("{}{}", id, s);
        let (first_kids, last_kids): (&[Node], &[Node]) = if self.last_body { (&[], &n.kids) } else { (&n.kids, &[]) };
        match n.kind {
            0 => {
                let body = self.body(&tag("t"), &n.kids);
                vec![self.b.s(K::If { arms: vec![(self.t_mod(2, 0), body)], els: None, single_line: false })]
            }
            1 => {
                let a = self.body(&tag("t"), first_kids);
                let e = self.body(&tag("e"), last_kids);
                vec![self.b.s(K::If { arms: vec![(self.t_mod(2, 0), a)], els: Some(e), single_line: false })]
            }
            2 => {
                let a = self.body(&tag("t"), first_kids);
                let m = self.body(&tag("m"), &[]);
                let m2 = self.body(&tag("n"), &[]);
                let e = self.body(&tag("e"), last_kids);
                vec![self.b.s(K::If {
                    arms: vec![(self.t_mod(4, 0), a), (self.t_mod(4, 1), m), (self.t_mod(4, 2), m2)],
                    els: Some(e),
                    single_line: false,
                })]
            }
            3 => {
                let a = vec![self.b.print(vec![st(&tag("t")), tick()])];
                let e = vec![self.b.print(vec![st(&tag("e")), tick()])];
                let s = self.b.s(K::If { arms: vec![(self.t_mod(2, 1), a)], els: Some(e), single_line: true });
                let mut v = vec![self.b.assign(tick(), bin(BinOp::Add, tick(), num(1)))];
                v.push(s);
                v
            }
            4 => {
                let a = self.body(&tag("a"), first_kids);
                let bb = self.body(&tag("b"), &[]);
                let e = self.body(&tag("e"), last_kids);
                vec![self.b.s(K::Select {
                    subject: bin(BinOp::Mod, tick(), num(3)),
                    cases: vec![(vec![CaseExpr::Simple(num(0))], a), (vec![CaseExpr::Simple(num(1))], bb)],
                    els: Some(e),
                })]
            }
            5 => {
                let a = self.body(&tag("a"), first_kids);
                let bb = self.body(&tag("b"), &[]);
                let cc = self.body(&tag("c"), &[]);
                let e = self.body(&tag("e"), last_kids);
                vec![self.b.s(K::Select {
                    subject: bin(BinOp::Mod, tick(), num(7)),
                    cases: vec![
                        (vec![CaseExpr::Range(num(0), num(1))], a),
                        (vec![CaseExpr::Is(BinOp::Gt, num(5))], bb),
                        (vec![CaseExpr::Simple(num(2)), CaseExpr::Range(num(3), num(3)), CaseExpr::Simple(num(4))], cc),
                    ],
                    els: Some(e),
                })]
            }
            15 => {
                // the sign of the step changes from one execution of this FOR statement to the next:
                // downwards (4 TO 1 STEP -2) the first, third ... time, upwards (1 TO 4 STEP 2) the others
                let body = self.body(&tag("f"), &n.kids);
                let nv = format!("N{}%", id);
                let sv = format!("S{}%", id);
                let odd = || bin(BinOp::Mod, var(&nv), num(2));
                let mut pre = vec![
                    self.b.assign(var(&nv), bin(BinOp::Add, var(&nv), num(1))),
                    self.b.assign(var(&sv), bin(BinOp::Sub, num(2), bin(BinOp::Mul, num(4), Expr::Paren(Box::new(odd()))))),
                ];
                let from = bin(BinOp::Add, num(1), bin(BinOp::Mul, num(3), Expr::Paren(Box::new(odd()))));
                let to = bin(BinOp::Sub, num(4), bin(BinOp::Mul, num(3), Expr::Paren(Box::new(odd()))));
                let f = self.b.s(K::For { var: var(&c), from, to, step: Some(var(&sv)), body, next_var: id % 2 == 0 });
                pre.push(f);
                pre.push(self.b.print(vec![st(&tag("x")), var(&c), var(&sv)]));
                pre
            }
            6..=9 => {
                let mut body = self.body(&tag("f"), &n.kids);
                let mut pre = vec![];
                let mut post_items = vec![];
                let (from, to, step) = match n.kind {
                    // odd construct numbers write the limit with a fraction: it is converted to the counter's type (1.75 is 2)
                    6 => (num(1), if id % 2 == 1 { Expr::Num("1.75".into()) } else { num(2) }, None),
                    7 => (num(1), num(4), Some(num(2))),
                    8 => (num(2), num(1), Some(num(-1))),
                    _ => {
                        // run-time step and limit in variables of the counter's type: negative for odd construct
                        // numbers. The body changes both: limit and step are evaluated once, when the loop is entered.
                        let sv = format!("S{}%", id);
                        let lv = format!("L{}%", id);
                        let neg = id % 2 == 1;
                        pre.push(self.b.assign(var(&sv), num(if neg { -2 } else { 2 })));
                        pre.push(self.b.assign(var(&lv), num(if neg { 1 } else { 4 })));
                        body.push(self.b.assign(var(&sv), bin(BinOp::Mul, var(&sv), num(2))));
                        body.push(self.b.assign(var(&lv), bin(BinOp::Add, var(&lv), var(&sv))));
                        post_items.push(var(&sv));
                        post_items.push(var(&lv));
                        if neg { (num(4), var(&lv), Some(var(&sv))) } else { (num(1), var(&lv), Some(var(&sv))) }
                    }
                };
                let f = self.b.s(K::For { var: var(&c), from, to, step, body, next_var: id % 2 == 0 });
                pre.push(f);
                // the counter after the loop is part of the semantics
                let mut items = vec![st(&tag("x")), var(&c)];
                items.extend(post_items);
                pre.push(self.b.print(items));
                pre
            }
            _ => {
                let inc = self.b.assign(var(&c), bin(BinOp::Add, var(&c), num(1)));
                let mut body = vec![inc];
                body.extend(self.body(&tag("w"), &n.kids));
                let init = self.b.assign(var(&c), num(0));
                let lt = bin(BinOp::Lt, var(&c), num(2));
                let ge = bin(BinOp::Ge, var(&c), num(2));
                let s = match n.kind {
                    10 => self.b.s(K::While(lt, body)),
                    11 => self.b.s(K::Do(DoKind::WhileTop, lt, body)),
                    12 => self.b.s(K::Do(DoKind::UntilTop, ge, body)),
                    13 => self.b.s(K::Do(DoKind::WhileBottom, lt, body)),
                    _ => self.b.s(K::Do(DoKind::UntilBottom, ge, body)),
                };
                vec![init, s]
            }
        }
    }
}

/// The program for a forest: the constructs in sequence, then a final trace.
pub fn control_program(f: &[Node], last_body: bool) -> Prog {
    let mut g = G { b: B::new(), counter: 0, last_body };
    let mut main = vec![];
    for n in f {
        main.extend(g.node(n));
    }
    main.push(g.b.print(vec![st("end"), tick()]));
    Prog { main, ..Default::default() }
}

/// The same forest inside a SUB body (called once from the main module).
pub fn control_program_in_sub(f: &[Node], last_body: bool) -> Prog {
    let mut g = G { b: B::new(), counter: 0, last_body };
    let mut body = vec![];
    for n in f {
        body.extend(g.node(n));
    }
    body.push(g.b.print(vec![st("end"), tick()]));
    let call = g.b.s(K::Call("Work".into(), vec![]));
    let fin = g.b.print(vec![st("back")]);
    let id = g.b.id();
    Prog {
        main: vec![call, fin],
        subs: vec![SubDef { id, name: "Work".into(), is_function: false, params: vec![], body, is_static: false }],
        declare: true,
        ..Default::default()
    }
}

/// The forest inside a SUB whose loop counters, step and limit variables and the tick are DIM SHARED
/// module-level variables: a FUNCTION called from every trace reads them as the module sees them, and
/// the module prints them after the SUB returned.
pub fn control_program_shared(f: &[Node], last_body: bool) -> Prog {
    let mut g = G { b: B::new(), counter: 0, last_body };
    let mut body = vec![];
    for n in f {
        body.extend(g.node(n));
    }
    body.push(g.b.print(vec![st("end"), tick()]));
    // every INTEGER variable the body mentions
    let mut names: Vec<String> = vec![];
    fn collect(e: &Expr, names: &mut Vec<String>) {
        match e {
            Expr::Var(n) => {
                if !names.contains(n) {
                    names.push(n.clone());
                }
            }
            Expr::Bin(_, a, b) => {
                collect(a, names);
                collect(b, names);
            }
            Expr::Neg(a) | Expr::Not(a) | Expr::Paren(a) => collect(a, names),
            Expr::Index(_, v) | Expr::Call(_, v) | Expr::Builtin(_, v) => v.iter().for_each(|x| collect(x, names)),
            Expr::Field(a, _) => collect(a, names),
            _ => {}
        }
    }
    walk_stmts(&body, &mut |s| match &s.k {
        K::Assign(l, r) => {
            collect(l, &mut names);
            collect(r, &mut names);
        }
        K::For { var, from, to, step, .. } => {
            collect(var, &mut names);
            collect(from, &mut names);
            collect(to, &mut names);
            if let Some(x) = step {
                collect(x, &mut names);
            }
        }
        K::While(c, _) | K::Do(_, c, _) => collect(c, &mut names),
        _ => {}
    });
    names.sort();
    // the loop counters are read through a FUNCTION at the end of every loop body
    let counters: Vec<String> = names.iter().filter(|n| n.starts_with('C')).cloned().collect();
    fn add_probe(stmts: &mut Vec<Stmt>, b: &mut B) {
        for s in stmts.iter_mut() {
            match &mut s.k {
                K::If { arms, els, .. } => {
                    for (_, body) in arms.iter_mut() {
                        add_probe(body, b);
                    }
                    if let Some(e) = els {
                        add_probe(e, b);
                    }
                }
                K::Select { cases, els, .. } => {
                    for (_, body) in cases.iter_mut() {
                        add_probe(body, b);
                    }
                    if let Some(e) = els {
                        add_probe(e, b);
                    }
                }
                K::For { body, .. } | K::While(_, body) | K::Do(_, _, body) => {
                    add_probe(body, b);
                    body.push(b.print(vec![st("seen"), call("Seen%", vec![])]));
                }
                _ => {}
            }
        }
    }
    add_probe(&mut body, &mut g.b);
    let mut sum: Expr = num(0);
    for (i, c) in counters.iter().enumerate() {
        sum = bin(BinOp::Add, sum, bin(BinOp::Mul, var(c), num(1 + 10 * i as i64)));
    }
    let fbody = vec![g.b.assign(var("Seen%"), sum)];
    let dim = g.b.s(K::Dim { shared: true, redim: false, vars: names.iter().map(|n| DimVar { name: n.clone(), ty: None, dims: vec![] }).collect() });
    let call_stmt = g.b.s(K::Call("Work".into(), vec![]));
    let fin = g.b.print(std::iter::once(st("back")).chain(names.iter().map(|n| var(n))).collect());
    let id = g.b.id();
    let id2 = g.b.id();
    Prog {
        main: vec![dim, call_stmt, fin],
        subs: vec![
            SubDef { id, name: "Work".into(), is_function: false, params: vec![], body, is_static: false },
            SubDef { id: id2, name: "Seen%".into(), is_function: true, params: vec![], body: fbody, is_static: false },
        ],
        declare: true,
        ..Default::default()
    }
}

// ---------------------------------------------------------------------------
// Axis P: PRINT statements that leave the line open (trailing ; or ,) and the statement that continues it, across
// loop iterations, branches and subprogram calls; FOR headers whose literal does not fit the counter.
// ---------------------------------------------------------------------------

pub fn print_continuation_programs() -> Vec<(Prog, String)> {
    use PItem::*;
    let firsts: Vec<(&str, Vec<PItem>)> = vec![
        ("\"Totals:\";", vec![E(st("Totals:")), Semi]),
        ("7;", vec![E(num(7)), Semi]),
        ("\"ab\",", vec![E(st("ab")), Comma]),
        ("\"abcdefghijklmno\";", vec![E(st("abcdefghijklmno")), Semi]),
        ("\"abcdefghijklm\"; 5;", vec![E(st("abcdefghijklm")), Semi, E(num(5)), Semi]),
    ];
    let seconds: Vec<(&str, Vec<PItem>)> = vec![
        ("1, 2", vec![E(num(1)), Comma, E(num(2))]),
        (", \"z\"", vec![Comma, E(st("z"))]),
        ("\"q\"", vec![E(st("q"))]),
        ("; 5,", vec![Semi, E(num(5)), Comma]),
        ("(nothing)", vec![]),
    ];
    let mut out = vec![];
    for (fl, first) in &firsts {
        for (sl, second) in &seconds {
            for placement in 0..5 {
                let mut b = B::new();
                let p1 = |b: &mut B| b.s(K::Print { dev: Dev::Screen, using: None, items: first.clone() });
                let p2 = |b: &mut B| b.s(K::Print { dev: Dev::Screen, using: None, items: second.clone() });
                let mut main = vec![];
                let mut subs = vec![];
                let where_ = match placement {
                    0 => {
                        main.push(p1(&mut b));
                        main.push(p2(&mut b));
                        "one after the other"
                    }
                    1 => {
                        let body = vec![p1(&mut b)];
                        main.push(b.s(K::For { var: var("I%"), from: num(1), to: num(3), step: None, body, next_var: false }));
                        main.push(p2(&mut b));
                        "the first three times in a FOR loop, the second after it"
                    }
                    2 => {
                        let a = vec![p1(&mut b)];
                        main.push(b.s(K::If { arms: vec![(bin(BinOp::Eq, var("Z%"), num(0)), a)], els: None, single_line: false }));
                        let mut body = vec![p2(&mut b)];
                        body.push(b.assign(var("W%"), num(1)));
                        main.push(b.s(K::While(bin(BinOp::Lt, var("W%"), num(1)), body)));
                        "the first in an IF block, the second in a WHILE body"
                    }
                    3 => {
                        let body = vec![p1(&mut b)];
                        let id = b.id();
                        subs.push(SubDef { id, name: "Lead".into(), is_function: false, params: vec![], body, is_static: false });
                        main.push(b.s(K::Call("Lead".into(), vec![])));
                        main.push(p2(&mut b));
                        "the first in a SUB, the second in the module"
                    }
                    _ => {
                        main.push(p1(&mut b));
                        let x = b.assign(var("X%"), bin(BinOp::Add, var("X%"), num(1)));
                        main.push(x);
                        main.push(b.s(K::Print { dev: Dev::Lpt, using: None, items: vec![E(st("lp"))] }));
                        main.push(p2(&mut b));
                        "an assignment and an LPRINT in between"
                    }
                };
                main.push(b.print(vec![st("end")]));
                out.push((Prog { main, subs, declare: true, ..Default::default() }, format!("PRINT {} then PRINT {}: {}", fl, sl, where_)));
            }
        }
    }
    out
}

// ---------------------------------------------------------------------------
// Axis B: expressions and types. A snippet is a short statement list that sets
// its own operands; snippets are batched into one program.
// ---------------------------------------------------------------------------

#[derive(Clone, Debug)]
pub struct Snip {
    pub stmts: Vec<Stmt>,
    pub label: String,
    /// the checker must reject the snippet with a type mismatch
    pub ill_typed: bool,
}

fn reid_block(stmts: &[Stmt], b: &mut B) -> Vec<Stmt> {
    stmts
        .iter()
        .map(|s| {
            let k = match &s.k {
                K::If { arms, els, single_line } => K::If {
                    arms: arms.iter().map(|(c, body)| (c.clone(), reid_block(body, b))).collect(),
                    els: els.as_ref().map(|e| reid_block(e, b)),
                    single_line: *single_line,
                },
                K::Select { subject, cases, els } => K::Select {
                    subject: subject.clone(),
                    cases: cases.iter().map(|(t, body)| (t.clone(), reid_block(body, b))).collect(),
                    els: els.as_ref().map(|e| reid_block(e, b)),
                },
                K::For { var, from, to, step, body, next_var } => K::For {
                    var: var.clone(),
                    from: from.clone(),
                    to: to.clone(),
                    step: step.clone(),
                    body: reid_block(body, b),
                    next_var: *next_var,
                },
                K::While(c, body) => K::While(c.clone(), reid_block(body, b)),
                K::Do(k, c, body) => K::Do(*k, c.clone(), reid_block(body, b)),
                other => other.clone(),
            };
            b.s(k)
        })
        .collect()
}

/// One program out of a header (types, subs), prelude statements and several snippets.
pub fn assemble_with(header: &Prog, prelude: &dyn Fn(&mut B) -> Vec<Stmt>, snips: &[&Snip]) -> Prog {
    let mut b = B::new();
    // keep the ids of the header's statements distinct from the new ones
    let mut max_id = 0;
    header.walk(&mut |s| max_id = max_id.max(s.id));
    for s in &header.subs {
        max_id = max_id.max(s.id);
    }
    for _ in 0..=max_id {
        b.id();
    }
    let mut main = prelude(&mut b);
    for s in snips {
        main.extend(reid_block(&s.stmts, &mut b));
    }
    let mut p = header.clone();
    p.main = main;
    p
}

/// One program out of several snippets (fresh statement ids).
pub fn assemble(snips: &[&Snip]) -> Prog {
    let mut b = B::new();
    let mut main = vec![];
    for s in snips {
        main.extend(reid_block(&s.stmts, &mut b));
    }
    Prog { main, ..Default::default() }
}

pub fn value_menu(t: Ty) -> Vec<Expr> {
    match t {
        Ty::Int => vec![num(0), num(1), num(-3), num(7)],
        Ty::Long => vec![num(0), num(1), num(-70000), num(100000)],
        Ty::Single => vec![Expr::Num("0.0".into()), Expr::Num("1.5".into()), Expr::Neg(Box::new(Expr::Num(".25".into()))), Expr::Num("3.0".into())],
        Ty::Double => vec![Expr::Num("0.0#".into()), Expr::Num("2.5#".into()), Expr::Neg(Box::new(Expr::Num(".5#".into()))), Expr::Num("8.0#".into())],
        Ty::Str => vec![st(""), st("a"), st("B"), st("ab")],
    }
}

fn tvar(base: &str, t: Ty) -> Expr {
    var(&format!("{}{}", base, t.suffix()))
}

fn well_typed(op: BinOp, a: Ty, b: Ty) -> bool {
    match (a == Ty::Str, b == Ty::Str) {
        (false, false) => true,
        (true, true) => op == BinOp::Add || op.is_relational(),
        _ => false,
    }
}

/// The statements that use an expression `e` (of result kind string / numeric) in a context.
fn in_context(b: &mut B, ctx: usize, e: Expr, is_str: bool) -> Option<Vec<Stmt>> {
    let p = |b: &mut B, items: Vec<Expr>| b.print(items);
    Some(match ctx {
        0 => vec![p(b, vec![e])],
        1..=5 => {
            let t = Ty::ALL[ctx - 1];
            if is_str != (t == Ty::Str) {
                return None;
            }
            vec![b.assign(tvar("X", t), e), p(b, vec![tvar("X", t)])]
        }
        6 => {
            if is_str {
                return None;
            }
            let a = vec![p(b, vec![st("t")])];
            let el = vec![p(b, vec![st("f")])];
            vec![b.s(K::If { arms: vec![(e, a)], els: Some(el), single_line: false })]
        }
        7 => {
            let a = vec![p(b, vec![st("m")])];
            let el = vec![p(b, vec![st("e")])];
            let test = if is_str { CaseExpr::Simple(st("a")) } else { CaseExpr::Is(BinOp::Gt, num(0)) };
            vec![b.s(K::Select { subject: e, cases: vec![(vec![test], a)], els: Some(el) })]
        }
        _ => {
            if is_str {
                return None;
            }
            // FOR bound (only evaluated when the loop is short: decided by the reference at run time)
            let body = vec![];
            vec![
                b.s(K::For { var: var("K%"), from: num(1), to: e, step: None, body, next_var: false }),
                p(b, vec![var("K%")]),
            ]
        }
    })
}

pub const CONTEXTS: usize = 9;

/// Depth-1 expressions: every operator x operand types x value menu x context,
/// operands as literals (form 0), as variables (form 1), and as variables with the whole
/// expression in parentheses (form 2, in the storing contexts).
pub fn axis_b_depth1() -> Vec<Snip> {
    let mut out = vec![];
    for op in BinOp::ALL {
        for ta in Ty::ALL {
            for tb in Ty::ALL {
                let ok = well_typed(op, ta, tb);
                let vals_a = value_menu(ta);
                let vals_b = value_menu(tb);
                let pairs: Vec<(Expr, Expr)> = if ok {
                    vals_a.iter().flat_map(|a| vals_b.iter().map(move |b| (a.clone(), b.clone()))).collect()
                } else {
                    vec![(vals_a[1].clone(), vals_b[1].clone())]
                };
                let result_is_str = ta == Ty::Str && op == BinOp::Add;
                for (va, vb) in pairs {
                    for form in 0..3 {
                        for ctx in 0..CONTEXTS {
                            if !ok && (ctx != 0 || form != 0) {
                                continue;
                            }
                            // FOR bounds only for small results; the reference decides at run time,
                            // so keep the candidates few: literal form, multiplicative operators excluded
                            if ctx == 8 && (form == 1 || matches!(op, BinOp::Mul)) {
                                continue;
                            }
                            // form 2 (the whole expression in parentheses, operands in variables):
                            // where the value is stored or bounds a loop
                            if form == 2 && !matches!(ctx, 1..=5 | 8) {
                                continue;
                            }
                            let mut b = B::new();
                            let mut stmts = vec![];
                            let e = if form == 0 {
                                bin(op, va.clone(), vb.clone())
                            } else {
                                stmts.push(b.assign(tvar("L", ta), va.clone()));
                                stmts.push(b.assign(tvar("R", tb), vb.clone()));
                                let e = bin(op, tvar("L", ta), tvar("R", tb));
                                if form == 2 { Expr::Paren(Box::new(e)) } else { e }
                            };
                            let Some(use_) = in_context(&mut b, ctx, e, result_is_str) else { continue };
                            stmts.extend(use_);
                            out.push(Snip {
                                stmts,
                                label: format!("{:?} {:?} {:?} ctx{} form{}", ta, op, tb, ctx, form),
                                ill_typed: !ok,
                            });
                        }
                    }
                }
            }
        }
    }
    // two corners of the arithmetic that the implementation is known to get wrong (open findings F-C01-2 / F-C01-3):
    // comparisons of numbers closer together than 0.00001, and a whole quotient used in further arithmetic
    for (k, (l, op, r)) in [(".00000762939453125#", BinOp::Gt, "0"), (".00000762939453125#", BinOp::Eq, "0"), ("1.00000762939453125#", BinOp::Gt, "1"), (".00000762939453125", BinOp::Ne, "0")].into_iter().enumerate() {
        let mut b = B::new();
        let v = if l.ends_with('#') { "CL#" } else { "CL!" };
        let stmts = vec![b.assign(var(v), Expr::Num(l.to_string())), b.print(vec![bin(op, var(v), Expr::Num(r.to_string()))])];
        out.push(Snip { stmts, label: format!("comparison below the tolerance #{}", k), ill_typed: false });
    }
    // a LONG beyond 2^24 that no SINGLE holds, against the SINGLEs next to it (both are exact values of
    // their own types; the order is the order of the numbers): operator, IF condition, CASE tests, loop test
    for (k, (l, s)) in [
        (16777217i64, 16777216i64),
        (16777217, 16777218),
        (-16777217, -16777216),
        (33554433, 33554432),
        (33554435, 33554436),
        (1073741825, 1073741824),
        (2147483647, 2147483648),
        (-2147483647, -2147483648),
        (70001, 70000),
    ]
    .into_iter()
    .enumerate()
    {
        let lit = |v: i64| if v < 0 { Expr::Neg(Box::new(Expr::Num((-v).to_string()))) } else { Expr::Num(v.to_string()) };
        for op in BinOp::ALL.into_iter().filter(|o| o.is_relational()) {
            for order in 0..2 {
                for ctx in [0usize, 1, 6] {
                    let mut b = B::new();
                    let mut stmts = vec![b.assign(var("NL&"), lit(l)), b.assign(var("NS!"), lit(s))];
                    let e = if order == 0 { bin(op, var("NL&"), var("NS!")) } else { bin(op, var("NS!"), var("NL&")) };
                    let Some(use_) = in_context(&mut b, ctx, e, false) else { continue };
                    stmts.extend(use_);
                    out.push(Snip { stmts, label: format!("LONG next to a SINGLE #{} {:?} order{} ctx{}", k, op, order, ctx), ill_typed: false });
                }
            }
        }
        // SELECT CASE on the LONG with the SINGLE in the tests, on the SINGLE with the LONG in the tests; a loop that
        // runs while they differ
        for order in 0..2 {
            let mut b = B::new();
            let (subj, test) = if order == 0 { ("NL&", "NS!") } else { ("NS!", "NL&") };
            let mut stmts = vec![b.assign(var("NL&"), lit(l)), b.assign(var("NS!"), lit(s))];
            let same = vec![b.print(vec![st("same")])];
            let above = vec![b.print(vec![st("above")])];
            let below = vec![b.print(vec![st("below")])];
            stmts.push(b.s(K::Select {
                subject: var(subj),
                cases: vec![(vec![CaseExpr::Simple(var(test))], same), (vec![CaseExpr::Is(BinOp::Gt, var(test))], above)],
                els: Some(below),
            }));
            out.push(Snip { stmts, label: format!("LONG next to a SINGLE #{} CASE order{}", k, order), ill_typed: false });
        }
        if l.abs() < 2147483647 {
            let mut b = B::new();
            let mut stmts = vec![b.assign(var("NL&"), lit(l)), b.assign(var("NS!"), lit(s)), b.assign(var("NN%"), num(0))];
            let (cond, delta) = if l > s { (bin(BinOp::Lt, var("NS!"), var("NL&")), -1) } else { (bin(BinOp::Gt, var("NS!"), var("NL&")), 1) };
            let body = vec![
                b.assign(var("NN%"), bin(BinOp::Add, var("NN%"), num(1))),
                b.assign(var("NL&"), bin(BinOp::Add, var("NL&"), num(delta))),
            ];
            stmts.push(b.s(K::While(cond, body)));
            stmts.push(b.print(vec![var("NN%"), var("NL&")]));
            out.push(Snip { stmts, label: format!("LONG next to a SINGLE #{} WHILE", k), ill_typed: false });
        }
    }
    for (k, e) in [
        bin(BinOp::Mul, bin(BinOp::Div, num(6), num(2)), num(20000)),
        bin(BinOp::Add, bin(BinOp::Div, num(6), num(2)), num(32767)),
        bin(BinOp::Mul, Expr::Paren(Box::new(bin(BinOp::Div, Expr::Num("4.0#".into()), Expr::Num("2.0#".into())))), num(20000)),
    ]
    .into_iter()
    .enumerate()
    {
        let mut b = B::new();
        let stmts = vec![b.print(vec![e])];
        out.push(Snip { stmts, label: format!("whole quotient in further arithmetic #{}", k), ill_typed: false });
    }
    // unary operators
    for t in Ty::ALL {
        for v in value_menu(t) {
            for (k, name) in [(0, "neg"), (1, "not")] {
                let ill = t == Ty::Str;
                for form in 0..2 {
                    let mut b = B::new();
                    let mut stmts = vec![];
                    let operand = if form == 0 {
                        Expr::Paren(Box::new(v.clone()))
                    } else {
                        stmts.push(b.assign(tvar("L", t), v.clone()));
                        tvar("L", t)
                    };
                    let e = if k == 0 { Expr::Neg(Box::new(operand)) } else { Expr::Not(Box::new(operand)) };
                    stmts.push(b.print(vec![e]));
                    out.push(Snip { stmts, label: format!("{} {:?} form{}", name, t, form), ill_typed: ill });
                    if ill {
                        break;
                    }
                }
            }
        }
    }
    out
}

/// Depth-2 expressions over numeric types: a op1 (b op2 c) and (a op1 b) op2 c, and a op1 b op2 c.
pub fn axis_b_depth2() -> Vec<Snip> {
    let mut out = vec![];
    let menu = |t: Ty, k: usize| value_menu(t)[[1usize, 2, 3][k % 3]].clone();
    for op1 in BinOp::ALL {
        for op2 in BinOp::ALL {
            for (i, ta) in Ty::NUMERIC.iter().enumerate() {
                for (j, tb) in Ty::NUMERIC.iter().enumerate() {
                    for (k, tc) in Ty::NUMERIC.iter().enumerate() {
                        for pick in 0..2 {
                            let a = menu(*ta, i + pick);
                            let bb = menu(*tb, j + pick + 1);
                            let c = menu(*tc, k + pick + 2);
                            let shapes = [
                                bin(op1, a.clone(), Expr::Paren(Box::new(bin(op2, bb.clone(), c.clone())))),
                                bin(op2, Expr::Paren(Box::new(bin(op1, a.clone(), bb.clone()))), c.clone()),
                            ];
                            for (sidx, e) in shapes.into_iter().enumerate() {
                                // R22: a quotient is not an operand of further arithmetic
                                let inner = if sidx == 0 { op2 } else { op1 };
                                let outer = if sidx == 0 { op1 } else { op2 };
                                if inner == BinOp::Div && matches!(outer, BinOp::Add | BinOp::Sub | BinOp::Mul | BinOp::Div | BinOp::Mod) {
                                    continue;
                                }
                                let mut b = B::new();
                                let stmts = vec![b.print(vec![e])];
                                out.push(Snip {
                                    stmts,
                                    label: format!("{:?} {:?} {:?} {:?} {:?} shape{} pick{}", ta, op1, tb, op2, tc, sidx, pick),
                                    ill_typed: false,
                                });
                            }
                        }
                    }
                }
            }
        }
    }
    out
}

// ---------------------------------------------------------------------------
// Axis C: DATA / READ
// ---------------------------------------------------------------------------

pub fn data_items() -> Vec<DataItem> {
    vec![
        DataItem::Num("5".into()),
        DataItem::Num("-7".into()),
        DataItem::Num("70000".into()),
        DataItem::Num("1.5".into()),
        DataItem::Num("2.25#".into()),
        DataItem::Quoted("a b".into()),
        DataItem::Bare("xy".into()),
    ]
}

/// Programs reading `items` into variables of the given types, with the DATA line(s) in one
/// of several places; `extra_read` adds one READ beyond the data (Out of DATA).
pub fn data_program(items: &[DataItem], types: &[Ty], placement: usize, extra_read: bool) -> Prog {
    let mut b = B::new();
    let mut main = vec![];
    let data_all = |b: &mut B| b.s(K::Data(items.to_vec()));
    let reads: Vec<Expr> = types.iter().enumerate().map(|(i, t)| tvar(&format!("V{}", i), *t)).collect();
    let mut read_stmts = vec![];
    match placement {
        // one READ with all variables
        0 | 1 | 3 => read_stmts.push(b.s(K::Read(reads.clone()))),
        // one READ per variable
        _ => {
            for r in &reads {
                read_stmts.push(b.s(K::Read(vec![r.clone()])));
            }
        }
    }
    if extra_read {
        read_stmts.push(b.s(K::Read(vec![var("Z%")])));
    }
    let prints: Vec<Stmt> = reads.iter().map(|r| b.print(vec![st("["), r.clone(), st("]")])).collect();
    match placement {
        0 | 2 => {
            // DATA first
            main.push(data_all(&mut b));
            main.extend(read_stmts);
        }
        1 | 4 => {
            // DATA last
            main.extend(read_stmts);
            main.push(data_all(&mut b));
        }
        _ => {
            // DATA split: first item before, the rest after the READ, inside an IF block that is not executed
            if items.len() >= 2 {
                main.push(b.s(K::Data(items[..1].to_vec())));
                main.extend(read_stmts);
                let inner = vec![b.s(K::Data(items[1..].to_vec()))];
                main.push(b.s(K::If { arms: vec![(num(0), inner)], els: None, single_line: false }));
            } else {
                main.extend(read_stmts);
                main.push(data_all(&mut b));
            }
        }
    }
    main.extend(prints);
    Prog { main, ..Default::default() }
}

/// (items, types, placement, extra_read) for all sequences of up to `max_items` DATA items.
pub fn data_cases(max_items: usize) -> Vec<(Vec<DataItem>, Vec<Ty>, usize, bool)> {
    let menu = data_items();
    let mut seqs: Vec<Vec<DataItem>> = vec![vec![]];
    let mut all_seqs: Vec<Vec<DataItem>> = vec![];
    for _ in 0..max_items {
        let mut next = vec![];
        for s in &seqs {
            for it in &menu {
                let mut t = s.clone();
                t.push(it.clone());
                next.push(t);
            }
        }
        all_seqs.extend(next.iter().cloned());
        seqs = next;
    }
    let mut out = vec![];
    for items in all_seqs {
        // type assignments: numeric items -> every type, string items -> string only
        let mut assigns: Vec<Vec<Ty>> = vec![vec![]];
        for it in &items {
            let choices: Vec<Ty> = match it {
                // R9: data is of the target's kind (numbers are read into numeric variables)
                DataItem::Num(_) => Ty::NUMERIC.to_vec(),
                _ => vec![Ty::Str],
            };
            let mut next = vec![];
            for a in &assigns {
                for c in &choices {
                    let mut t = a.clone();
                    t.push(*c);
                    next.push(t);
                }
            }
            assigns = next;
        }
        for (k, types) in assigns.into_iter().enumerate() {
            // every placement for the first assignment, a rotating one for the others
            let placements: Vec<usize> = if k == 0 { (0..5).collect() } else { vec![k % 5] };
            for p in placements {
                out.push((items.clone(), types.clone(), p, false));
            }
            if k == 0 {
                out.push((items.clone(), types.clone(), 0, true));
            }
        }
    }
    out
}

// ---------------------------------------------------------------------------
// Axis C2: where a DATA statement stands does not matter. Three DATA statements
// (1,2 / 3,4 / 5,6); the middle one inside every kind of block, executed or not,
// once or twice; READ before or after them. The values always come in textual order.
// ---------------------------------------------------------------------------

pub const DATA_CONTAINERS: [&str; 22] = [
    "IF block, taken",
    "IF block, not taken",
    "ELSE block, taken",
    "ELSE block, not taken",
    "ELSEIF block, taken (ELSE follows)",
    "ELSEIF block, not taken",
    "CASE block, taken",
    "middle CASE block, not taken",
    "CASE ELSE block, taken",
    "CASE ELSE block, not taken",
    "FOR body, two rounds",
    "FOR body, no round",
    "FOR STEP -1 body",
    "WHILE body, two rounds",
    "WHILE body, no round",
    "DO WHILE body",
    "DO UNTIL body",
    "DO .. LOOP WHILE body",
    "DO .. LOOP UNTIL body",
    "IF block inside a FOR body",
    "FOR body inside an ELSEIF block",
    "CASE block inside a WHILE body",
];

pub fn data_placement_program(container: usize, read_first: bool) -> Prog {
    let mut b = B::new();
    let mut main = vec![];
    let vars: Vec<Expr> = (1..=6).map(|i| var(&format!("V{}%", i))).collect();
    let d = |b: &mut B, lo: i32| b.s(K::Data(vec![DataItem::Num(lo.to_string()), DataItem::Num((lo + 1).to_string())]));
    if read_first {
        main.push(b.s(K::Read(vars.clone())));
    }
    main.push(d(&mut b, 1));
    let inner = vec![b.print(vec![st("in")]), d(&mut b, 3)];
    let other = |b: &mut B, t: &str| vec![b.print(vec![st(t)])];
    let cnt = || var("C%");
    let bump = |b: &mut B| b.assign(var("C%"), bin(BinOp::Add, var("C%"), num(1)));
    let iff = |c: Expr, t: Vec<Stmt>, e: Option<Vec<Stmt>>| K::If { arms: vec![(c, t)], els: e, single_line: false };
    let s = match container {
        0 => b.s(iff(num(-1), inner, None)),
        1 => b.s(iff(num(0), inner, None)),
        2 => {
            let t = other(&mut b, "then");
            b.s(iff(num(0), t, Some(inner)))
        }
        3 => {
            let t = other(&mut b, "then");
            b.s(iff(num(-1), t, Some(inner)))
        }
        4 | 5 => {
            let t = other(&mut b, "then");
            let e = other(&mut b, "else");
            b.s(K::If { arms: vec![(num(0), t), (num(if container == 4 { -1 } else { 0 }), inner)], els: Some(e), single_line: false })
        }
        6 => {
            let e = other(&mut b, "case else");
            b.s(K::Select { subject: num(1), cases: vec![(vec![CaseExpr::Simple(num(1))], inner)], els: Some(e) })
        }
        7 => {
            let c1 = other(&mut b, "case 1");
            let c3 = other(&mut b, "case 3");
            b.s(K::Select { subject: num(3), cases: vec![(vec![CaseExpr::Simple(num(1))], c1), (vec![CaseExpr::Simple(num(2))], inner), (vec![CaseExpr::Simple(num(3))], c3)], els: None })
        }
        8 | 9 => {
            let c1 = other(&mut b, "case 1");
            b.s(K::Select { subject: num(if container == 8 { 2 } else { 1 }), cases: vec![(vec![CaseExpr::Simple(num(1))], c1)], els: Some(inner) })
        }
        10 => b.s(K::For { var: var("I%"), from: num(1), to: num(2), step: None, body: inner, next_var: false }),
        11 => b.s(K::For { var: var("I%"), from: num(1), to: num(0), step: None, body: inner, next_var: false }),
        12 => b.s(K::For { var: var("I%"), from: num(2), to: num(1), step: Some(num(-1)), body: inner, next_var: true }),
        13 | 14 => {
            let mut body = vec![bump(&mut b)];
            body.extend(inner);
            b.s(K::While(bin(BinOp::Lt, cnt(), num(if container == 13 { 2 } else { 0 })), body))
        }
        15..=18 => {
            let mut body = vec![bump(&mut b)];
            body.extend(inner);
            let (kind, c) = match container {
                15 => (DoKind::WhileTop, bin(BinOp::Lt, cnt(), num(2))),
                16 => (DoKind::UntilTop, bin(BinOp::Ge, cnt(), num(2))),
                17 => (DoKind::WhileBottom, bin(BinOp::Lt, cnt(), num(2))),
                _ => (DoKind::UntilBottom, bin(BinOp::Ge, cnt(), num(2))),
            };
            b.s(K::Do(kind, c, body))
        }
        19 => {
            let i = b.s(iff(bin(BinOp::Eq, var("I%"), num(2)), inner, None));
            b.s(K::For { var: var("I%"), from: num(1), to: num(2), step: None, body: vec![i], next_var: false })
        }
        20 => {
            let t = other(&mut b, "then");
            let f = b.s(K::For { var: var("I%"), from: num(1), to: num(2), step: None, body: inner, next_var: false });
            b.s(K::If { arms: vec![(num(0), t), (num(0), vec![f])], els: None, single_line: false })
        }
        _ => {
            let e = other(&mut b, "case else");
            let sel = b.s(K::Select { subject: cnt(), cases: vec![(vec![CaseExpr::Simple(num(2))], inner)], els: Some(e) });
            let bm = bump(&mut b);
            b.s(K::While(bin(BinOp::Lt, cnt(), num(2)), vec![bm, sel]))
        }
    };
    main.push(s);
    main.push(d(&mut b, 5));
    if !read_first {
        main.push(b.s(K::Read(vars.clone())));
    }
    let mut items = vec![];
    for v in &vars {
        items.push(v.clone());
    }
    main.push(b.print(items));
    Prog { main, ..Default::default() }
}

// ---------------------------------------------------------------------------
// Axis T: what counts as true. A condition is true when it is not zero, whatever its value
// and type: 2, 1, -1, .5, 100000 are true, 0 and 0.0 are false — in IF, ELSEIF, single-line IF,
// WHILE and the four DO forms (UNTIL leaves the loop on ANY non-zero value, not only on -1).
// ---------------------------------------------------------------------------

pub const TRUTH_VALUES: [&str; 9] = ["2", "1", "-1", "0", "-2", ".5", "0.0", "32767", "100000"];
pub const TRUTH_KINDS: [&str; 9] = ["IF", "ELSEIF", "single-line IF", "WHILE", "DO WHILE", "DO UNTIL", "LOOP WHILE", "LOOP UNTIL", "IF NOT"];

pub fn truth_program(kind: usize, value: usize, as_variable: bool) -> Prog {
    let mut b = B::new();
    let lit = |t: &str| -> Expr {
        if let Some(r) = t.strip_prefix('-') { Expr::Neg(Box::new(Expr::Num(r.to_string()))) } else { Expr::Num(t.to_string()) }
    };
    let v0 = lit(TRUTH_VALUES[value]);
    let mut main = vec![];
    // loops read the condition from V! (they must change it to end); branches use the literal or the variable
    let cond: Expr = if as_variable || (3..=7).contains(&kind) {
        main.push(b.assign(var("V!"), v0.clone()));
        var("V!")
    } else {
        v0
    };
    let say = |b: &mut B, t: &str| b.print(vec![st(t)]);
    match kind {
        0 => {
            let t = vec![say(&mut b, "then")];
            let e = vec![say(&mut b, "else")];
            main.push(b.s(K::If { arms: vec![(cond, t)], els: Some(e), single_line: false }));
        }
        1 => {
            let t = vec![say(&mut b, "then")];
            let m = vec![say(&mut b, "elseif")];
            let e = vec![say(&mut b, "else")];
            main.push(b.s(K::If { arms: vec![(num(0), t), (cond, m)], els: Some(e), single_line: false }));
        }
        2 => {
            let t = vec![say(&mut b, "then")];
            let e = vec![say(&mut b, "else")];
            main.push(b.s(K::If { arms: vec![(cond, t)], els: Some(e), single_line: true }));
        }
        8 => {
            // NOT is bitwise: NOT 1 = -2 is true, NOT -1 = 0 is false (whole values only)
            let t = vec![say(&mut b, "then")];
            let e = vec![say(&mut b, "else")];
            main.push(b.s(K::If { arms: vec![(Expr::Not(Box::new(cond)), t)], els: Some(e), single_line: false }));
        }
        _ => {
            // the body runs at most twice: it prints, then sets the condition so that the loop ends
            // (WHILE forms: 0; UNTIL forms: 2, a true value that is not -1)
            let until = matches!(kind, 5 | 7);
            let body = vec![
                b.assign(var("N%"), bin(BinOp::Add, var("N%"), num(1))),
                b.print(vec![st("body"), var("N%")]),
                b.assign(var("V!"), if until { num(2) } else { num(0) }),
            ];
            let k = match kind {
                3 => K::While(cond, body),
                4 => K::Do(DoKind::WhileTop, cond, body),
                5 => K::Do(DoKind::UntilTop, cond, body),
                6 => K::Do(DoKind::WhileBottom, cond, body),
                _ => K::Do(DoKind::UntilBottom, cond, body),
            };
            main.push(b.s(k));
        }
    }
    main.push(b.print(vec![st("end"), var("N%")]));
    Prog { main, ..Default::default() }
}

// ---------------------------------------------------------------------------
// Axis R: binary operators whose operands are not plain variables or literals: a member of an array-of-records element
// whose subscript is an expression or a FUNCTION call, an array element with an expression subscript, a FUNCTION call
// on such an element — on the left, on the right, on both sides, with a sub-expression as the other operand.
// ---------------------------------------------------------------------------

pub fn rich_operand_programs() -> Vec<(Prog, String)> {
    let types = vec![TypeDef { name: "RT".into(), fields: vec![("V".into(), DeclTy::Scalar(Ty::Int)), ("W".into(), DeclTy::Scalar(Ty::Int))] }];
    let member = |sub: Expr, f: &str| Expr::Field(Box::new(Expr::Index("T".into(), vec![sub])), f.into());
    let i = || var("I%");
    let lefts: Vec<(&str, Expr, i64)> = vec![
        ("T(I% + 2).V", member(bin(BinOp::Add, i(), num(2)), "V"), 12),
        ("T(I% * 2).W", member(bin(BinOp::Mul, i(), num(2)), "W"), 3),
        ("T(Idf%(I%)).V", member(call("Idf%", vec![i()]), "V"), 300),
        ("AR%(I% + 1)", Expr::Index("AR%".into(), vec![bin(BinOp::Add, i(), num(1))]), 9),
        ("T(I%).V", member(i(), "V"), 300),
        ("Idf%(AR%(I% * 3))", call("Idf%", vec![Expr::Index("AR%".into(), vec![bin(BinOp::Mul, i(), num(3))])]), 5),
    ];
    let rights: Vec<(&str, Expr, i64)> = vec![
        ("10 * 2", bin(BinOp::Mul, num(10), num(2)), 20),
        ("7", num(7), 7),
        ("J%", var("J%"), 3),
        ("T(I% - 1).W", member(bin(BinOp::Sub, i(), num(1)), "W"), 2),
        ("AR%(I% + 4)", Expr::Index("AR%".into(), vec![bin(BinOp::Add, i(), num(4))]), 5),
        ("Idf%(6)", call("Idf%", vec![num(6)]), 6),
    ];
    let ops = [BinOp::Add, BinOp::Sub, BinOp::Mul, BinOp::Div, BinOp::Mod, BinOp::Lt, BinOp::Le, BinOp::Eq, BinOp::Ge, BinOp::Gt, BinOp::Ne, BinOp::And, BinOp::Or];
    let mut out = vec![];
    for (ll, le, lv) in &lefts {
        for (rl, re, rv) in &rights {
            for swapped in [false, true] {
                let mut b = B::new();
                let body = vec![b.assign(var("Idf%"), var("X%"))];
                let id = b.id();
                let subs = vec![SubDef { id, name: "Idf%".into(), is_function: true, params: vec![Param { name: "X%".into(), ty: None, is_array: false }], body, is_static: false }];
                let mut main = vec![
                    b.s(K::Dim { shared: false, redim: false, vars: vec![DimVar { name: "T".into(), ty: Some(DeclTy::Rec("RT".into())), dims: vec![(Some(num(1)), num(4))] }, DimVar { name: "AR%".into(), ty: None, dims: vec![(Some(num(1)), num(8))] }] }),
                    b.assign(var("I%"), num(2)),
                    b.assign(var("J%"), num(3)),
                ];
                for (k, (v, w)) in [(7, 2), (300, 4), (55, 66), (12, 3)].iter().enumerate() {
                    main.push(b.assign(member(num(k as i64 + 1), "V"), num(*v)));
                    main.push(b.assign(member(num(k as i64 + 1), "W"), num(*w)));
                }
                for k in 1..=8 {
                    main.push(b.assign(Expr::Index("AR%".into(), vec![num(k)]), num([1, 2, 9, 4, 6, 5, 7, 8][k as usize - 1])));
                }
                let (a, av, c, cv) = if swapped { (re.clone(), *rv, le.clone(), *lv) } else { (le.clone(), *lv, re.clone(), *rv) };
                for op in ops {
                    // a quotient that is not a dyadic fraction is outside the reference's exact domain
                    if op == BinOp::Div && (av * 16) % cv != 0 {
                        continue;
                    }
                    // `x / 10 * 2` groups to the left: the product on the right of a division is written in parentheses
                    let c = if op == BinOp::Div && matches!(c, Expr::Bin(..)) { Expr::Paren(Box::new(c.clone())) } else { c.clone() };
                    main.push(b.print(vec![bin(op, a.clone(), c.clone())]));
                    // and once more with the whole expression stored
                    main.push(b.assign(var("S!"), bin(op, a.clone(), c.clone())));
                    main.push(b.print(vec![var("S!")]));
                }
                out.push((Prog { types: types.clone(), main, subs, declare: true, ..Default::default() }, format!("{} <op> {}", if swapped { rl } else { ll }, if swapped { ll } else { rl })));
            }
        }
    }
    out
}

// ---------------------------------------------------------------------------
// Axis S: SELECT CASE whose tests are expressions (variables, arithmetic, FUNCTION calls, a FUNCTION that runs a
// SELECT CASE of its own), values of another numeric type than the subject (fractions against an INTEGER subject,
// 40000 against an INTEGER subject) — for subjects of every numeric type over a run of values.
// ---------------------------------------------------------------------------

pub fn case_expression_programs() -> Vec<(Prog, String)> {
    let low = || var("LOW%");
    let span = || var("SPAN%");
    let frac = |t: &str| Expr::Num(t.to_string());
    // (label, tests of the first CASE)
    let tests: Vec<(&str, Vec<CaseExpr>)> = vec![
        ("LOW% TO LOW% + SPAN%", vec![CaseExpr::Range(low(), bin(BinOp::Add, low(), span()))]),
        ("LOW% + 1 TO SPAN% * 2", vec![CaseExpr::Range(bin(BinOp::Add, low(), num(1)), bin(BinOp::Mul, span(), num(2)))]),
        ("Idf%(LOW%) TO Idf%(LOW%) + SPAN%", vec![CaseExpr::Range(call("Idf%", vec![low()]), bin(BinOp::Add, call("Idf%", vec![low()]), span()))]),
        ("LOW% - 1 TO LOW% + Band%(SPAN%)", vec![CaseExpr::Range(bin(BinOp::Sub, low(), num(1)), bin(BinOp::Add, low(), call("Band%", vec![span()])))]),
        ("2.5 TO 3.5", vec![CaseExpr::Range(frac("2.5"), frac("3.5"))]),
        ("LOW% TO 40000", vec![CaseExpr::Range(low(), num(40000))]),
        ("-LOW% TO LOW%", vec![CaseExpr::Range(Expr::Neg(Box::new(low())), low())]),
        ("IS >= LOW% + SPAN%", vec![CaseExpr::Is(BinOp::Ge, bin(BinOp::Add, low(), span()))]),
        ("IS < 2.5", vec![CaseExpr::Is(BinOp::Lt, frac("2.5"))]),
        ("IS = SPAN% * 2", vec![CaseExpr::Is(BinOp::Eq, bin(BinOp::Mul, span(), num(2)))]),
        ("IS <> LOW%", vec![CaseExpr::Is(BinOp::Ne, low())]),
        ("IS > 40000, IS < LOW% - 1", vec![CaseExpr::Is(BinOp::Gt, num(40000)), CaseExpr::Is(BinOp::Lt, bin(BinOp::Sub, low(), num(1)))]),
        ("LOW% + SPAN%", vec![CaseExpr::Simple(bin(BinOp::Add, low(), span()))]),
        ("SPAN% * 2 + 1, LOW% - 2, 1.5", vec![CaseExpr::Simple(bin(BinOp::Add, bin(BinOp::Mul, span(), num(2)), num(1))), CaseExpr::Simple(bin(BinOp::Sub, low(), num(2))), CaseExpr::Simple(frac("1.5"))]),
        ("4.5, 40000, Band%(LOW%)", vec![CaseExpr::Simple(frac("4.5")), CaseExpr::Simple(num(40000)), CaseExpr::Simple(call("Band%", vec![low()]))]),
        ("5 TO 6, LOW%, IS > SPAN% + 3", vec![CaseExpr::Range(num(5), num(6)), CaseExpr::Simple(low()), CaseExpr::Is(BinOp::Gt, bin(BinOp::Add, span(), num(3)))]),
    ];
    // (label, subject, how the subject variable is set from the loop counter)
    let subjects: Vec<(&str, Expr, Expr)> = vec![
        ("INTEGER variable", var("XI%"), var("K%")),
        ("LONG variable", var("XL&"), var("K%")),
        ("SINGLE variable in steps of one half", var("XS!"), bin(BinOp::Div, var("K%"), num(2))),
        ("DOUBLE variable in steps of one half", var("XD#"), bin(BinOp::Div, var("K%"), num(2))),
        ("expression XI% + 1", bin(BinOp::Add, var("XI%"), num(1)), var("K%")),
    ];
    let mut out = vec![];
    for (tl, tests1) in &tests {
        for (sl, subject, set) in &subjects {
            let mut b = B::new();
            let idf_body = vec![b.assign(var("Idf%"), var("X%"))];
            // Band%(n) = n classified by a SELECT CASE with ranges of its own: 0 for n < 1, n for 1 TO 3, 9 above
            let lo_arm = vec![b.assign(var("Band%"), var("N%"))];
            let hi_arm = vec![b.assign(var("Band%"), num(9))];
            let band_body = vec![
                b.assign(var("Band%"), num(0)),
                b.s(K::Select { subject: var("N%"), cases: vec![(vec![CaseExpr::Range(num(1), bin(BinOp::Add, num(1), num(2)))], lo_arm), (vec![CaseExpr::Is(BinOp::Gt, num(3))], hi_arm)], els: None }),
            ];
            let id1 = b.id();
            let id2 = b.id();
            let subs = vec![
                SubDef { id: id1, name: "Idf%".into(), is_function: true, params: vec![Param { name: "X%".into(), ty: None, is_array: false }], body: idf_body, is_static: false },
                SubDef { id: id2, name: "Band%".into(), is_function: true, params: vec![Param { name: "N%".into(), ty: None, is_array: false }], body: band_body, is_static: false },
            ];
            let target = match subject {
                Expr::Var(_) => subject.clone(),
                _ => var("XI%"),
            };
            let first = vec![b.print(vec![st("first"), var("K%")])];
            let second = vec![b.print(vec![st("second"), var("K%")])];
            let other = vec![b.print(vec![st("else"), var("K%")])];
            let select = b.s(K::Select {
                subject: subject.clone(),
                cases: vec![(tests1.clone(), first), (vec![CaseExpr::Range(bin(BinOp::Sub, low(), num(2)), bin(BinOp::Add, bin(BinOp::Mul, low(), span()), num(1)))], second)],
                els: Some(other),
            });
            let body = vec![b.assign(target, set.clone()), select];
            let main = vec![
                b.assign(low(), num(2)),
                b.assign(span(), num(2)),
                b.s(K::For { var: var("K%"), from: num(0), to: num(12), step: None, body, next_var: false }),
                b.print(vec![st("done")]),
            ];
            out.push((Prog { main, subs, declare: true, ..Default::default() }, format!("CASE {} / subject: {}", tl, sl)));
        }
    }
    out
}

// ---------------------------------------------------------------------------
// Axis E: AND / OR evaluate both operands. A condition whose left operand already decides the truth value and whose
// right operand fails (division by zero, subscript out of range, overflow, a FUNCTION that fails) ends the program
// with that error at the statement holding the condition — in every kind of condition, and in plain expressions.
// ---------------------------------------------------------------------------

pub const FAILING_OPERANDS: [&str; 4] = ["division by zero", "subscript out of range", "overflow", "a FUNCTION that divides by zero"];
pub const CONDITION_PLACES: [&str; 9] = ["IF", "ELSEIF", "single-line IF", "WHILE", "DO WHILE", "DO UNTIL", "LOOP WHILE", "LOOP UNTIL", "assignment"];

pub fn failing_condition_programs() -> Vec<(Prog, String)> {
    let mut out = vec![];
    for (oi, ol) in FAILING_OPERANDS.iter().enumerate() {
        for op in [BinOp::And, BinOp::Or] {
            for failing_side in 0..2 {
                for (pi, pl) in CONDITION_PLACES.iter().enumerate() {
                    let mut b = B::new();
                    let body_fn = vec![b.assign(var("Quot%"), bin(BinOp::Div, num(10), var("N%")))];
                    let id = b.id();
                    let subs = vec![SubDef { id, name: "Quot%".into(), is_function: true, params: vec![Param { name: "N%".into(), ty: None, is_array: false }], body: body_fn, is_static: false }];
                    // H% = 0 makes the other operand decide: `H% <> 0` is false (AND is false whatever follows),
                    // `H% = 0` is true (OR is true whatever follows)
                    let decided = if op == BinOp::And { bin(BinOp::Ne, var("H%"), num(0)) } else { bin(BinOp::Eq, var("H%"), num(0)) };
                    let failing = match oi {
                        0 => bin(BinOp::Gt, bin(BinOp::Div, var("D%"), var("H%")), num(50)),
                        1 => bin(BinOp::Eq, Expr::Index("AR%".into(), vec![bin(BinOp::Add, var("H%"), num(9))]), num(0)),
                        2 => bin(BinOp::Gt, bin(BinOp::Add, var("BIG%"), var("D%")), num(0)),
                        _ => bin(BinOp::Gt, call("Quot%", vec![var("H%")]), num(1)),
                    };
                    let cond = if failing_side == 1 { bin(op, decided, failing) } else { bin(op, failing, decided) };
                    let mut main = vec![
                        b.s(K::Dim { shared: false, redim: false, vars: vec![DimVar { name: "AR%".into(), ty: None, dims: vec![(Some(num(1)), num(3))] }] }),
                        b.assign(var("H%"), num(0)),
                        b.assign(var("D%"), num(100)),
                        b.assign(var("BIG%"), num(32767)),
                        b.print(vec![st("start")]),
                    ];
                    let say = |b: &mut B, t: &str| b.print(vec![st(t)]);
                    match pi {
                        0 => {
                            let t = vec![say(&mut b, "then")];
                            let e = vec![say(&mut b, "else")];
                            main.push(b.s(K::If { arms: vec![(cond, t)], els: Some(e), single_line: false }));
                        }
                        1 => {
                            let t = vec![say(&mut b, "then")];
                            let m = vec![say(&mut b, "elseif")];
                            let e = vec![say(&mut b, "else")];
                            main.push(b.s(K::If { arms: vec![(bin(BinOp::Eq, var("H%"), num(5)), t), (cond, m)], els: Some(e), single_line: false }));
                        }
                        2 => {
                            let t = vec![say(&mut b, "then")];
                            let e = vec![say(&mut b, "else")];
                            main.push(b.s(K::If { arms: vec![(cond, t)], els: Some(e), single_line: true }));
                        }
                        8 => {
                            main.push(b.assign(var("R%"), cond));
                            main.push(b.print(vec![var("R%")]));
                        }
                        _ => {
                            // bottom-tested loops reach the condition after the body: the body must leave H% alone
                            let body = if pi >= 6 { vec![say(&mut b, "body")] } else { vec![say(&mut b, "body"), b.assign(var("H%"), num(1))] };
                            let k = match pi {
                                3 => K::While(cond, body),
                                4 => K::Do(DoKind::WhileTop, cond, body),
                                5 => K::Do(DoKind::UntilTop, cond, body),
                                6 => K::Do(DoKind::WhileBottom, cond, body),
                                _ => K::Do(DoKind::UntilBottom, cond, body),
                            };
                            main.push(b.s(k));
                        }
                    }
                    main.push(b.print(vec![st("not reached")]));
                    out.push((Prog { main, subs, declare: true, ..Default::default() }, format!("{:?} with {} on the {} in {}", op, ol, if failing_side == 1 { "right" } else { "left" }, pl)));
                }
            }
        }
    }
    out
}
