//! C16: the column model of PRINT (one column per device) and a model of PRINT USING,
//! written from the property text; plus the statement generators.

/// A value that can appear in a PRINT list: source text and the bytes it denotes.
pub struct ValDef {
    pub src: &'static str,
    /// for strings: the raw bytes of the string; for numbers: sign or blank, digits, blank
    pub bytes: &'static [u8],
    pub is_num: bool,
}

/// Assignments executed once at the top of every program.
pub const SETUP: &str = "S13$ = \"abcdefghijklm\"\nS14$ = \"abcdefghijklmn\"\nS15$ = \"abcdefghijklmno\"\nCR$ = \"a\" + CHR$(13) + \"b\"\nLF$ = \"a\" + CHR$(10)\nCRLF$ = \"a\" + CHR$(13) + CHR$(10) + \"b\"\nD# = -7\nL& = 2147483647\nI% = -32768\nQ! = 2.5\n";

pub const VALUES: [ValDef; 16] = [
    ValDef { src: "5", bytes: b" 5 ", is_num: true },
    ValDef { src: "\"ab\"", bytes: b"ab", is_num: false },
    ValDef { src: "S13$", bytes: b"abcdefghijklm", is_num: false },
    ValDef { src: "S14$", bytes: b"abcdefghijklmn", is_num: false },
    ValDef { src: "CR$", bytes: b"a\rb", is_num: false },
    ValDef { src: "-5", bytes: b"-5 ", is_num: true },
    ValDef { src: "0", bytes: b" 0 ", is_num: true },
    ValDef { src: "100000", bytes: b" 100000 ", is_num: true },
    ValDef { src: "\"\"", bytes: b"", is_num: false },
    ValDef { src: "S15$", bytes: b"abcdefghijklmno", is_num: false },
    ValDef { src: "LF$", bytes: b"a\n", is_num: false },
    ValDef { src: "CRLF$", bytes: b"a\r\nb", is_num: false },
    ValDef { src: "D#", bytes: b"-7 ", is_num: true },
    ValDef { src: "L&", bytes: b" 2147483647 ", is_num: true },
    ValDef { src: "I%", bytes: b"-32768 ", is_num: true },
    ValDef { src: "Q!", bytes: b" 2.5 ", is_num: true },
];

#[derive(Clone, Copy, Debug, PartialEq, Eq, Hash)]
pub enum Tok {
    Val(usize),
    Comma,
    Semi,
}

pub const DEVICES: [&str; 4] = ["screen", "LPT1", "file #1", "file #2"];

#[derive(Clone, Debug, Default, PartialEq, Eq)]
pub struct Dev {
    pub col: usize,
    pub out: Vec<u8>,
}

impl Dev {
    fn newline(&mut self) {
        self.out.extend_from_slice(b"\r\n");
        self.col = 0;
    }

    /// A string: every CR and every LF inside it ends the line (written as CR LF) and restarts the column.
    pub fn put_str(&mut self, s: &[u8]) {
        for &c in s {
            if c == b'\r' || c == b'\n' {
                self.newline();
            } else {
                self.out.push(c);
                self.col += 1;
            }
        }
    }

    fn comma(&mut self) {
        let n = 14 - self.col % 14;
        for _ in 0..n {
            self.out.push(b' ');
        }
        self.col += n;
    }
}

#[derive(Clone, Debug, Default, PartialEq, Eq)]
pub struct PModel {
    pub devs: [Dev; 4],
}

impl PModel {
    /// One PRINT statement to a device.
    pub fn print(&mut self, dev: usize, toks: &[Tok]) {
        let d = &mut self.devs[dev];
        for t in toks {
            match t {
                Tok::Val(i) => d.put_str(VALUES[*i].bytes),
                Tok::Comma => d.comma(),
                Tok::Semi => {}
            }
        }
        if !matches!(toks.last(), Some(Tok::Comma | Tok::Semi)) {
            d.newline();
        }
    }

    /// The property-relevant state: the column of each device (only its residue matters to zones).
    pub fn canon(&self) -> [usize; 4] {
        [self.devs[0].col % 14, self.devs[1].col % 14, self.devs[2].col % 14, self.devs[3].col % 14]
    }

    pub fn reset_lines(&mut self, ndev: usize) {
        for d in 0..ndev {
            self.print(d, &[]);
        }
    }
}

pub fn head(dev: usize) -> &'static str {
    match dev {
        0 => "PRINT",
        1 => "LPRINT",
        2 => "PRINT #1,",
        _ => "PRINT #2,",
    }
}

pub fn toks_text(toks: &[Tok]) -> String {
    let mut s = String::new();
    for t in toks {
        match t {
            Tok::Val(i) => {
                s.push(' ');
                s.push_str(VALUES[*i].src);
            }
            Tok::Comma => s.push_str(" ,"),
            Tok::Semi => s.push_str(" ;"),
        }
    }
    s
}

pub fn stmt_text(dev: usize, toks: &[Tok]) -> String {
    format!("{}{}", head(dev), toks_text(toks))
}

pub fn reset_text(ndev: usize) -> String {
    let mut s = String::new();
    for d in 0..ndev {
        s.push_str(head(d));
        s.push('\n');
    }
    s
}

/// All token sequences of length 1..=max over the first `nvals` values and the two separators in
/// which no two values are adjacent; the empty list (bare PRINT) comes first.
pub fn token_lists(nvals: usize, max: usize) -> Vec<Vec<Tok>> {
    let mut alphabet: Vec<Tok> = (0..nvals).map(Tok::Val).collect();
    alphabet.push(Tok::Comma);
    alphabet.push(Tok::Semi);
    let mut out: Vec<Vec<Tok>> = vec![vec![]];
    let mut level: Vec<Vec<Tok>> = vec![vec![]];
    for _ in 0..max {
        let mut next = vec![];
        for l in &level {
            for t in &alphabet {
                if matches!(t, Tok::Val(_)) && matches!(l.last(), Some(Tok::Val(_))) {
                    continue;
                }
                let mut m = l.clone();
                m.push(*t);
                next.push(m);
            }
        }
        out.extend(next.iter().cloned());
        level = next;
    }
    out
}

/// Statements that bring a device to a given start column (0, 1, 13, 14, 15, 27).
pub fn preamble(dev: usize, col: usize) -> Option<(String, Vec<Tok>)> {
    // built from the values: "" ; -> 0, S13$ ; -> 13 ...
    let toks: Vec<Tok> = match col {
        0 => return None,
        2 => vec![Tok::Val(1), Tok::Semi],
        13 => vec![Tok::Val(2), Tok::Semi],
        14 => vec![Tok::Val(3), Tok::Semi],
        15 => vec![Tok::Val(9), Tok::Semi],
        27 => vec![Tok::Val(2), Tok::Semi, Tok::Val(3), Tok::Semi],
        _ => return None,
    };
    Some((stmt_text(dev, &toks), toks))
}

pub const START_COLS: [usize; 6] = [0, 2, 13, 14, 15, 27];

// ---------------------------------------------------------------------------
// PRINT USING
// ---------------------------------------------------------------------------

#[derive(Clone, Copy, Debug, PartialEq)]
pub enum UVal {
    Int(i64),
    /// numerator over 4 (exact quarters)
    Quarters(i64),
    Str(&'static str),
}

pub const UVALUES: [(&str, UVal); 12] = [
    ("5", UVal::Int(5)),
    ("\"abc\"", UVal::Str("abc")),
    ("-5", UVal::Int(-5)),
    ("12.25", UVal::Quarters(49)),
    ("0", UVal::Int(0)),
    ("1234", UVal::Int(1234)),
    ("\"\"", UVal::Str("")),
    ("\"abcdef\"", UVal::Str("abcdef")),
    // fractions below one, negative ones among them (the whole part is 0 and the sign has to survive)
    ("-.5", UVal::Quarters(-2)),
    ("-.75", UVal::Quarters(-3)),
    (".25", UVal::Quarters(1)),
    ("-12.5", UVal::Quarters(-50)),
];

pub const FORMAT_ALPHABET: [u8; 7] = [b'#', b'.', b',', b'\\', b' ', b'!', b'x'];

#[derive(Debug, PartialEq)]
pub enum UOut {
    Bytes(Vec<u8>),
    Error(i32),
    /// outside what the model decides
    Undecided(&'static str),
}

#[derive(Debug)]
enum Seg {
    Lit(Vec<u8>),
    Num { int: Vec<u8>, frac: usize },
    Str(usize),
    First,
}

fn parse_format(f: &[u8]) -> Result<Vec<Seg>, &'static str> {
    let mut segs = vec![];
    let mut i = 0;
    let mut lit = vec![];
    while i < f.len() {
        match f[i] {
            b'#' => {
                if matches!(lit.last(), Some(b'.' | b',')) {
                    return Err("a point or comma directly before a numeric field");
                }
                if !lit.is_empty() {
                    segs.push(Seg::Lit(std::mem::take(&mut lit)));
                }
                let mut j = i;
                while j < f.len() && matches!(f[j], b'#' | b',' | b'.') {
                    j += 1;
                }
                let run = &f[i..j];
                let dots = run.iter().filter(|c| **c == b'.').count();
                if dots > 1 || run.last() == Some(&b'.') || run.last() == Some(&b',') {
                    return Err("numeric field with two points or ending in a point or comma");
                }
                let (int, frac) = match run.iter().position(|c| *c == b'.') {
                    Some(p) => (run[..p].to_vec(), run.len() - p - 1),
                    None => (run.to_vec(), 0),
                };
                if run[int.len()..].contains(&b',') {
                    return Err("comma right of the point");
                }
                segs.push(Seg::Num { int, frac });
                i = j;
            }
            b'\\' => {
                let mut j = i + 1;
                while j < f.len() && f[j] == b' ' {
                    j += 1;
                }
                if j >= f.len() || f[j] != b'\\' {
                    return Err("backslash without a partner");
                }
                if !lit.is_empty() {
                    segs.push(Seg::Lit(std::mem::take(&mut lit)));
                }
                segs.push(Seg::Str(j - i + 1));
                i = j + 1;
            }
            b'!' => {
                if !lit.is_empty() {
                    segs.push(Seg::Lit(std::mem::take(&mut lit)));
                }
                segs.push(Seg::First);
                i += 1;
            }
            c => {
                lit.push(c);
                i += 1;
            }
        }
    }
    if !lit.is_empty() {
        segs.push(Seg::Lit(lit));
    }
    Ok(segs)
}

fn render_number(int: &[u8], frac: usize, v: UVal) -> Result<Vec<u8>, &'static str> {
    let quarters: i64 = match v {
        UVal::Int(i) => i * 4,
        UVal::Quarters(q) => q,
        UVal::Str(_) => unreachable!(),
    };
    let neg = quarters < 0;
    let mag = quarters.abs();
    // digits after the point: quarters have at most two
    let (whole, frac_digits): (i64, String) = match frac {
        0 => {
            if mag % 4 == 2 {
                return Err("R1: tie when rounding to the field");
            }
            ((mag + 2) / 4, String::new())
        }
        1 => {
            // x.25 and x.75 are ties at one digit
            if mag % 4 == 1 || mag % 4 == 3 {
                return Err("R1: tie when rounding to the field");
            }
            (mag / 4, if mag % 4 == 2 { "5".into() } else { "0".into() })
        }
        n => {
            let two = match mag % 4 {
                0 => "00",
                1 => "25",
                2 => "50",
                _ => "75",
            };
            let mut s = two.to_string();
            while s.len() < n {
                s.push('0');
            }
            (mag / 4, s)
        }
    };
    let mut digits = whole.to_string();
    let has_comma = int.contains(&b',');
    if has_comma && digits.len() > 3 {
        // a comma anywhere left of the point: a comma to the left of every third digit
        let cut = digits.len() - 3;
        digits = format!("{},{}", &digits[..cut], &digits[cut..]);
    }
    if neg {
        digits.insert(0, '-');
    }
    if digits.len() > int.len() {
        return Err("value does not fit the field");
    }
    let mut out = vec![b' '; int.len() - digits.len()];
    out.extend_from_slice(digits.as_bytes());
    if frac > 0 {
        out.push(b'.');
        out.extend_from_slice(frac_digits.as_bytes());
    }
    Ok(out)
}

/// What `PRINT USING fmt; v1; v2; ...` writes (without the line end).
pub fn using_render(fmt: &[u8], vals: &[UVal]) -> UOut {
    let segs = match parse_format(fmt) {
        Ok(s) => s,
        Err(w) => return UOut::Undecided(w),
    };
    if !segs.iter().any(|s| !matches!(s, Seg::Lit(_))) {
        return UOut::Error(5);
    }
    let mut out = vec![];
    let mut i = 0usize; // index of the next segment
    for v in vals {
        // literals up to the next field, wrapping around
        loop {
            if i >= segs.len() {
                i = 0;
            }
            match &segs[i] {
                Seg::Lit(l) => {
                    out.extend_from_slice(l);
                    i += 1;
                }
                _ => break,
            }
        }
        match (&segs[i], v) {
            (Seg::Num { int, frac }, UVal::Int(_) | UVal::Quarters(_)) => match render_number(int, *frac, *v) {
                Ok(b) => out.extend(b),
                Err(w) => return UOut::Undecided(w),
            },
            (Seg::Str(w), UVal::Str(s)) => {
                let mut b: Vec<u8> = s.bytes().take(*w).collect();
                while b.len() < *w {
                    b.push(b' ');
                }
                out.extend(b);
            }
            (Seg::First, UVal::Str(s)) => match s.bytes().next() {
                Some(c) => out.push(c),
                None => return UOut::Undecided("! with an empty string"),
            },
            _ => return UOut::Error(13),
        }
        i += 1;
    }
    // literal text after the last field used, up to the next field
    while i < segs.len() {
        match &segs[i] {
            Seg::Lit(l) => {
                out.extend_from_slice(l);
                i += 1;
            }
            _ => break,
        }
    }
    UOut::Bytes(out)
}

/// All format strings of length 1..=max over the alphabet.
pub fn formats(max: usize) -> Vec<Vec<u8>> {
    let mut out = vec![];
    let mut level: Vec<Vec<u8>> = vec![vec![]];
    for _ in 0..max {
        let mut next = vec![];
        for l in &level {
            for c in FORMAT_ALPHABET {
                let mut m = l.clone();
                m.push(c);
                next.push(m);
            }
        }
        out.extend(next.iter().cloned());
        level = next;
    }
    out
}

/// Value lists: every single value, every ordered pair, and triples of the first four.
pub fn value_lists(thorough: bool) -> Vec<Vec<usize>> {
    let n = UVALUES.len();
    let mut out: Vec<Vec<usize>> = (0..n).map(|i| vec![i]).collect();
    let pair_n = if thorough { n } else { 4 };
    for a in 0..pair_n {
        for b in 0..pair_n {
            out.push(vec![a, b]);
        }
    }
    let tri = if thorough { 4 } else { 2 };
    for a in 0..tri {
        for b in 0..tri {
            for c in 0..tri {
                out.push(vec![a, b, c]);
            }
        }
    }
    out
}

pub fn using_text(dev: usize, fmt: &[u8], vals: &[usize], trailing_semi: bool) -> String {
    let f = String::from_utf8_lossy(fmt).to_string();
    let list: Vec<&str> = vals.iter().map(|i| UVALUES[*i].0).collect();
    let sep = if dev >= 2 { " " } else { " " };
    format!("{}{}USING \"{}\"; {}{}", head(dev), sep, f, list.join("; "), if trailing_semi { ";" } else { "" })
}
