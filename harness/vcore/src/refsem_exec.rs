// Included by refsem.rs: the execution loop, simple statements, PRINT, built-ins, I/O.

impl<'a> Machine<'a> {
    fn cond_expr(&self, tag: u32) -> R<&'a Expr> {
        let id = tag / 64;
        let arm = (tag % 64) as usize;
        let s: &'a Stmt = self.stmts.get(&id).copied().ok_or(RErr::Inexact("no statement".into()))?;
        match &s.k {
            K::If { arms, .. } => Ok(&arms[arm].0),
            K::While(c, _) => Ok(c),
            K::Do(_, c, _) => Ok(c),
            _ => inexact("no condition"),
        }
    }

    fn stmt_id_at(&self, px: usize, pc: usize) -> Id {
        let start = self.procs[px].stmt_start[pc.min(self.procs[px].stmt_start.len() - 1)];
        match self.procs[px].code[start] {
            Op::Mark(id) => id,
            _ => 0,
        }
    }

    /// The statement (or the line of a block statement: ELSEIF, CASE, LOOP WHILE / UNTIL) an error raised by the
    /// operation at `pc` belongs to.
    fn error_stmt_id(&self, px: usize, pc: usize) -> Id {
        match &self.procs[px].code[pc.min(self.procs[px].code.len() - 1)] {
            Op::JmpF(tag, _) | Op::JmpT(tag, _) => {
                let (sid, arm) = (tag / 64, tag % 64);
                match self.stmts.get(&sid).map(|s| &s.k) {
                    Some(K::If { .. }) if arm > 0 => crate::gast::aux_id(sid, arm),
                    Some(K::Do(DoKind::WhileBottom | DoKind::UntilBottom, ..)) => crate::gast::aux_id(sid, 63),
                    Some(_) => sid,
                    None => self.stmt_id_at(px, pc),
                }
            }
            Op::CaseTest(sid, i, _) => crate::gast::aux_id(*sid, *i as u32 + 1),
            _ => self.stmt_id_at(px, pc),
        }
    }

    fn label_pc(&self, px: usize, l: &str) -> R<usize> {
        self.procs[px]
            .labels
            .get(&up(l))
            .copied()
            .ok_or(RErr::Inexact(format!("label {} not in this procedure", l)))
    }

    /// What a DIM declares is known before it executes: the type of the name, and whether it is shared.
    fn declare(&mut self, fx: usize, dv: &DimVar, shared: bool) -> (String, DeclTy) {
        let (bare, suffix) = split_suffix(&dv.name);
        let decl: DeclTy = match (&dv.ty, suffix) {
            (Some(t), _) => t.clone(),
            (None, Some(t)) => DeclTy::Scalar(t),
            (None, None) => DeclTy::Scalar(self.default_ty(&bare)),
        };
        let key = if dv.ty.is_some() {
            self.frames[fx].decl.insert(bare.clone(), decl.clone());
            bare.clone()
        } else {
            match &decl {
                DeclTy::Scalar(t) => format!("{}{}", bare, t.suffix()),
                _ => bare.clone(),
            }
        };
        if shared {
            self.shared.insert(bare.clone());
            self.shared.insert(key.clone());
        }
        (key, decl)
    }

    /// Records and arrays with literal bounds exist from the start of the module or subprogram that declares
    /// them, whether or not control reaches their DIM; other arrays exist once their DIM / REDIM has executed,
    /// and using them before that is Subscript out of range.
    fn predeclare(&mut self, px: usize, fx: usize) -> R<()> {
        fn literal_bound(e: &Expr) -> Option<i64> {
            match e {
                Expr::Num(t) => t.parse::<i64>().ok(),
                Expr::Neg(x) => literal_bound(x).map(|v| -v),
                Expr::Paren(x) => literal_bound(x),
                _ => None,
            }
        }
        let body: &'a [Stmt] = if px == 0 {
            &self.prog.main
        } else {
            match self.procs[px].def {
                Some(d) => &d.body,
                None => return Ok(()),
            }
        };
        let mut dims: Vec<&'a Stmt> = vec![];
        crate::gast::walk_stmts(body, &mut |s| {
            if matches!(s.k, K::Dim { .. }) {
                dims.push(s);
            }
        });
        for s in dims {
            if let K::Dim { shared, vars, redim } = &s.k {
                for dv in vars {
                    let is_static = !*redim
                        && if dv.dims.is_empty() {
                            matches!(dv.ty, Some(DeclTy::Rec(_)))
                        } else {
                            dv.dims.iter().all(|(lo, hi)| {
                                let l = match lo {
                                    Some(e) => literal_bound(e),
                                    None => Some(0),
                                };
                                matches!((l, literal_bound(hi)), (Some(l), Some(h)) if l <= h && l >= -32768 && h <= 32767)
                            })
                        };
                    if *redim {
                        let (bare, _) = split_suffix(&dv.name);
                        for (k, _) in self.frames[fx].decl.clone() {
                            if k == bare {
                                self.frames[fx].pending_arrays.insert(k);
                            }
                        }
                        let key = match split_suffix(&dv.name).1 {
                            Some(t) => format!("{}{}", bare, t.suffix()),
                            None if dv.ty.is_some() => bare.clone(),
                            None => format!("{}{}", bare, self.default_ty(&bare).suffix()),
                        };
                        self.frames[fx].pending_arrays.insert(key);
                        continue;
                    }
                    let (key, decl) = self.declare(fx, dv, *shared);
                    if !is_static {
                        if !dv.dims.is_empty() {
                            self.frames[fx].pending_arrays.insert(key);
                        }
                        continue;
                    }
                    if self.frames[fx].vars.contains_key(&key) {
                        continue;
                    }
                    let elem = self.new_value(&decl)?;
                    let v = if dv.dims.is_empty() {
                        elem
                    } else {
                        let dims = dv
                            .dims
                            .iter()
                            .map(|(lo, hi)| (lo.as_ref().and_then(literal_bound).unwrap_or(0) as i32, literal_bound(hi).unwrap_or(0) as i32))
                            .collect();
                        V::A(Arr::new(dims, elem))
                    };
                    self.frames[fx].vars.insert(key, v);
                }
            }
        }
        Ok(())
    }

    /// Runs procedure `px` in frame `fx` until it ends.
    fn run(&mut self, px: usize, fx: usize) -> Result<(), Stop> {
        match self.predeclare(px, fx) {
            Ok(()) => {}
            Err(RErr::Inexact(m)) => return Err(Stop::Undecided(m)),
            Err(RErr::Code(_)) => return Err(Stop::Undecided("a declaration failed before the program started".into())),
        }
        let mut cur_px = px;
        let mut cur_fx = fx;
        let mut pc = 0usize;
        loop {
            self.out.steps += 1;
            if self.out.steps > self.step_limit {
                return Err(Stop::Undecided("step limit".into()));
            }
            let op = self.procs[cur_px].code[pc].clone();
            let mut next = pc + 1;
            let r: R<()> = (|| -> R<()> {
                match &op {
                    Op::Mark(id) => {
                        self.out.executed.insert(*id);
                    }
                    Op::Jmp(t) => next = *t,
                    Op::JmpF(tag, t) | Op::JmpT(tag, t) => {
                        let c = self.cond_expr(*tag)?;
                        let v = self.eval(cur_fx, c)?;
                        let b = truth(&v)?;
                        let jump_if = matches!(op, Op::JmpT(..));
                        if b == jump_if {
                            next = *t;
                        }
                    }
                    Op::ForInit(id) => {
                        let s = self.stmts[id];
                        if let K::For { var, from, to, step, .. } = &s.k {
                            let cur = self.load(cur_fx, var)?;
                            let ty = match cur {
                                V::N(t, _) => t,
                                _ => return Err(TYPE_MISMATCH),
                            };
                            // start, limit and step are all evaluated (and converted) before the counter is set:
                            // `I = 5: FOR I = 1 TO I + 5` runs ten times
                            let f = self.eval(cur_fx, from)?;
                            let f = conv(&f, ty)?;
                            let t = self.eval(cur_fx, to)?;
                            let lim = match conv(&t, ty)? {
                                V::N(_, x) => x,
                                _ => return Err(TYPE_MISMATCH),
                            };
                            // the step is converted to the counter's type when the loop is entered (Overflow if it does not fit)
                            let st = match step {
                                Some(e) => {
                                    let v = self.eval(cur_fx, e)?;
                                    match conv(&v, ty)? {
                                        V::N(_, x) => x,
                                        _ => return Err(TYPE_MISMATCH),
                                    }
                                }
                                None => 1.0,
                            };
                            if st == 0.0 {
                                return inexact("R4: STEP 0");
                            }
                            self.store_raw(cur_fx, var, f)?;
                            self.frames[cur_fx].for_state.insert(*id, (lim, st));
                        }
                    }
                    Op::ForTest(id, exit) => {
                        let s = self.stmts[id];
                        if let K::For { var, .. } = &s.k {
                            let (lim, st) = *self.frames[cur_fx]
                                .for_state
                                .get(id)
                                .ok_or(RErr::Inexact("jump into a FOR body".into()))?;
                            let x = match self.load(cur_fx, var)? {
                                V::N(_, x) => x,
                                _ => return Err(TYPE_MISMATCH),
                            };
                            let go = if st > 0.0 { x <= lim } else { x >= lim };
                            if !go {
                                next = *exit;
                            }
                        }
                    }
                    Op::ForNext(id, top) => {
                        let s = self.stmts[id];
                        if let K::For { var, .. } = &s.k {
                            let (_, st) = *self.frames[cur_fx]
                                .for_state
                                .get(id)
                                .ok_or(RErr::Inexact("jump into a FOR body".into()))?;
                            let cur = self.load(cur_fx, var)?;
                            // counter and step have the counter's type: the sum must fit it
                            let sum = match &cur {
                                V::N(t, _) => conv(&binop(BinOp::Add, &cur, &V::N(*t, st))?, *t)?,
                                _ => return Err(TYPE_MISMATCH),
                            };
                            self.store_raw(cur_fx, var, sum)?;
                            next = *top;
                        }
                    }
                    Op::SelBegin(id) => {
                        let s = self.stmts[id];
                        if let K::Select { subject, .. } = &s.k {
                            let v = self.eval(cur_fx, subject)?;
                            self.frames[cur_fx].sel.push(v);
                        }
                    }
                    Op::CaseTest(id, i, skip) => {
                        let s = self.stmts[id];
                        if let K::Select { cases, .. } = &s.k {
                            let subj = self.frames[cur_fx].sel.last().cloned().ok_or(RErr::Inexact("jump into SELECT".into()))?;
                            let mut hit = false;
                            for t in &cases[*i].0 {
                                let m = match t {
                                    CaseExpr::Simple(e) => {
                                        let v = self.eval(cur_fx, e)?;
                                        truth(&binop(BinOp::Eq, &subj, &v)?)?
                                    }
                                    CaseExpr::Is(op, e) => {
                                        let v = self.eval(cur_fx, e)?;
                                        truth(&binop(*op, &subj, &v)?)?
                                    }
                                    CaseExpr::Range(lo, hi) => {
                                        let l = self.eval(cur_fx, lo)?;
                                        if !truth(&binop(BinOp::Ge, &subj, &l)?)? {
                                            false
                                        } else {
                                            let h = self.eval(cur_fx, hi)?;
                                            truth(&binop(BinOp::Le, &subj, &h)?)?
                                        }
                                    }
                                };
                                if m {
                                    hit = true;
                                    break;
                                }
                            }
                            if !hit {
                                next = *skip;
                            }
                        }
                    }
                    Op::SelEnd(_) => {
                        self.frames[cur_fx].sel.pop();
                    }
                    Op::EndProc => {}
                    Op::Simple(_) => {}
                }
                Ok(())
            })();
            // control statements and simple statements
            let r = match (&op, r) {
                (Op::EndProc, Ok(())) => {
                    if self.in_handler.is_some() && cur_px == 0 && px != 0 {
                        // the handler ran off the end of the main module: the program ends
                        return Err(Stop::Halt);
                    }
                    if cur_px == 0 && px == 0 {
                        return Ok(());
                    }
                    return Ok(());
                }
                (Op::Simple(id), Ok(())) => {
                    let s: &'a Stmt = self.stmts[id];
                    match &s.k {
                        K::Goto(l) => self.label_pc(cur_px, l).map(|t| next = t),
                        K::Gosub(l) => self.label_pc(cur_px, l).map(|t| {
                            self.gosub.push((cur_px, pc + 1));
                            next = t;
                        }),
                        K::Return(opt) => match self.gosub.pop() {
                            None => Err(RErr::Code(3)),
                            Some((rpx, rpc)) => {
                                if rpx != cur_px {
                                    inexact("RETURN across procedures")
                                } else {
                                    match opt {
                                        None => {
                                            next = rpc;
                                            Ok(())
                                        }
                                        Some(l) => self.label_pc(cur_px, l).map(|t| next = t),
                                    }
                                }
                            }
                        },
                        K::OnErrorGoto(l) => {
                            self.handler = HMode::Label(l.clone());
                            Ok(())
                        }
                        K::OnErrorGoto0 => {
                            self.handler = HMode::None;
                            Ok(())
                        }
                        K::OnErrorResumeNext => {
                            self.handler = HMode::Next;
                            Ok(())
                        }
                        K::Resume | K::ResumeNext | K::ResumeLabel(_) => match self.in_handler.take() {
                            None => Err(RErr::Code(20)),
                            Some(info) => {
                                self.err = 0;
                                match &s.k {
                                    K::Resume => {
                                        cur_px = info.proc_ix;
                                        cur_fx = info.frame_ix;
                                        next = info.start;
                                        Ok(())
                                    }
                                    K::ResumeNext => {
                                        cur_px = info.proc_ix;
                                        cur_fx = info.frame_ix;
                                        next = info.next;
                                        Ok(())
                                    }
                                    K::ResumeLabel(l) => {
                                        if info.proc_ix != 0 {
                                            // every active subprogram ends; the module-level invocation of `run` goes on at the label
                                            match self.label_pc(0, l) {
                                                Ok(t) => {
                                                    self.pending_stop = Some(Stop::ResumeAt(t));
                                                    Err(RErr::Inexact("__stop__".into()))
                                                }
                                                Err(e) => Err(e),
                                            }
                                        } else {
                                            cur_px = 0;
                                            cur_fx = 0;
                                            self.label_pc(0, l).map(|t| next = t)
                                        }
                                    }
                                    _ => Ok(()),
                                }
                            }
                        },
                        K::End => return Err(Stop::Halt),
                        K::ExitSub | K::ExitFunction => {
                            if self.in_handler.is_some() {
                                return Err(Stop::Undecided("EXIT inside a handler".into()));
                            }
                            return Ok(());
                        }
                        K::Call(n, args) => match self.find_proc(n) {
                            None => inexact("unknown sub"),
                            Some(cx) => {
                                self.call_chain.push(s.id);
                                let r = self.call_proc(cur_fx, cx, args).map(|_| ());
                                self.call_chain.pop();
                                r
                            }
                        },
                        _ => {
                            self.call_chain.push(s.id);
                            let r = self.simple(cur_fx, s);
                            self.call_chain.pop();
                            r
                        }
                    }
                }
                (_, r) => {
                    // expression evaluation inside control ops may call functions
                    r
                }
            };
            match r {
                Ok(()) => pc = next,
                Err(RErr::Inexact(m)) if m == "__stop__" => {
                    let stop = self.pending_stop.take().unwrap_or(Stop::Undecided("lost stop".into()));
                    if let Stop::ResumeAt(t) = stop {
                        if px == 0 && self.depth == 0 {
                            // pending GOSUBs of the ended subprograms end with them
                            self.gosub.retain(|(gpx, _)| *gpx == 0);
                            cur_px = 0;
                            cur_fx = 0;
                            pc = t;
                            continue;
                        }
                        return Err(Stop::ResumeAt(t));
                    }
                    return Err(match stop {
                        Stop::Error { code, stmt, mut sites } => {
                            sites.push(self.error_stmt_id(cur_px, pc));
                            Stop::Error { code, stmt, sites }
                        }
                        other => other,
                    });
                }
                Err(RErr::Inexact(m)) => return Err(Stop::Undecided(m)),
                Err(RErr::Code(code)) => {
                    let stmt = self.error_stmt_id(cur_px, pc);
                    if self.in_handler.is_some() || self.handler == HMode::None {
                        return Err(Stop::Error { code, stmt, sites: vec![] });
                    }
                    self.out.handled_errors += 1;
                    self.err = code;
                    // what the failing statement had started is abandoned
                    match self.handler.clone() {
                        HMode::Next => {
                            self.err = code;
                            pc += 1;
                        }
                        HMode::Label(l) => {
                            let start = self.procs[cur_px].stmt_start[pc];
                            self.in_handler = Some(ResumeInfo {
                                proc_ix: cur_px,
                                frame_ix: cur_fx,
                                start,
                                next: pc + 1,
                            });
                            match self.label_pc(0, &l) {
                                Ok(t) => {
                                    cur_px = 0;
                                    cur_fx = 0;
                                    pc = t;
                                }
                                Err(_) => return Err(Stop::Undecided("handler label not in the main module".into())),
                            }
                        }
                        HMode::None => unreachable!(),
                    }
                }
            }
        }
    }

    // ------------------------------------------------------------------ simple statements

    fn simple(&mut self, fx: usize, s: &'a Stmt) -> R<()> {
        match &s.k {
            K::Assign(l, r) => {
                let v = self.eval(fx, r)?;
                self.store(fx, l, v)
            }
            K::Print { dev, using, items } => {
                if using.is_some() {
                    return self.print_using(fx, *dev, using.as_ref().unwrap(), items);
                }
                self.print(fx, *dev, items)
            }
            K::Const(n, e) => {
                let v = self.eval(fx, e)?;
                let (bare, suffix) = split_suffix(n);
                let v = match (suffix, &v) {
                    (Some(t), V::N(..)) if t.is_numeric() => conv(&v, t)?,
                    _ => v,
                };
                self.frames[fx].consts.insert(bare, v);
                Ok(())
            }
            K::Dim { shared, vars, redim } => {
                for dv in vars {
                    let (key, decl) = self.declare(fx, dv, *shared);
                    // STATIC subprograms keep what is already there
                    if self.frames[fx].vars.contains_key(&key) && !*redim && fx != 0 {
                        let px = self.frames[fx].proc_ix;
                        if self.procs[px].def.map(|d| d.is_static).unwrap_or(false) {
                            continue;
                        }
                    }
                    let elem = self.new_value(&decl)?;
                    let v = if dv.dims.is_empty() {
                        elem
                    } else {
                        let mut dims = vec![];
                        for (lo, hi) in &dv.dims {
                            let l = match lo {
                                Some(e) => self.indices(fx, std::slice::from_ref(e))?[0],
                                None => 0,
                            };
                            let h = self.indices(fx, std::slice::from_ref(hi))?[0];
                            if h < l {
                                return Err(SUBSCRIPT);
                            }
                            dims.push((l, h));
                        }
                        V::A(Arr::new(dims, elem))
                    };
                    // REDIM inside a subprogram of an array that is SHARED at module level re-dimensions that array
                    let target = if *redim && fx != 0 && self.shared.contains(&key) && !self.frames[fx].vars.contains_key(&key) { 0 } else { fx };
                    self.frames[target].vars.insert(key, v);
                }
                Ok(())
            }
            K::Read(targets) => {
                for t in targets {
                    let t = &self.freeze(fx, t)?;
                    let item = self.data.get(self.data_pos).cloned().ok_or(RErr::Code(4))?;
                    self.data_pos += 1;
                    let old = self.shape_of(fx, t)?;
                    let v = match (&old, &item) {
                        (V::N(..), DataItem::Num(txt)) => {
                            let (neg_, body) = match txt.strip_prefix('-') {
                                Some(b) => (true, b),
                                None => (false, txt.as_str()),
                            };
                            let v = literal(body)?;
                            if neg_ { neg(&v)? } else { v }
                        }
                        (V::S(_), DataItem::Quoted(s)) | (V::S(_), DataItem::Bare(s)) => V::S(s.as_bytes().to_vec()),
                        (V::S(_), DataItem::Num(s)) => V::S(s.as_bytes().to_vec()),
                        _ => return inexact("R9: DATA item not convertible to the target"),
                    };
                    self.store(fx, t, v)?;
                }
                Ok(())
            }
            K::Input(h, targets) => {
                for t in targets {
                    let t = &self.freeze(fx, t)?;
                    let field = self.read_field(*h)?;
                    let old = self.shape_of(fx, t)?;
                    let v = match old {
                        V::N(..) => {
                            let txt = String::from_utf8_lossy(&field).to_string();
                            if txt.is_empty() {
                                V::N(Ty::Int, 0.0)
                            } else {
                                match txt.parse::<f64>() {
                                    Ok(x) if txt.bytes().all(|c| c.is_ascii_digit() || c == b'-' || c == b'.') => {
                                        V::N(Ty::Double, x)
                                    }
                                    _ => return inexact("R9: INPUT field not numeric"),
                                }
                            }
                        }
                        _ => V::S(field),
                    };
                    self.store(fx, t, v)?;
                }
                Ok(())
            }
            K::LineInput(h, t) => {
                let line = self.read_line(*h)?;
                self.store(fx, t, V::S(line))
            }
            K::Open { .. } | K::Close(_) | K::Kill(_) | K::Name(..) | K::Field(..) | K::Lset(..) | K::Put(..) | K::Get(..) => {
                self.file_stmt(fx, s)
            }
            K::Raw(_) => inexact("raw statement"),
            _ => inexact("statement not supported by the reference"),
        }
    }

    // ------------------------------------------------------------------ PRINT

    fn put(&mut self, dev: Dev, item: OutItem) -> R<()> {
        if let OutItem::Num(t, x) = &item {
            // R14: the long forms of printed numbers are not fixed by any property
            let digits = format!("{}", x.abs()).bytes().filter(|c| c.is_ascii_digit()).collect::<Vec<u8>>();
            let sig = digits.iter().skip_while(|c| **c == b'0').count();
            let limit = match t {
                Ty::Single => 7,
                Ty::Double => 15,
                _ => 20,
            };
            if sig > limit {
                return inexact("R14: printed number with more significant digits than its type shows");
            }
        }
        let width = match &item {
            OutItem::Bytes(b) => b.len(),
            OutItem::Num(_, x) => {
                // sign + digits + blank; the exact digit count of a fraction is not decided (R2),
                // so columns after a printed fraction are only known for whole numbers
                if x.fract() != 0.0 {
                    usize::MAX
                } else {
                    format!("{}", x.abs()).len() + 2
                }
            }
        };
        let col = self.cols.entry(dev).or_insert(0);
        if width == usize::MAX {
            *col = usize::MAX / 2;
        } else if *col < usize::MAX / 4 {
            *col += width;
        }
        match dev {
            Dev::Screen => self.out.screen.push(item),
            Dev::Lpt => self.out.lpt.push(item),
            Dev::File(h) => {
                let fh = self.handles.get(&h).ok_or(RErr::Code(52))?;
                if !matches!(fh.mode, FileMode::Output | FileMode::Append) {
                    return Err(RErr::Code(54));
                }
                let name = fh.name.clone();
                self.store.entry(name).or_default().push(item);
            }
        }
        Ok(())
    }

    fn newline(&mut self, dev: Dev) -> R<()> {
        self.put(dev, OutItem::Bytes(b"\r\n".to_vec()))?;
        self.cols.insert(dev, 0);
        Ok(())
    }

    fn print(&mut self, fx: usize, dev: Dev, items: &[PItem]) -> R<()> {
        if let Dev::File(h) = dev {
            let fh = self.handles.get(&h).ok_or(RErr::Code(52))?;
            if !matches!(fh.mode, FileMode::Output | FileMode::Append) {
                return Err(RErr::Code(54));
            }
        }
        for it in items {
            match it {
                PItem::Semi => {}
                PItem::Comma => {
                    let col = *self.cols.get(&dev).unwrap_or(&0);
                    if col > usize::MAX / 4 {
                        return inexact("R2: print zone after a fraction");
                    }
                    let pad = 14 - col % 14;
                    self.put(dev, OutItem::Bytes(vec![b' '; pad]))?;
                }
                PItem::E(e) => {
                    let v = self.eval(fx, e)?;
                    match v {
                        V::N(t, x) => self.put(dev, OutItem::Num(t, x))?,
                        V::S(s) => {
                            // CR or LF inside a string restarts the column (R16: bytes compared modulo spelling)
                            if s.iter().any(|c| *c == b'\r' || *c == b'\n') {
                                return inexact("R16: line break inside a printed string");
                            }
                            if s.iter().any(|c| *c >= 128) {
                                return inexact("R8: non-ASCII string");
                            }
                            self.put(dev, OutItem::Bytes(s))?;
                        }
                        _ => return Err(TYPE_MISMATCH),
                    }
                }
            }
        }
        let ends_with_sep = matches!(items.last(), Some(PItem::Semi) | Some(PItem::Comma));
        if !ends_with_sep {
            self.newline(dev)?;
        }
        if *self.cols.get(&dev).unwrap_or(&0) >= 70 && *self.cols.get(&dev).unwrap_or(&0) < usize::MAX / 4 {
            return inexact("R15: line longer than 70 columns");
        }
        Ok(())
    }

    fn print_using(&mut self, _fx: usize, _dev: Dev, _fmt: &Expr, _items: &[PItem]) -> R<()> {
        inexact("PRINT USING is judged by the C16 model")
    }

    // ------------------------------------------------------------------ built-in functions

    fn builtin(&mut self, fx: usize, name: &str, args: &[Expr]) -> R<V> {
        let n = up(name);
        let int_arg = |m: &mut Self, e: &Expr| -> R<i64> {
            match m.eval(fx, e)? {
                V::N(_, x) => Ok(conv_num(x, Ty::Long)? as i64),
                _ => Err(TYPE_MISMATCH),
            }
        };
        let str_arg = |m: &mut Self, e: &Expr| -> R<Vec<u8>> {
            match m.eval(fx, e)? {
                V::S(s) => Ok(s),
                _ => Err(TYPE_MISMATCH),
            }
        };
        let int = |x: i64| V::N(if (-32768..=32767).contains(&x) { Ty::Int } else { Ty::Long }, x as f64);
        match (n.as_str(), args.len()) {
            ("ERR", 0) => Ok(V::N(Ty::Int, self.err as f64)),
            ("LEN", 1) => {
                let v = self.eval(fx, &args[0])?;
                match v {
                    V::S(s) => Ok(int(s.len() as i64)),
                    _ => inexact("LEN of a non-string"),
                }
            }
            ("LEFT$", 2) | ("RIGHT$", 2) => {
                let s = str_arg(self, &args[0])?;
                let k = int_arg(self, &args[1])?;
                if k < 0 {
                    return Err(ILLEGAL);
                }
                let k = (k as usize).min(s.len());
                Ok(V::S(if n == "LEFT$" { s[..k].to_vec() } else { s[s.len() - k..].to_vec() }))
            }
            ("MID$", 2) | ("MID$", 3) => {
                let s = str_arg(self, &args[0])?;
                let start = int_arg(self, &args[1])?;
                if start < 1 {
                    return Err(ILLEGAL);
                }
                let len = if args.len() == 3 {
                    let l = int_arg(self, &args[2])?;
                    if l < 0 {
                        return Err(ILLEGAL);
                    }
                    l as usize
                } else {
                    usize::MAX
                };
                let st = (start as usize - 1).min(s.len());
                let en = st.saturating_add(len).min(s.len());
                Ok(V::S(s[st..en].to_vec()))
            }
            ("INSTR", 2) | ("INSTR", 3) => {
                let (start, hay, needle) = if args.len() == 3 {
                    let st = int_arg(self, &args[0])?;
                    (st, str_arg(self, &args[1])?, str_arg(self, &args[2])?)
                } else {
                    (1, str_arg(self, &args[0])?, str_arg(self, &args[1])?)
                };
                if start < 1 {
                    return Err(ILLEGAL);
                }
                if needle.is_empty() {
                    return inexact("INSTR with an empty needle is not fixed by the property");
                }
                let st = start as usize - 1;
                let mut found = 0usize;
                if st <= hay.len() {
                    for i in st..hay.len() {
                        if hay[i..].starts_with(&needle) {
                            found = i + 1;
                            break;
                        }
                    }
                }
                Ok(int(found as i64))
            }
            ("UCASE$", 1) => Ok(V::S(str_arg(self, &args[0])?.to_ascii_uppercase())),
            ("LCASE$", 1) => Ok(V::S(str_arg(self, &args[0])?.to_ascii_lowercase())),
            ("LTRIM$", 1) => {
                let s = str_arg(self, &args[0])?;
                let k = s.iter().take_while(|c| **c == b' ').count();
                Ok(V::S(s[k..].to_vec()))
            }
            ("RTRIM$", 1) => {
                let s = str_arg(self, &args[0])?;
                let k = s.iter().rev().take_while(|c| **c == b' ').count();
                Ok(V::S(s[..s.len() - k].to_vec()))
            }
            ("SPACE$", 1) => {
                let k = int_arg(self, &args[0])?;
                if k < 0 {
                    return Err(ILLEGAL);
                }
                Ok(V::S(vec![b' '; k as usize]))
            }
            ("STRING$", 2) => {
                let k = int_arg(self, &args[0])?;
                if k < 0 {
                    return Err(ILLEGAL);
                }
                let c = match self.eval(fx, &args[1])? {
                    V::N(_, x) => {
                        let c = conv_num(x, Ty::Int)?;
                        if !(0.0..=255.0).contains(&c) {
                            return Err(ILLEGAL);
                        }
                        c as u8
                    }
                    V::S(s) => *s.first().ok_or(ILLEGAL)?,
                    _ => return Err(TYPE_MISMATCH),
                };
                Ok(V::S(vec![c; k as usize]))
            }
            ("CHR$", 1) => {
                let k = int_arg(self, &args[0])?;
                if !(0..=255).contains(&k) {
                    return Err(ILLEGAL);
                }
                Ok(V::S(vec![k as u8]))
            }
            ("STR$", 1) => match self.eval(fx, &args[0])? {
                V::N(_, x) => {
                    if x.fract() != 0.0 {
                        return inexact("R2: STR$ of a fraction");
                    }
                    let s = if x < 0.0 { format!("{}", x) } else { format!(" {}", x) };
                    Ok(V::S(s.into_bytes()))
                }
                _ => Err(TYPE_MISMATCH),
            },
            ("VAL", 1) => {
                let s = str_arg(self, &args[0])?;
                let t = String::from_utf8_lossy(&s).trim().to_string();
                match t.parse::<f64>() {
                    Ok(x) if !t.is_empty() && t.bytes().all(|c| c.is_ascii_digit() || c == b'-' || c == b'.') => {
                        Ok(V::N(Ty::Double, x))
                    }
                    _ => inexact("VAL of a non-numeric text is not fixed by the property"),
                }
            }
            ("LBOUND", _) | ("UBOUND", _) => {
                let (arr, dim) = match args {
                    [Expr::Var(a)] | [Expr::Index(a, _)] => (a.clone(), 1),
                    [Expr::Var(a), d] | [Expr::Index(a, _), d] => (a.clone(), int_arg(self, d)?),
                    _ => return inexact("LBOUND shape"),
                };
                let (f, key, _) = self.resolve(fx, &arr);
                match self.frames[f].vars.get(&key) {
                    Some(V::A(a)) => {
                        if dim < 1 || dim as usize > a.dims.len() {
                            return Err(SUBSCRIPT);
                        }
                        let (l, u) = a.dims[dim as usize - 1];
                        Ok(int(if n == "LBOUND" { l } else { u } as i64))
                    }
                    _ => inexact("LBOUND of a non-array"),
                }
            }
            ("EOF", 1) => {
                let h = int_arg(self, &args[0])? as u8;
                let fh = self.handles.get(&h).ok_or(RErr::Code(52))?;
                if fh.mode != FileMode::Input {
                    return Err(RErr::Code(54));
                }
                Ok(V::N(Ty::Int, if fh.rpos >= fh.content.len() { -1.0 } else { 0.0 }))
            }
            _ => inexact("built-in not modelled"),
        }
    }

    // ------------------------------------------------------------------ input

    fn source(&mut self, h: Option<u8>) -> R<(&Vec<u8>, usize)> {
        match h {
            None => Ok((&self.stdin, self.stdin_pos)),
            Some(h) => {
                let fh = self.handles.get(&h).ok_or(RErr::Code(52))?;
                if fh.mode != FileMode::Input {
                    return Err(RErr::Code(54));
                }
                Ok((&fh.content, fh.rpos))
            }
        }
    }

    fn set_pos(&mut self, h: Option<u8>, p: usize) {
        match h {
            None => self.stdin_pos = p,
            Some(h) => {
                if let Some(fh) = self.handles.get_mut(&h) {
                    fh.rpos = p;
                }
            }
        }
    }

    /// One INPUT field: skip leading blanks, read up to a comma or a line end, trim.
    fn read_field(&mut self, h: Option<u8>) -> R<Vec<u8>> {
        let (buf, mut p) = self.source(h)?;
        let buf = buf.clone();
        if p >= buf.len() {
            return Err(RErr::Code(62));
        }
        while p < buf.len() && buf[p] == b' ' {
            p += 1;
        }
        let mut out = vec![];
        while p < buf.len() {
            let c = buf[p];
            p += 1;
            if c == b',' {
                break;
            }
            if c == b'\r' {
                if p < buf.len() && buf[p] == b'\n' {
                    p += 1;
                }
                break;
            }
            if c == b'\n' {
                break;
            }
            if c == b'"' {
                return inexact("R10: quote in an INPUT field");
            }
            out.push(c);
        }
        while out.last() == Some(&b' ') {
            out.pop();
        }
        self.set_pos(h, p);
        Ok(out)
    }

    fn read_line(&mut self, h: Option<u8>) -> R<Vec<u8>> {
        let (buf, mut p) = self.source(h)?;
        let buf = buf.clone();
        if p >= buf.len() {
            return Err(RErr::Code(62));
        }
        let mut out = vec![];
        while p < buf.len() {
            let c = buf[p];
            p += 1;
            if c == b'\r' {
                if p < buf.len() && buf[p] == b'\n' {
                    p += 1;
                }
                break;
            }
            if c == b'\n' {
                break;
            }
            out.push(c);
        }
        self.set_pos(h, p);
        Ok(out)
    }

    // ------------------------------------------------------------------ files (model store)

    fn rendered(&self, name: &str) -> R<Vec<u8>> {
        let mut out = vec![];
        for it in self.store.get(name).map(|v| v.as_slice()).unwrap_or(&[]) {
            match it {
                OutItem::Bytes(b) => out.extend_from_slice(b),
                OutItem::Num(_, x) => {
                    if x.fract() != 0.0 {
                        return inexact("R2: reading back a printed fraction");
                    }
                    let s = if *x < 0.0 { format!("{} ", x) } else { format!(" {} ", x) };
                    out.extend_from_slice(s.as_bytes());
                }
            }
        }
        Ok(out)
    }

    fn file_stmt(&mut self, fx: usize, s: &'a Stmt) -> R<()> {
        match &s.k {
            K::Open { name, mode, handle, len } => {
                let nm = match self.eval(fx, name)? {
                    V::S(b) => String::from_utf8_lossy(&b).to_string(),
                    _ => return Err(TYPE_MISMATCH),
                };
                if self.handles.contains_key(handle) {
                    return Err(RErr::Code(55));
                }
                if nm.contains('/') {
                    // a directory that does not exist: the file cannot be created or found
                    return match mode {
                        FileMode::Input => Err(RErr::Code(53)),
                        _ => inexact("error code for a file that cannot be created is not fixed by the property"),
                    };
                }
                let mut content = vec![];
                match mode {
                    FileMode::Input => {
                        if !self.store.contains_key(&nm) {
                            return Err(RErr::Code(53));
                        }
                        content = self.rendered(&nm)?;
                    }
                    FileMode::Output => {
                        self.store.insert(nm.clone(), vec![]);
                    }
                    FileMode::Append => {
                        self.store.entry(nm.clone()).or_default();
                    }
                    FileMode::Random => {
                        return inexact("RANDOM files are judged by the C18 model");
                    }
                }
                let rec_len = match len {
                    Some(e) => match self.eval(fx, e)? {
                        V::N(_, x) => x as usize,
                        _ => 0,
                    },
                    None => 0,
                };
                self.handles.insert(
                    *handle,
                    FileH {
                        name: nm,
                        mode: *mode,
                        rpos: 0,
                        content,
                        col: 0,
                        rec_len,
                        fields: vec![],
                    },
                );
                self.cols.insert(Dev::File(*handle), 0);
                Ok(())
            }
            K::Close(hs) => {
                if hs.is_empty() {
                    self.handles.clear();
                } else {
                    for h in hs {
                        self.handles.remove(h);
                    }
                }
                Ok(())
            }
            K::Kill(e) => {
                let nm = match self.eval(fx, e)? {
                    V::S(b) => String::from_utf8_lossy(&b).to_string(),
                    _ => return Err(TYPE_MISMATCH),
                };
                if self.handles.values().any(|h| h.name == nm) {
                    return inexact("R18: KILL of an open file");
                }
                if self.store.remove(&nm).is_none() {
                    return Err(RErr::Code(53));
                }
                Ok(())
            }
            K::Name(a, b) => {
                let (a, b) = match (self.eval(fx, a)?, self.eval(fx, b)?) {
                    (V::S(a), V::S(b)) => (String::from_utf8_lossy(&a).to_string(), String::from_utf8_lossy(&b).to_string()),
                    _ => return Err(TYPE_MISMATCH),
                };
                if self.handles.values().any(|h| h.name == a || h.name == b) || self.store.contains_key(&b) {
                    return inexact("R18: NAME on an open file or to an existing name");
                }
                match self.store.remove(&a) {
                    None => Err(RErr::Code(53)),
                    Some(c) => {
                        self.store.insert(b, c);
                        Ok(())
                    }
                }
            }
            _ => {
                let _ = (&self.handles.values().map(|h| (h.col, h.rec_len, h.fields.len())).count(),);
                inexact("RANDOM file statements are judged by the C18 model")
            }
        }
    }
}

/// Runs the reference semantics on a program.
pub fn run_reference(prog: &Prog, stdin: &[u8], pre_files: &[(String, Vec<u8>)]) -> RefOutcome {
    let mut m = Machine::new(prog, stdin);
    for (n, b) in pre_files {
        m.store.insert(n.clone(), vec![OutItem::Bytes(b.clone())]);
    }
    let r = m.run(0, 0);
    let end = match r {
        Ok(()) | Err(Stop::Halt) => REnd::Normal,
        Err(Stop::Error { code, stmt, sites }) => REnd::Error { code, stmt, sites },
        Err(Stop::Undecided(m)) => REnd::Undecided(m),
        Err(Stop::ResumeAt(_)) => REnd::Undecided("RESUME label left unanswered".into()),
    };
    let mut out = std::mem::take(&mut m.out);
    out.end = Some(end);
    out.files = m.store.clone();
    for (k, v) in &m.frames[0].vars {
        out.globals.insert(k.clone(), v.clone());
    }
    out
}
