//! Cross-check of the hand-rolled explicit-state searches of C16 and C18 with an established explicit-state
//! model checker (stateright, single-threaded breadth-first search with a depth target).
//!
//! The deciding step of C16 / C18 stays the replay of every (state, operation) transition on the
//! implementation; what this module adds is (a) an independent enumeration of the same model state spaces — the
//! number of distinct states per depth bound must agree with the driver's own search, otherwise the driver's
//! search (or its canonical form) is wrong and the run is a machinery failure, never a verdict; (b) model
//! invariants evaluated by stateright in every expanded state; (c) reachability ("sometimes") properties that
//! show the bounded space is not vacuous (every protocol error of the property text is one operation away from
//! some explored state; the devices' columns really differ).

use crate::fmodel::{FModel, Mode, Op, Step};
use crate::pmodel::{PModel, Tok};
use stateright::{Checker, Model, Property};

#[derive(Debug, Clone, Default)]
pub struct CrossCheck {
    pub unique_states: usize,
    pub generated_transitions: usize,
    pub max_depth: usize,
    /// names of `always` properties with a counterexample (must stay empty)
    pub invariant_violations: Vec<String>,
    /// names of `sometimes` properties that found a witness
    pub reached: Vec<String>,
    /// names of `sometimes` properties without a witness inside the bound
    pub not_reached: Vec<String>,
}

fn collect<M: Model>(checker: &impl Checker<M>, model_props: Vec<Property<M>>) -> CrossCheck
where
    M::State: std::fmt::Debug + Clone + PartialEq,
    M::Action: std::fmt::Debug + Clone + PartialEq,
{
    let mut r = CrossCheck { unique_states: checker.unique_state_count(), generated_transitions: checker.state_count(), max_depth: checker.max_depth(), ..Default::default() };
    let found = checker.discoveries();
    for p in model_props {
        let hit = found.contains_key(p.name);
        match p.expectation {
            stateright::Expectation::Always => {
                if hit {
                    r.invariant_violations.push(p.name.to_string());
                }
            }
            _ => {
                if hit {
                    r.reached.push(p.name.to_string());
                } else {
                    r.not_reached.push(p.name.to_string());
                }
            }
        }
    }
    r
}

// ---------------------------------------------------------------------------------------------------------
// C18: the file store + handle table

pub struct FileSpace {
    pub alpha: Vec<Op>,
}

fn some_op_gives(sp: &FileSpace, m: &FModel, want: impl Fn(&Step) -> bool) -> bool {
    sp.alpha.iter().any(|op| {
        let mut m2 = m.clone();
        want(&m2.step(op))
    })
}

impl Model for FileSpace {
    type State = FModel;
    type Action = usize;

    fn init_states(&self) -> Vec<FModel> {
        vec![FModel::initial()]
    }

    fn actions(&self, _state: &FModel, actions: &mut Vec<usize>) {
        actions.extend(0..self.alpha.len());
    }

    /// Only successful operations lead to a further state: a protocol error ends the program (it is a leaf of
    /// the driver's search too) and an operation the property text does not decide is not explored.
    fn next_state(&self, last: &FModel, action: usize) -> Option<FModel> {
        let mut m = last.clone();
        match m.step(&self.alpha[action]) {
            Step::Ok(_) => Some(m),
            _ => None,
        }
    }

    fn properties(&self) -> Vec<Property<Self>> {
        vec![
            Property::<Self>::always("every open handle names a file of the store", |_, m: &FModel| m.handles.values().all(|h| m.store.contains_key(&h.name))),
            Property::<Self>::always("a read position never lies beyond the end of its file", |_, m: &FModel| {
                m.handles.values().all(|h| h.mode != Mode::Input || h.pos <= m.store.get(&h.name).map(|d| d.len()).unwrap_or(0))
            }),
            Property::<Self>::always("the name that cannot be created is never in the store", |_, m: &FModel| !m.store.contains_key(&3)),
            Property::<Self>::always("a file is open on two handles only when both read it", |_, m: &FModel| {
                let hs: Vec<_> = m.handles.values().collect();
                hs.iter().enumerate().all(|(i, a)| hs.iter().skip(i + 1).all(|b| a.name != b.name || (a.mode == Mode::Input && b.mode == Mode::Input)))
            }),
            Property::<Self>::sometimes("File already open (55) is one operation away", |sp, m: &FModel| some_op_gives(sp, m, |s| matches!(s, Step::Code(55)))),
            Property::<Self>::sometimes("File not found (53) is one operation away", |sp, m: &FModel| some_op_gives(sp, m, |s| matches!(s, Step::Code(53)))),
            Property::<Self>::sometimes("Input past end of file (62) is one operation away", |sp, m: &FModel| some_op_gives(sp, m, |s| matches!(s, Step::Code(62)))),
            Property::<Self>::sometimes("a file error without a prescribed number is one operation away", |sp, m: &FModel| some_op_gives(sp, m, |s| matches!(s, Step::FileError))),
            Property::<Self>::sometimes("two handles are open at once", |_, m: &FModel| m.handles.len() >= 2),
            Property::<Self>::sometimes("a handle is open in every mode (across states: RANDOM)", |_, m: &FModel| m.handles.values().any(|h| h.mode == Mode::Random)),
            Property::<Self>::sometimes("a handle is open FOR APPEND on a file that already has content", |_, m: &FModel| {
                m.handles.values().any(|h| h.mode == Mode::Append && m.store.get(&h.name).map(|d| !d.is_empty()).unwrap_or(false))
            }),
            Property::<Self>::sometimes("a reader has consumed part of a non-empty file", |_, m: &FModel| {
                m.handles.values().any(|h| h.mode == Mode::Input && h.pos > 0 && m.store.get(&h.name).map(|d| !d.is_empty()).unwrap_or(false))
            }),
        ]
    }
}

/// `depth` = number of successful operations within which every state is expanded (the driver's
/// `bfs_depth_fully_expanded`); states one operation further are discovered but not expanded, as in the driver.
pub fn check_file_space(alpha: &[Op], depth: usize) -> CrossCheck {
    let sp = FileSpace { alpha: alpha.to_vec() };
    let props = sp.properties();
    let checker = sp.checker().threads(1).target_max_depth(depth + 1).spawn_bfs().join();
    collect(&checker, props)
}

// ---------------------------------------------------------------------------------------------------------
// C16: the column of each device, as residues mod 14 (the canonical state of the driver's search)

pub struct ColumnSpace {
    /// statement forms; event e = form e / 3 printed on device e % 3
    pub forms: Vec<Vec<Tok>>,
}

impl ColumnSpace {
    fn apply(&self, s: &[usize; 4], ev: usize) -> [usize; 4] {
        let mut m = PModel::default();
        for d in 0..4 {
            m.devs[d].col = s[d];
        }
        m.print(ev % 3, &self.forms[ev / 3]);
        m.canon()
    }
}

impl Model for ColumnSpace {
    type State = [usize; 4];
    type Action = usize;

    fn init_states(&self) -> Vec<[usize; 4]> {
        vec![PModel::default().canon()]
    }

    fn actions(&self, _state: &[usize; 4], actions: &mut Vec<usize>) {
        actions.extend(0..self.forms.len() * 3);
    }

    fn next_state(&self, last: &[usize; 4], action: usize) -> Option<[usize; 4]> {
        Some(self.apply(last, action))
    }

    fn properties(&self) -> Vec<Property<Self>> {
        vec![
            Property::<Self>::always("every column residue is below 14 and the unused device stays at 0", |_, s: &[usize; 4]| s.iter().all(|c| *c < 14) && s[3] == 0),
            Property::<Self>::sometimes("the three devices stand at three different columns", |_, s: &[usize; 4]| s[0] != s[1] && s[1] != s[2] && s[0] != s[2]),
            Property::<Self>::sometimes("a device stands at the last column of a zone", |_, s: &[usize; 4]| s[..3].contains(&13)),
        ]
    }
}

/// `levels` = number of whole levels the driver expanded; `None` = until no new state appears.
pub fn check_column_space(forms: &[Vec<Tok>], levels: Option<usize>) -> CrossCheck {
    let sp = ColumnSpace { forms: forms.to_vec() };
    let props = sp.properties();
    let b = sp.checker().threads(1);
    let b = match levels {
        Some(l) => b.target_max_depth(l + 1),
        None => b,
    };
    let checker = b.spawn_bfs().join();
    collect(&checker, props)
}
