//! Compares what the reference semantics says with what the implementation did.

use crate::gast::Id;
use crate::gprint::Pos;
use crate::outcome::{End, Outcome};
use crate::refsem::{REnd, RefOutcome};
use crate::rvalue::{output_matches, render};
use std::collections::BTreeMap;

#[derive(Debug, Clone, PartialEq)]
pub enum Verdict {
    Agree,
    /// the reference does not decide this case
    Undecided(String),
    /// (divergence class, explanation)
    Differ(String, String),
}

pub fn compare(r: &RefOutcome, pos: &BTreeMap<Id, Pos>, o: &Outcome) -> Verdict {
    let end = r.end.clone().unwrap_or(REnd::Undecided("no end".into()));
    // an internal failure is never the prescribed outcome, whatever the reference can say about the program
    if matches!(o.end, End::Panic { .. } | End::Crash { .. }) {
        return Verdict::Differ(format!("{}->{}", end_class(&end), o.end.class()), format!("the implementation ended with an internal failure: {:?}", o.end));
    }
    if let REnd::Undecided(m) = &end {
        return Verdict::Undecided(m.clone());
    }
    // a program the reference accepts must not be rejected, and must not fail internally
    if matches!(o.end, End::ParseError { .. } | End::LintError { .. } | End::Panic { .. } | End::Crash { .. } | End::Hang) {
        return Verdict::Differ(
            format!("{}->{}", end_class(&end), o.end.class()),
            format!("expected end {:?}, implementation ended with {:?}", end, o.end),
        );
    }
    if let Err(m) = output_matches(&r.screen, &o.stdout) {
        return Verdict::Differ(
            format!("{}|stdout", end_class(&end)),
            format!("stdout: {} — expected {:?}, actual {:?}", m, render(&r.screen), o.stdout_str()),
        );
    }
    if let Err(m) = output_matches(&r.lpt, &o.lpt1) {
        return Verdict::Differ(
            format!("{}|lpt1", end_class(&end)),
            format!("LPT1: {} — expected {:?}, actual {:?}", m, render(&r.lpt), o.lpt1_str()),
        );
    }
    match (&end, &o.end) {
        (REnd::Normal, End::Normal) => Verdict::Agree,
        (REnd::Error { code, stmt, sites }, End::RuntimeError { code: Some(c), rows, .. }) => {
            if c != code {
                return Verdict::Differ(
                    format!("error{}->error{}", code, c),
                    format!("expected run-time error {} but got {}", code, c),
                );
            }
            if *stmt >= crate::gast::AUX_BASE && !pos.contains_key(stmt) {
                return Verdict::Undecided("the failing line of a block statement has no recorded position in this layout".into());
            }
            let want_row = pos.get(stmt).map(|p| p.row);
            if rows.first().copied() != want_row {
                return Verdict::Differ(
                    format!("error{}|row", code),
                    format!("error {} expected at row {:?} (statement {}), reported at rows {:?}", code, want_row, stmt, rows),
                );
            }
            let want_sites: Vec<Option<u32>> = sites.iter().map(|s| pos.get(s).map(|p| p.row)).collect();
            let got_sites: Vec<Option<u32>> = rows.iter().skip(1).map(|r| Some(*r)).collect();
            if want_sites != got_sites {
                return Verdict::Differ(
                    format!("error{}|call-sites", code),
                    format!("call sites expected at rows {:?}, reported {:?}", want_sites, got_sites),
                );
            }
            Verdict::Agree
        }
        (e, a) => Verdict::Differ(
            format!("{}->{}", end_class(e), a.class()),
            format!("expected end {:?}, implementation ended with {:?}", e, a),
        ),
    }
}

fn end_class(e: &REnd) -> String {
    match e {
        REnd::Normal => "normal".into(),
        REnd::Error { code, .. } => format!("error{}", code),
        REnd::Undecided(_) => "undecided".into(),
    }
}
