//! Generator AST (`GProg`): the BASIC subset the properties talk about. Programs are
//! *constructed* as values of this type by the enumerators, printed to text by
//! `gprint` (which also yields the position map) and executed by `refsem`.

pub type Id = u32;

#[derive(Clone, Copy, Debug, PartialEq, Eq, Hash, PartialOrd, Ord)]
pub enum Ty {
    Int,
    Long,
    Single,
    Double,
    Str,
}

impl Ty {
    pub fn suffix(self) -> char {
        match self {
            Ty::Int => '%',
            Ty::Long => '&',
            Ty::Single => '!',
            Ty::Double => '#',
            Ty::Str => '$',
        }
    }

    pub fn keyword(self) -> &'static str {
        match self {
            Ty::Int => "INTEGER",
            Ty::Long => "LONG",
            Ty::Single => "SINGLE",
            Ty::Double => "DOUBLE",
            Ty::Str => "STRING",
        }
    }

    pub fn from_suffix(c: char) -> Option<Ty> {
        match c {
            '%' => Some(Ty::Int),
            '&' => Some(Ty::Long),
            '!' => Some(Ty::Single),
            '#' => Some(Ty::Double),
            '$' => Some(Ty::Str),
            _ => None,
        }
    }

    pub fn is_numeric(self) -> bool {
        self != Ty::Str
    }

    pub const ALL: [Ty; 5] = [Ty::Int, Ty::Long, Ty::Single, Ty::Double, Ty::Str];
    pub const NUMERIC: [Ty; 4] = [Ty::Int, Ty::Long, Ty::Single, Ty::Double];
}

/// A declared type (DIM ... AS, TYPE elements, parameters).
#[derive(Clone, Debug, PartialEq, Eq, Hash)]
pub enum DeclTy {
    Scalar(Ty),
    FixStr(u16),
    Rec(String),
}

#[derive(Clone, Copy, Debug, PartialEq, Eq, Hash)]
pub enum BinOp {
    Add,
    Sub,
    Mul,
    Div,
    Mod,
    Lt,
    Le,
    Eq,
    Ge,
    Gt,
    Ne,
    And,
    Or,
}

impl BinOp {
    pub fn text(self) -> &'static str {
        match self {
            BinOp::Add => "+",
            BinOp::Sub => "-",
            BinOp::Mul => "*",
            BinOp::Div => "/",
            BinOp::Mod => "MOD",
            BinOp::Lt => "<",
            BinOp::Le => "<=",
            BinOp::Eq => "=",
            BinOp::Ge => ">=",
            BinOp::Gt => ">",
            BinOp::Ne => "<>",
            BinOp::And => "AND",
            BinOp::Or => "OR",
        }
    }

    pub const ALL: [BinOp; 13] = [
        BinOp::Add,
        BinOp::Sub,
        BinOp::Mul,
        BinOp::Div,
        BinOp::Mod,
        BinOp::Lt,
        BinOp::Le,
        BinOp::Eq,
        BinOp::Ge,
        BinOp::Gt,
        BinOp::Ne,
        BinOp::And,
        BinOp::Or,
    ];

    pub fn is_relational(self) -> bool {
        matches!(self, BinOp::Lt | BinOp::Le | BinOp::Eq | BinOp::Ge | BinOp::Gt | BinOp::Ne)
    }
}

#[derive(Clone, Debug, PartialEq)]
pub enum Expr {
    /// a numeric literal by its source text (123, &HFF, 1.5, .25#)
    Num(String),
    Str(String),
    /// a variable by its spelled name, with or without suffix
    Var(String),
    /// array element
    Index(String, Vec<Expr>),
    /// record field
    Field(Box<Expr>, String),
    Bin(BinOp, Box<Expr>, Box<Expr>),
    Neg(Box<Expr>),
    Not(Box<Expr>),
    Paren(Box<Expr>),
    /// user function call
    Call(String, Vec<Expr>),
    /// built-in function call
    Builtin(String, Vec<Expr>),
}

pub fn num<T: ToString>(v: T) -> Expr {
    let s = v.to_string();
    if let Some(rest) = s.strip_prefix('-') {
        Expr::Neg(Box::new(Expr::Num(rest.to_string())))
    } else {
        Expr::Num(s)
    }
}

pub fn var(n: &str) -> Expr {
    Expr::Var(n.to_string())
}

pub fn st(s: &str) -> Expr {
    Expr::Str(s.to_string())
}

pub fn bin(op: BinOp, l: Expr, r: Expr) -> Expr {
    Expr::Bin(op, Box::new(l), Box::new(r))
}

pub fn call(n: &str, args: Vec<Expr>) -> Expr {
    Expr::Call(n.to_string(), args)
}

pub fn builtin(n: &str, args: Vec<Expr>) -> Expr {
    Expr::Builtin(n.to_string(), args)
}

#[derive(Clone, Debug, PartialEq)]
pub enum PItem {
    E(Expr),
    Comma,
    Semi,
}

#[derive(Clone, Copy, Debug, PartialEq, Eq, Hash, PartialOrd, Ord)]
pub enum Dev {
    Screen,
    Lpt,
    File(u8),
}

#[derive(Clone, Debug, PartialEq)]
pub enum CaseExpr {
    Simple(Expr),
    Is(BinOp, Expr),
    Range(Expr, Expr),
}

#[derive(Clone, Copy, Debug, PartialEq, Eq, Hash)]
pub enum DoKind {
    WhileTop,
    UntilTop,
    WhileBottom,
    UntilBottom,
}

#[derive(Clone, Copy, Debug, PartialEq, Eq, Hash)]
pub enum FileMode {
    Input,
    Output,
    Append,
    Random,
}

#[derive(Clone, Debug, PartialEq)]
pub enum DataItem {
    Num(String),
    Quoted(String),
    Bare(String),
}

#[derive(Clone, Debug, PartialEq)]
pub struct DimVar {
    pub name: String,
    /// None: type by suffix / default
    pub ty: Option<DeclTy>,
    /// array bounds: (lower, upper)
    pub dims: Vec<(Option<Expr>, Expr)>,
}

#[derive(Clone, Debug, PartialEq)]
pub enum K {
    Assign(Expr, Expr),
    Print {
        dev: Dev,
        using: Option<Expr>,
        items: Vec<PItem>,
    },
    If {
        arms: Vec<(Expr, Vec<Stmt>)>,
        els: Option<Vec<Stmt>>,
        single_line: bool,
    },
    Select {
        subject: Expr,
        cases: Vec<(Vec<CaseExpr>, Vec<Stmt>)>,
        els: Option<Vec<Stmt>>,
    },
    For {
        var: Expr,
        from: Expr,
        to: Expr,
        step: Option<Expr>,
        body: Vec<Stmt>,
        next_var: bool,
    },
    While(Expr, Vec<Stmt>),
    Do(DoKind, Expr, Vec<Stmt>),
    Goto(String),
    Gosub(String),
    Return(Option<String>),
    Label(String),
    OnErrorGoto(String),
    OnErrorGoto0,
    OnErrorResumeNext,
    Resume,
    ResumeNext,
    ResumeLabel(String),
    Const(String, Expr),
    Dim {
        shared: bool,
        redim: bool,
        vars: Vec<DimVar>,
    },
    Call(String, Vec<Expr>),
    ExitSub,
    ExitFunction,
    End,
    Data(Vec<DataItem>),
    Read(Vec<Expr>),
    Input(Option<u8>, Vec<Expr>),
    LineInput(Option<u8>, Expr),
    Open {
        name: Expr,
        mode: FileMode,
        handle: u8,
        len: Option<Expr>,
    },
    Close(Vec<u8>),
    Kill(Expr),
    Name(Expr, Expr),
    Field(u8, Vec<(Expr, String)>),
    Lset(String, Expr),
    Put(u8, Expr),
    Get(u8, Expr),
    Comment(String),
    /// a statement given as raw text: printed as is, not interpreted by the reference
    Raw(String),
}

#[derive(Clone, Debug, PartialEq)]
pub struct Stmt {
    pub id: Id,
    pub k: K,
}

#[derive(Clone, Debug, PartialEq)]
pub struct Param {
    pub name: String,
    pub ty: Option<DeclTy>,
    pub is_array: bool,
}

#[derive(Clone, Debug, PartialEq)]
pub struct SubDef {
    pub id: Id,
    pub name: String,
    pub is_function: bool,
    pub params: Vec<Param>,
    pub body: Vec<Stmt>,
    pub is_static: bool,
}

#[derive(Clone, Debug, PartialEq)]
pub struct TypeDef {
    pub name: String,
    pub fields: Vec<(String, DeclTy)>,
}

#[derive(Clone, Debug, PartialEq, Default)]
pub struct Prog {
    /// DEFINT A-Z style statements: (type, from letter, to letter)
    pub deftypes: Vec<(Ty, char, char)>,
    pub types: Vec<TypeDef>,
    pub main: Vec<Stmt>,
    pub subs: Vec<SubDef>,
    /// emit DECLARE statements for the subprograms
    pub declare: bool,
}

/// Hands out statement ids.
#[derive(Default)]
pub struct B {
    next: Id,
}

impl B {
    pub fn new() -> Self {
        B { next: 1 }
    }

    pub fn s(&mut self, k: K) -> Stmt {
        let id = self.next;
        self.next += 1;
        Stmt { id, k }
    }

    pub fn id(&mut self) -> Id {
        let id = self.next;
        self.next += 1;
        id
    }

    pub fn assign(&mut self, l: Expr, r: Expr) -> Stmt {
        self.s(K::Assign(l, r))
    }

    /// PRINT e1; e2; ... (items separated by semicolons)
    pub fn print(&mut self, items: Vec<Expr>) -> Stmt {
        let mut v = vec![];
        for (i, e) in items.into_iter().enumerate() {
            if i > 0 {
                v.push(PItem::Semi);
            }
            v.push(PItem::E(e));
        }
        self.s(K::Print {
            dev: Dev::Screen,
            using: None,
            items: v,
        })
    }
}

/// Visits every statement (pre-order), including nested ones.
pub fn walk_stmts<'a>(stmts: &'a [Stmt], f: &mut dyn FnMut(&'a Stmt)) {
    for s in stmts {
        f(s);
        match &s.k {
            K::If { arms, els, .. } => {
                for (_, b) in arms {
                    walk_stmts(b, f);
                }
                if let Some(e) = els {
                    walk_stmts(e, f);
                }
            }
            K::Select { cases, els, .. } => {
                for (_, b) in cases {
                    walk_stmts(b, f);
                }
                if let Some(e) = els {
                    walk_stmts(e, f);
                }
            }
            K::For { body, .. } | K::While(_, body) | K::Do(_, _, body) => walk_stmts(body, f),
            _ => {}
        }
    }
}

impl Prog {
    pub fn walk(&self, f: &mut dyn FnMut(&Stmt)) {
        walk_stmts(&self.main, f);
        for s in &self.subs {
            walk_stmts(&s.body, f);
        }
    }

    pub fn statement_count(&self) -> usize {
        let mut n = 0;
        self.walk(&mut |_| n += 1);
        n
    }
}

/// Position-map key of a line that belongs to a block statement and holds an expression that can fail:
/// `k` = arm index (1..) for an ELSEIF line, case index + 1 for a CASE line, 63 for a LOOP WHILE / LOOP UNTIL line.
pub const AUX_BASE: Id = 0x4000_0000;
pub fn aux_id(stmt: Id, k: u32) -> Id {
    AUX_BASE + stmt * 64 + k
}
