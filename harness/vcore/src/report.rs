//! Evidence files, replay files, known findings and the VIOLATION / KNOWN-FINDING protocol.

use std::collections::BTreeMap;
use std::path::PathBuf;
use std::time::Instant;

use serde_json::{Map, Value, json};

pub fn verif_root() -> PathBuf {
    PathBuf::from(std::env::var("VERIF_ROOT").unwrap_or_else(|_| "/verif".to_string()))
}

pub fn fnv1a(s: &str) -> u64 {
    let mut h: u64 = 0xcbf29ce484222325;
    for b in s.as_bytes() {
        h ^= *b as u64;
        h = h.wrapping_mul(0x100000001b3);
    }
    h
}

#[derive(Clone, Debug)]
pub struct KnownFinding {
    pub id: String,
    pub property: String,
    pub open: bool,
    pub signatures: Vec<String>,
    pub what_fails: String,
}

pub fn load_known_findings() -> Result<Vec<KnownFinding>, String> {
    let path = verif_root().join("known_findings.json");
    let text = match std::fs::read_to_string(&path) {
        Ok(t) => t,
        Err(_) => return Ok(vec![]),
    };
    let v: Value = serde_json::from_str(&text).map_err(|e| format!("{}: {}", path.display(), e))?;
    let mut out = vec![];
    for f in v["findings"].as_array().cloned().unwrap_or_default() {
        out.push(KnownFinding {
            id: f["id"].as_str().unwrap_or("").to_string(),
            property: f["property"].as_str().unwrap_or("").to_string(),
            open: f["status"].as_str() == Some("open"),
            signatures: f["signatures"]
                .as_array()
                .map(|a| {
                    a.iter()
                        .filter_map(|s| s.as_str().map(|s| s.to_string()))
                        .collect()
                })
                .unwrap_or_default(),
            what_fails: f["what_fails"].as_str().unwrap_or("").to_string(),
        });
    }
    Ok(out)
}

struct Viol {
    order: u64,
    count: u64,
    summary: String,
    replay: Value,
}

pub struct Reporter {
    pub prop: String,
    pub tier: String,
    pub seed: i64,
    pub start: Instant,
    violations: BTreeMap<String, Viol>,
    pub max_reported: usize,
}

pub struct Evidence {
    pub level: &'static str,
    pub coverage: Map<String, Value>,
    pub assumptions: Vec<String>,
}

impl Evidence {
    pub fn new(level: &'static str) -> Self {
        Self {
            level,
            coverage: Map::new(),
            assumptions: vec![],
        }
    }

    pub fn set<V: Into<Value>>(&mut self, key: &str, v: V) -> &mut Self {
        self.coverage.insert(key.to_string(), v.into());
        self
    }

    pub fn assume(&mut self, s: &str) -> &mut Self {
        self.assumptions.push(s.to_string());
        self
    }
}

impl Reporter {
    pub fn new(prop: &str, tier: &str) -> Self {
        let seed = std::env::var("VERIF_SEED")
            .ok()
            .and_then(|s| s.parse::<i64>().ok())
            .unwrap_or(0);
        Self {
            prop: prop.to_string(),
            tier: tier.to_string(),
            seed,
            start: Instant::now(),
            violations: BTreeMap::new(),
            max_reported: 40,
        }
    }

    /// Record a violating case. `order` is the case's index in the enumeration
    /// (the smallest one per signature is kept as the representative).
    pub fn violation(&mut self, order: u64, signature: String, summary: String, replay: Value) {
        match self.violations.get_mut(&signature) {
            Some(v) => {
                v.count += 1;
                if order < v.order {
                    v.order = order;
                    v.summary = summary;
                    v.replay = replay;
                }
            }
            None => {
                self.violations.insert(
                    signature,
                    Viol {
                        order,
                        count: 1,
                        summary,
                        replay,
                    },
                );
            }
        }
    }

    pub fn violation_count(&self) -> usize {
        self.violations.len()
    }

    pub fn wall_s(&self) -> f64 {
        self.start.elapsed().as_secs_f64()
    }

    /// Writes the evidence file, the replay files, prints the protocol lines
    /// and returns the process exit code (0, 1, or 2 for machinery failures).
    pub fn finish(self, mut evidence: Evidence) -> i32 {
        let root = verif_root();
        let known = match load_known_findings() {
            Ok(k) => k,
            Err(e) => {
                eprintln!("MACHINERY: cannot read known findings: {}", e);
                return 2;
            }
        };
        let mut by_order: Vec<(&String, &Viol)> = self.violations.iter().collect();
        by_order.sort_by_key(|(sig, v)| (v.order, (*sig).clone()));

        let mut known_hit: BTreeMap<String, (String, u64)> = BTreeMap::new();
        let mut fresh: Vec<(&String, &Viol)> = vec![];
        for (sig, v) in by_order {
            let hit = known.iter().find(|k| {
                k.open && k.property == self.prop && k.signatures.iter().any(|s| s == sig)
            });
            match hit {
                Some(k) => {
                    let e = known_hit
                        .entry(k.id.clone())
                        .or_insert((k.what_fails.clone(), 0));
                    e.1 += v.count;
                }
                None => fresh.push((sig, v)),
            }
        }
        for (id, (what, count)) in &known_hit {
            println!(
                "KNOWN-FINDING: property={} {} [{}; {} case(s) in this run]",
                self.prop, what, id, count
            );
        }
        let replay_dir = root.join("replays").join(&self.prop);
        let mut violation_records = vec![];
        let mut machinery_failure = false;
        for (i, (sig, v)) in fresh.iter().enumerate() {
            let hash = format!("{:016x}", fnv1a(sig));
            let path = replay_dir.join(format!("{}.json", hash));
            let doc = json!({
                "property": self.prop,
                "signature": sig,
                "summary": v.summary,
                "cases_with_this_signature": v.count,
                "case": v.replay,
            });
            if std::fs::create_dir_all(&replay_dir).is_err()
                || std::fs::write(&path, serde_json::to_string_pretty(&doc).unwrap()).is_err()
            {
                eprintln!("MACHINERY: cannot write replay file {}", path.display());
                machinery_failure = true;
            }
            if let Some(text) = v.replay.get("text").and_then(|t| t.as_str()) {
                let _ = std::fs::write(replay_dir.join(format!("{}.bas", hash)), text);
            }
            if i < self.max_reported {
                println!("VIOLATION property={} replay={}", self.prop, path.display());
                println!("  signature: {}", sig);
                println!("  summary: {}", v.summary);
            }
            violation_records.push(json!({"signature": sig, "summary": v.summary, "cases": v.count, "replay": path.display().to_string()}));
        }
        if fresh.len() > self.max_reported {
            println!(
                "VIOLATION property={} replay={} ({} further distinct signatures not listed)",
                self.prop,
                replay_dir.display(),
                fresh.len() - self.max_reported
            );
        }
        let wall = self.start.elapsed().as_secs_f64();
        evidence.coverage.insert(
            "known_findings_hit".into(),
            json!(
                known_hit
                    .iter()
                    .map(|(id, (w, c))| json!({"id": id, "what_fails": w, "cases": c}))
                    .collect::<Vec<_>>()
            ),
        );
        evidence
            .coverage
            .insert("violation_records".into(), json!(violation_records));
        let doc = json!({
            "property_id": self.prop,
            "tier": self.tier,
            "seed": self.seed,
            "level": evidence.level,
            "coverage": Value::Object(evidence.coverage),
            "assumptions": evidence.assumptions,
            "wall_s": (wall * 1000.0).round() / 1000.0,
            "violations": fresh.len(),
        });
        let evidence_dir = root.join("evidence");
        let evidence_path = evidence_dir.join(format!("{}.json", self.prop));
        if std::fs::create_dir_all(&evidence_dir).is_err()
            || std::fs::write(&evidence_path, serde_json::to_string_pretty(&doc).unwrap()).is_err()
        {
            eprintln!("MACHINERY: cannot write evidence {}", evidence_path.display());
            return 2;
        }
        if machinery_failure {
            return 2;
        }
        println!(
            "{} {}: {} violation signature(s), {} known finding(s) hit, {:.1}s, evidence {}",
            self.prop,
            self.tier,
            fresh.len(),
            known_hit.len(),
            wall,
            evidence_path.display()
        );
        if fresh.is_empty() { 0 } else { 1 }
    }
}

/// Picks first, median and last of a list of samples (plus anything already chosen).
pub fn pick_samples(all: &[Value], max: usize) -> Vec<Value> {
    if all.len() <= max {
        return all.to_vec();
    }
    let mut out = vec![];
    let n = all.len();
    for k in 0..max {
        let idx = k * (n - 1) / (max - 1);
        out.push(all[idx].clone());
    }
    out
}
