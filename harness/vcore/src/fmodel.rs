//! C18: a model of the file store and the handle table, written from the property text,
//! and the operation alphabet of the history explorer.

use std::collections::BTreeMap;

pub const NAMES: [&str; 4] = ["a.txt", "b.txt", "pre.txt", "nodir/x.txt"];
pub const PRE_CONTENT: &[u8] = b"l1\r\nx, y\r\n";
pub const ITEMS: [(&str, &[u8]); 5] = [
    ("\"ab\"", b"ab\r\n"),
    ("\"c,d\"", b"c,d\r\n"),
    ("5", b" 5 \r\n"),
    ("\"x\";", b"x"),
    // a character above 127 is one byte in the file and one character when read back
    ("\"p\" + CHR$(200) + \"q\"", b"p\xC8q\r\n"),
];
pub const RECORDS: [&str; 3] = ["wxyz", "abcd", "pq"];

#[derive(Clone, Copy, Debug, PartialEq, Eq, Hash, PartialOrd, Ord)]
pub enum Mode {
    Input,
    Output,
    Append,
    Random,
}

#[derive(Clone, Debug, PartialEq, Eq, Hash, PartialOrd, Ord)]
pub enum Op {
    Open(usize, Mode, usize),
    Print(usize, usize),
    LineInput(usize),
    Input1(usize),
    Input2(usize),
    InputNum(usize),
    Eof(usize),
    Close(usize),
    CloseAll,
    Kill(usize),
    Name(usize, usize),
    /// LSET F<h>$ = RECORDS[v] : PUT #h, r
    Put(usize, usize, usize),
    Get(usize, usize),
}

#[derive(Clone, Debug, PartialEq, Eq, Hash, PartialOrd, Ord)]
pub struct Handle {
    pub name: usize,
    pub mode: Mode,
    pub pos: usize,
}

#[derive(Clone, Debug, PartialEq, Eq, Hash, PartialOrd, Ord, Default)]
pub struct FModel {
    pub store: BTreeMap<usize, Vec<u8>>,
    pub handles: BTreeMap<usize, Handle>,
}

#[derive(Clone, Debug, PartialEq, Eq)]
pub enum Step {
    /// the operation succeeds and prints this
    Ok(Vec<u8>),
    /// the operation fails with exactly this code
    Code(i32),
    /// the operation fails with some file error (the text does not say which)
    FileError,
    /// the property text does not decide the outcome
    Undecided(&'static str),
}

/// marker in expected output: four arbitrary characters (the content of an unwritten record)
pub const ANY_RECORD: u8 = 2;

pub fn is_file_error(code: i32) -> bool {
    (50..=76).contains(&code)
}

fn read_line(data: &[u8], pos: &mut usize) -> Vec<u8> {
    let mut out = vec![];
    while *pos < data.len() {
        let c = data[*pos];
        *pos += 1;
        if c == b'\r' {
            if *pos < data.len() && data[*pos] == b'\n' {
                *pos += 1;
            }
            return out;
        }
        if c == b'\n' {
            return out;
        }
        out.push(c);
    }
    out
}

/// One field: leading blanks skipped, ends at a comma or at the end of the line, trailing blanks dropped.
pub fn read_field(data: &[u8], pos: &mut usize) -> Vec<u8> {
    while *pos < data.len() && data[*pos] == b' ' {
        *pos += 1;
    }
    let mut out = vec![];
    while *pos < data.len() {
        let c = data[*pos];
        *pos += 1;
        if c == b',' {
            break;
        }
        if c == b'\r' {
            if *pos < data.len() && data[*pos] == b'\n' {
                *pos += 1;
            }
            break;
        }
        if c == b'\n' {
            break;
        }
        out.push(c);
    }
    while out.last() == Some(&b' ') {
        out.pop();
    }
    out
}

impl FModel {
    pub fn initial() -> FModel {
        let mut m = FModel::default();
        m.store.insert(2, PRE_CONTENT.to_vec());
        m
    }

    fn open_count(&self, name: usize) -> usize {
        self.handles.values().filter(|h| h.name == name).count()
    }

    pub fn step(&mut self, op: &Op) -> Step {
        match op {
            Op::Open(h, mode, name) => {
                if self.handles.contains_key(h) {
                    return Step::Code(55);
                }
                if self.open_count(*name) > 0 {
                    let all_input = *mode == Mode::Input && self.handles.values().filter(|x| x.name == *name).all(|x| x.mode == Mode::Input);
                    if !all_input {
                        return Step::Undecided("the same file open on two handles");
                    }
                }
                if *name == 3 {
                    // the directory does not exist
                    return Step::FileError;
                }
                match mode {
                    Mode::Input => {
                        if !self.store.contains_key(name) {
                            return Step::Code(53);
                        }
                    }
                    Mode::Output => {
                        self.store.insert(*name, vec![]);
                    }
                    Mode::Append | Mode::Random => {
                        self.store.entry(*name).or_default();
                    }
                }
                self.handles.insert(*h, Handle { name: *name, mode: *mode, pos: 0 });
                Step::Ok(vec![])
            }
            Op::Print(h, item) => match self.handles.get(h) {
                None => Step::FileError,
                Some(x) if x.mode == Mode::Output || x.mode == Mode::Append => {
                    let name = x.name;
                    self.store.get_mut(&name).unwrap().extend_from_slice(ITEMS[*item].1);
                    Step::Ok(vec![])
                }
                Some(_) => Step::FileError,
            },
            Op::LineInput(h) | Op::Input1(h) | Op::Input2(h) | Op::InputNum(h) => {
                let Some(x) = self.handles.get_mut(h) else { return Step::FileError };
                if x.mode != Mode::Input {
                    return Step::FileError;
                }
                let data = self.store.get(&x.name).cloned().unwrap_or_default();
                // INPUT # over record space that was never written, or over the padding of a value shorter than its FIELD:
                // whether those bytes are trimmed like blanks is not fixed by the property (R12)
                if !matches!(op, Op::LineInput(_)) && data[x.pos.min(data.len())..].contains(&0) {
                    return Step::Undecided("R12: INPUT # over unwritten record space or the padding of a short LSET value");
                }
                let mut out = vec![];
                let n = if matches!(op, Op::Input2(_)) { 2 } else { 1 };
                for _ in 0..n {
                    if x.pos >= data.len() {
                        return Step::Code(62);
                    }
                    let v = if matches!(op, Op::LineInput(_)) { read_line(&data, &mut x.pos) } else { read_field(&data, &mut x.pos) };
                    if matches!(op, Op::InputNum(_)) {
                        let t = String::from_utf8_lossy(&v).to_string();
                        match t.parse::<i32>() {
                            Ok(k) if (-32768..=32767).contains(&k) => {
                                out.extend_from_slice(if k < 0 { b"-" } else { b" " });
                                out.extend_from_slice(k.abs().to_string().as_bytes());
                                out.extend_from_slice(b" ");
                            }
                            _ => return Step::Undecided("R9: non-numeric text read into a numeric variable"),
                        }
                    } else {
                        out.push(b'[');
                        out.extend(v);
                        out.push(b']');
                    }
                }
                out.extend_from_slice(b"\r\n");
                Step::Ok(out)
            }
            Op::Eof(h) => match self.handles.get(h) {
                None => Step::FileError,
                Some(x) if x.mode == Mode::Input => {
                    let len = self.store.get(&x.name).map(|d| d.len()).unwrap_or(0);
                    Step::Ok(if x.pos >= len { b"-1 \r\n".to_vec() } else { b" 0 \r\n".to_vec() })
                }
                Some(_) => Step::Undecided("EOF of a file that is not open for input"),
            },
            Op::Close(h) => {
                self.handles.remove(h);
                Step::Ok(vec![])
            }
            Op::CloseAll => {
                self.handles.clear();
                Step::Ok(vec![])
            }
            Op::Kill(name) => {
                if self.open_count(*name) > 0 {
                    return Step::Undecided("KILL of an open file");
                }
                if *name == 3 {
                    return Step::FileError;
                }
                if self.store.remove(name).is_none() {
                    return Step::Code(53);
                }
                Step::Ok(vec![])
            }
            Op::Name(from, to) => {
                if self.open_count(*from) > 0 || self.open_count(*to) > 0 {
                    return Step::Undecided("NAME of an open file");
                }
                if !self.store.contains_key(from) {
                    return Step::Code(53);
                }
                if self.store.contains_key(to) {
                    return Step::Undecided("NAME onto an existing file");
                }
                let d = self.store.remove(from).unwrap();
                self.store.insert(*to, d);
                Step::Ok(vec![])
            }
            Op::Put(h, v, r) => match self.handles.get(h) {
                None => Step::FileError,
                Some(x) if x.mode == Mode::Random => {
                    let name = x.name;
                    let data = self.store.get_mut(&name).unwrap();
                    let off = (r - 1) * 4;
                    // a gap is filled with bytes of unspecified value, written here as NUL
                    while data.len() < off {
                        data.push(0);
                    }
                    let mut rec: Vec<u8> = RECORDS[*v].as_bytes().to_vec();
                    // the padding of a value shorter than its FIELD is not fixed by the property (R12): unspecified bytes, like a gap
                    while rec.len() < 4 {
                        rec.push(0);
                    }
                    for (i, b) in rec.iter().enumerate() {
                        if off + i < data.len() {
                            data[off + i] = *b;
                        } else {
                            data.push(*b);
                        }
                    }
                    Step::Ok(vec![])
                }
                Some(_) => Step::FileError,
            },
            Op::Get(h, r) => match self.handles.get(h) {
                None => Step::FileError,
                Some(x) if x.mode == Mode::Random => {
                    let data = self.store.get(&x.name).cloned().unwrap_or_default();
                    let off = (r - 1) * 4;
                    if data.len() < off + 4 || data[off..off + 4].contains(&0) {
                        // a record that was never (completely) written: its content is not specified,
                        // but the operation succeeds and changes nothing
                        return Step::Ok(vec![b'{', ANY_RECORD, b'}', b'\r', b'\n']);
                    }
                    let mut out = vec![b'{'];
                    for c in &data[off..off + 4] {
                        // PRINT writes a CR or LF inside a string as CR LF (C16)
                        if *c == b'\r' || *c == b'\n' {
                            out.extend_from_slice(b"\r\n");
                        } else {
                            out.push(*c);
                        }
                    }
                    out.extend_from_slice(b"}\r\n");
                    Step::Ok(out)
                }
                Some(_) => Step::FileError,
            },
        }
    }
}

fn mode_text(m: Mode) -> &'static str {
    match m {
        Mode::Input => "INPUT",
        Mode::Output => "OUTPUT",
        Mode::Append => "APPEND",
        Mode::Random => "RANDOM",
    }
}

/// The source lines of an operation (one statement per line; the first line is the one that can fail
/// unless noted). `random_open` tells whether the handle is open FOR RANDOM in the model (LSET needs a FIELD).
pub fn op_lines(op: &Op, random_open: bool) -> Vec<String> {
    match op {
        Op::Open(h, Mode::Random, n) => vec![format!("OPEN \"{}\" FOR RANDOM AS #{} LEN = 4", NAMES[*n], h), format!("FIELD #{}, 4 AS F{}$", h, h)],
        Op::Open(h, m, n) => vec![format!("OPEN \"{}\" FOR {} AS #{}", NAMES[*n], mode_text(*m), h)],
        Op::Print(h, i) => vec![format!("PRINT #{}, {}", h, ITEMS[*i].0)],
        Op::LineInput(h) => vec![format!("LINE INPUT #{}, L$", h), "PRINT \"[\"; L$; \"]\"".to_string()],
        Op::Input1(h) => vec![format!("INPUT #{}, A$", h), "PRINT \"[\"; A$; \"]\"".to_string()],
        Op::Input2(h) => vec![format!("INPUT #{}, A$, B$", h), "PRINT \"[\"; A$; \"][\"; B$; \"]\"".to_string()],
        Op::InputNum(h) => vec![format!("INPUT #{}, N%", h), "PRINT N%".to_string()],
        Op::Eof(h) => vec![format!("PRINT EOF({})", h)],
        Op::Close(h) => vec![format!("CLOSE #{}", h)],
        Op::CloseAll => vec!["CLOSE".to_string()],
        Op::Kill(n) => vec![format!("KILL \"{}\"", NAMES[*n])],
        Op::Name(a, b) => vec![format!("NAME \"{}\" AS \"{}\"", NAMES[*a], NAMES[*b])],
        Op::Put(h, v, r) => {
            if random_open {
                vec![format!("LSET F{}$ = \"{}\"", h, RECORDS[*v]), format!("PUT #{}, {}", h, r)]
            } else {
                vec![format!("PUT #{}, {}", h, r)]
            }
        }
        Op::Get(h, r) => vec![format!("GET #{}, {}", h, r), format!("PRINT \"{{\"; F{}$; \"}}\"", h)],
    }
}

pub fn alphabet(handles: usize) -> Vec<Op> {
    let mut v = vec![];
    for h in 1..=handles {
        for n in 0..NAMES.len() {
            for m in [Mode::Input, Mode::Output, Mode::Append] {
                v.push(Op::Open(h, m, n));
            }
        }
        for n in [0usize, 2] {
            v.push(Op::Open(h, Mode::Random, n));
        }
        for i in 0..ITEMS.len() {
            v.push(Op::Print(h, i));
        }
        v.push(Op::LineInput(h));
        v.push(Op::Input1(h));
        v.push(Op::Input2(h));
        v.push(Op::InputNum(h));
        v.push(Op::Eof(h));
        v.push(Op::Close(h));
        for val in 0..RECORDS.len() {
            for r in 1..=2 {
                v.push(Op::Put(h, val, r));
            }
        }
        for r in 1..=2 {
            v.push(Op::Get(h, r));
        }
    }
    v.push(Op::CloseAll);
    for n in 0..3 {
        v.push(Op::Kill(n));
    }
    v.push(Op::Kill(3));
    v.push(Op::Name(0, 1));
    v.push(Op::Name(1, 0));
    v.push(Op::Name(2, 1));
    v
}

/// Splitting of console / file input: the lines of a byte string and the fields of each line.
pub fn split_lines_fields(data: &[u8]) -> Vec<(Vec<u8>, Vec<Vec<u8>>)> {
    let mut out = vec![];
    let mut pos = 0;
    while pos < data.len() {
        let start = pos;
        let line = read_line(data, &mut pos);
        let end = pos;
        // the fields of this line: read fields until the line's bytes are used up
        let chunk = &data[start..end];
        let mut p = 0;
        let mut fields = vec![];
        loop {
            fields.push(read_field(chunk, &mut p));
            if p >= chunk.len() {
                break;
            }
        }
        out.push((line, fields));
    }
    out
}
